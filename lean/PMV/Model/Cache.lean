/-
  C18 view — the per-object cache of a polymath `Qube` as a state machine.  Mathlib-free.

  One object `a` is followed through a history of cached queries and mutators.
  * `Core`  : what the object "is": version stamps of `_values_`, `_mask_`, `_units_`, the flags `_readonly_`,
              "has derivatives", "is shapeless", and the REPRESENTATION facts the code branches on
              (`_values_` is an ndarray or a Python scalar; `_mask_` is a single bool or an array).
  * `Cache` : `_cache_` — the entries 'antimask', 'corners', 'slicer', 'wod', 'unshrunk' ('shrunk' is only ever
              deleted by the code, qube.py:1013).  An entry stores the ANSWER as it was computed (a stamp), except
              `wod`, which stores a shallow clone SHARING the arrays of its parent — the two CPython facts that
              matter are modelled in `Cache.onWrite`: an augmented assignment to an ndarray `_values_` updates it
              in place (the clone sees it), to a Python scalar it rebinds (the clone keeps the old value).
  * queries (`qAntimask` … ) are written like the properties in qube.py:1269-1282, 1344-1370, 1386-1467;
  * mutators are NOT written by hand: a mutator step executes a path of events taken from the table that the
    translator regenerates from the source (`PMV/Gen/EventPaths.lean`).

  `Abs`/`absEvent` is the abstract interpretation used by the policy check (`pathOK`): which entries may be
  present (`p…`) and which of them may be stale, and why (`d…`).
-/
namespace PMV.Cache

inductive Attr | values | mask | derivs | units | readonly
  deriving DecidableEq, Repr

/-- how an attribute is written: `rebind` = `self.x = e`; `aug` = `self.x op= e` (in place for an ndarray,
    a rebinding for a Python scalar); `store` = `self.x[i] = e` (in place); `setTrue` = `self.x = True`;
    `same` = `self.x = self.x.copy()` / `self.x = Qube._array_to_readonly(self.x)`: a new object (or the same one)
    with the SAME content -/
inductive Mode | rebind | aug | store | setTrue | same
  deriving DecidableEq, Repr

inductive Key | antimask | corners | slicer | wod | unshrunk | shrunk
  deriving DecidableEq, Repr

/-- the cached queries (and two that never touch the cache).  `shrinkSelf touch fill`: the effect of
    `a.shrink(am)` on `a`'s own cache (shrinker.py:33-48): `touch` = line 39 evaluated `self.antimask`,
    `fill` = the shapeless branch stored `_cache_['unshrunk'] = self`.  `unshrinkSelf`: `a.unshrink(am)` pops it. -/
inductive Query
  | antimask | corners | slicer | wod | countMasked
  | shrinkSelf (touch fill : Bool) | unshrinkSelf
  deriving DecidableEq, Repr

inductive Event
  | requireWritable | raise_ | ret | excAt
  | write (a : Attr) (m : Mode)
  | cacheClear | cacheDel (k : Key) | cacheFreeze
  | assumeVarr (b : Bool)
  | call (name : String)
  | mayFill
  /-- an exception may leave the mutator here: a call of a helper (`site`) whose body can raise, or a NumPy
      augmented assignment that can fail before it writes -/
  | mayRaise (site : String)
  /-- the REPRESENTATION of the mask changed although its content did not (a single bool expanded to an array of
      that bool): no cached answer becomes wrong, but a cached antimask of the old representation is unusable by
      `_find_corners`, which assumes that antimask and mask have the same representation (finding KF-C18-2) -/
  | maskRepChanged
  deriving DecidableEq, Repr

abbrev Table := List (String × List (List Event))

inductive MRep | sFalse | sTrue | arr
  deriving DecidableEq, Repr

/-- representation facts after a mutator, observed on the real object by the harness (inputs of the model) -/
structure Facts where
  varr : Bool
  mrep : MRep
  hasDerivs : Bool
  ro : Bool
  deriving DecidableEq, Repr

structure Core where
  next : Nat
  v : Nat
  m : Nat
  u : Nat
  varr : Bool
  mrep : MRep
  ro : Bool
  hasDerivs : Bool
  shapeless : Bool
  deriving DecidableEq, Repr

/-- a cached `wod`: a clone that shares `_values_`/`_mask_` with its parent until the parent rebinds them -/
structure WodE where
  vshared : Bool
  v : Nat
  mshared : Bool
  m : Nat
  u : Nat
  ro : Bool
  deriving DecidableEq, Repr

structure Cache where
  anti : Option Nat
  corn : Option (Option Nat)
  slic : Option Nat
  wod : Option WodE
  unshrunk : Bool
  shrunk : Bool
  deriving DecidableEq, Repr

structure St where
  core : Core
  cache : Cache
  deriving DecidableEq, Repr

def Cache.empty : Cache := ⟨none, none, none, none, false, false⟩

inductive Ans
  | stamp (n : Nat)
  | corners (c : Option Nat)
  | wod (v m u : Nat) (ro : Bool)
  | err
  | unit
  deriving DecidableEq, Repr

/-! ### recomputation from the current arrays (the specification of every view) -/

def Core.freshCorn (c : Core) : Option Nat := match c.shapeless with | true => none | false => some c.m

def Core.freshWod (c : Core) : Ans := .wod c.v c.m c.u c.ro

/-- what a cached wod shows now: shared arrays follow the parent, everything else is as captured -/
def WodE.answer (e : WodE) (c : Core) : Ans :=
  .wod (match e.vshared with | true => c.v | false => e.v) (match e.mshared with | true => c.m | false => e.m) e.u e.ro

def Core.recompute (c : Core) : Query → Ans
  | .antimask => .stamp c.m
  | .corners => .corners c.freshCorn
  | .slicer => match c.freshCorn with | none => .err | some x => .stamp x
  | .wod => c.freshWod
  | .countMasked => .stamp c.m
  | .shrinkSelf _ _ => .unit
  | .unshrinkSelf => .unit

/-! ### the cached queries, shaped like the properties -/

/-- cache lookup honours the global switch `Qube.DISABLE_CACHE` (qube.py:1272 `if not Qube.DISABLE_CACHE and …`) -/
def look {α} (en : Bool) (x : Option α) : Option α := match en with | true => x | false => none

/-- qube.py:1268-1282 -/
def qAntimask (en : Bool) (s : St) : Nat × St :=
  match look en s.cache.anti with
  | some x => (x, s)
  | none => (s.core.m, { s with cache := { s.cache with anti := some s.core.m } })

/-- qube.py:1386-1420: `None` for a shapeless object; from the scalar mask directly; else from `self.antimask` -/
def findCorners (en : Bool) (s : St) : Option Nat × St :=
  match s.core.shapeless with
  | true => (none, s)
  | false =>
    match s.core.mrep with
    | .arr => let r := qAntimask en s; (some r.1, r.2)
    | _ => (some s.core.m, s)

/-- qube.py:1422-1433 -/
def qCorners (en : Bool) (s : St) : Option Nat × St :=
  match look en s.cache.corn with
  | some c => (c, s)
  | none =>
    let r := findCorners en s
    (r.1, { r.2 with cache := { r.2.cache with corn := some r.1 } })

/-- qube.py:1456-1467; `_slicer_from_corners(None)` raises TypeError before anything is stored -/
def qSlicer (en : Bool) (s : St) : Ans × St :=
  match look en s.cache.slic with
  | some x => (.stamp x, s)
  | none =>
    let r := qCorners en s
    match r.1 with
    | none => (.err, r.2)
    | some x => (.stamp x, { r.2 with cache := { r.2.cache with slic := some x } })

/-- qube.py:1344-1370 -/
def qWod (en : Bool) (s : St) : Ans × St :=
  match s.core.hasDerivs with
  | false => (s.core.freshWod, s)
  | true =>
    match look en s.cache.wod with
    | some e => (e.answer s.core, s)
    | none =>
      let e : WodE := ⟨true, s.core.v, true, s.core.m, s.core.u, s.core.ro⟩
      (e.answer s.core, { s with cache := { s.cache with wod := some e } })

def query (en : Bool) (q : Query) (s : St) : Ans × St :=
  match q with
  | .antimask => let r := qAntimask en s; (.stamp r.1, r.2)
  | .corners => let r := qCorners en s; (.corners r.1, r.2)
  | .slicer => qSlicer en s
  | .wod => qWod en s
  | .countMasked => (.stamp s.core.m, s)             -- qube.py:2423-2432 reads the mask, never the cache
  | .shrinkSelf touch fill =>
    let s1 := match touch with | true => (qAntimask en s).2 | false => s
    (.unit, match fill with
            | true => { s1 with cache := { s1.cache with unshrunk := true } }
            | false => s1)
  | .unshrinkSelf =>                                  -- shrinker.py:130-135
    (.unit, match en with
            | true => { s with cache := { s.cache with unshrunk := false } }
            | false => s)

def queries (en : Bool) : List Query → St → St
  | [], s => s
  | q :: qs, s => queries en qs (query en q s).2

/-! ### mutator events -/

def Mode.rebinds (md : Mode) (isArr : Bool) : Bool :=
  match md with
  | .rebind => true
  | .setTrue => true
  | .same => true
  | .store => false
  | .aug => !isArr

def Core.write (c : Core) (a : Attr) (md : Mode) (post : Facts) : Core :=
  match a with
  | .values => { c with v := c.next, next := c.next + 1,
                        -- an in-place update cannot change the representation; a rebinding can
                        varr := match md, c.varr with
                                | .aug, true => true
                                | .store, b => b
                                | _, _ => post.varr }
  | .mask => { c with m := c.next, next := c.next + 1, mrep := post.mrep }
  | .units => { c with u := c.next, next := c.next + 1 }
  | .readonly => { c with ro := match md with | .setTrue => true | _ => post.ro }
  | .derivs => { c with hasDerivs := post.hasDerivs }

def WodE.unshareV (e : WodE) (old : Nat) : WodE :=
  match e.vshared with | true => { e with vshared := false, v := old } | false => e
def WodE.unshareM (e : WodE) (old : Nat) : WodE :=
  match e.mshared with | true => { e with mshared := false, m := old } | false => e

/-- the effect of a write on what is cached: only the `wod` clone is an alias of the parent's arrays -/
def Cache.onWrite (k : Cache) (c : Core) (a : Attr) (md : Mode) : Cache :=
  match a with
  | .values =>
    match md.rebinds c.varr with
    | true => { k with wod := k.wod.map (·.unshareV c.v) }
    | false => k
  | .mask =>
    match md.rebinds (match c.mrep with | .arr => true | _ => false) with
    | true => { k with wod := k.wod.map (·.unshareM c.m) }
    | false => k
  | _ => k

/-- a content-preserving rebinding: only the aliasing changes (the cached clone keeps the old object, whose
    content is what the parent has now) -/
def Cache.onWriteSame (k : Cache) (c : Core) (a : Attr) : Cache :=
  match a with
  | .values => { k with wod := k.wod.map (·.unshareV c.v) }
  | .mask => { k with wod := k.wod.map (·.unshareM c.m) }
  | _ => k

/-- a content-preserving rebinding may still change the REPRESENTATION of the mask (a single bool expanded to an
    array of that bool, indexer.py:175-179; an array copied): the stamp stays, the representation fact is updated -/
def Core.sameRep (c : Core) (a : Attr) (post : Facts) : Core :=
  match a with
  | .mask => { c with mrep := post.mrep }
  | _ => c

def Cache.del (k : Cache) : Key → Cache
  | .antimask => { k with anti := none }
  | .corners => { k with corn := none }
  | .slicer => { k with slic := none }
  | .wod => { k with wod := none }
  | .unshrunk => { k with unshrunk := false }
  | .shrunk => { k with shrunk := false }

/-- qube.py:1939-1943: cached Qubes (the wod) are converted to read-only — only when the cache is enabled -/
def Cache.freeze (k : Cache) (en : Bool) : Cache :=
  match en with
  | true => { k with wod := k.wod.map fun e => { e with ro := true } }
  | false => k

/-- one event of a mutator path; `fills` = the cached queries observed while the code was inside an
    (unmodelled) call at a `mayFill` point -/
def execEvent (en : Bool) (post : Facts) (e : Event) (fills : List Query) (s : St) : St :=
  match e with
  | .write a .same => ⟨s.core.sameRep a post, s.cache.onWriteSame s.core a⟩
  | .write a md => ⟨s.core.write a md post, s.cache.onWrite s.core a md⟩
  | .cacheClear => { s with cache := Cache.empty }
  | .cacheDel k => { s with cache := s.cache.del k }
  | .cacheFreeze => { s with cache := s.cache.freeze en }
  | .assumeVarr b => { s with core := { s.core with varr := b } }
  | .mayFill => queries en fills s
  | _ => s

/-- run a path; every `mayFill` consumes the next list of observed queries -/
def execPath (en : Bool) (post : Facts) : List Event → List (List Query) → St → St
  | [], _, s => s
  | .mayFill :: es, f :: fs, s => execPath en post es fs (execEvent en post .mayFill f s)
  | .mayFill :: es, [], s => execPath en post es [] s
  | e :: es, fs, s => execPath en post es fs (execEvent en post e [] s)

def Table.path (T : Table) (name : String) (i : Nat) : Option (List Event) :=
  match T.lookup name with
  | some ps => ps[i]?
  | none => none

inductive Step
  | query (q : Query)
  | mutate (name : String) (path : Nat) (post : Facts) (fills : List (List Query))
  /-- a mutator given by the events it executed (an unrolling of a path of the table: loops with ANY number of
      iterations, see `Expands`) -/
  | events (es : List Event) (post : Facts) (fills : List (List Query))
  deriving Repr

/-- one step of a history: `(answer, state)`; a mutator answers `unit` -/
def step (T : Table) (en : Bool) (st : Step) (s : St) : Ans × St :=
  match st with
  | .query q => query en q s
  | .mutate name i post fills =>
    match T.path name i with
    | some es => (.unit, execPath en post es fills s)
    | none => (.unit, s)
  | .events es post fills => (.unit, execPath en post es fills s)

def run (T : Table) (en : Bool) : List Step → St → St
  | [], s => s
  | st :: h, s => run T en h (step T en st s).2

/-- the observable answers of a history -/
def answers (T : Table) (en : Bool) : List Step → St → List Ans
  | [], _ => []
  | st :: h, s => let r := step T en st s; r.1 :: answers T en h r.2

/-! ### the specification: no cached entry differs from its recomputation -/

def CacheOK (s : St) : Prop :=
  (∀ x, s.cache.anti = some x → x = s.core.m) ∧
  (∀ c, s.cache.corn = some c → c = s.core.freshCorn) ∧
  (∀ x, s.cache.slic = some x → some x = s.core.freshCorn) ∧
  (∀ e, s.cache.wod = some e → e.answer s.core = s.core.freshWod)

/-- executable form of `CacheOK` (also printed by the driver) -/
def cacheOKb (s : St) : Bool :=
  (match s.cache.anti with | some x => decide (x = s.core.m) | none => true) &&
  (match s.cache.corn with | some c => decide (c = s.core.freshCorn) | none => true) &&
  (match s.cache.slic with | some x => decide (some x = s.core.freshCorn) | none => true) &&
  (match s.cache.wod with | some e => decide (e.answer s.core = s.core.freshWod) | none => true)

theorem cacheOKb_iff (s : St) : cacheOKb s = true ↔ CacheOK s := by
  unfold cacheOKb CacheOK
  cases s.cache.anti <;> cases s.cache.corn <;> cases s.cache.slic <;> cases s.cache.wod <;> simp [and_assoc]

instance (s : St) : Decidable (CacheOK s) := decidable_of_iff _ (cacheOKb_iff s)

/-! ### abstract interpretation of a path (the policy check) -/

/-- `p…` : the entry may be present; `d…` : it may be stale (for the wod: in which component);
    `varr` / `roTrue` : what is known about the representation of `_values_` / about `_readonly_` -/
structure Abs where
  pAnti : Bool
  pCorn : Bool
  pSlic : Bool
  pWod : Bool
  dAnti : Bool
  dCorn : Bool
  dSlic : Bool
  dWodV : Bool
  dWodM : Bool
  dWodU : Bool
  dWodR : Bool
  varr : Option Bool
  roTrue : Bool
  /-- a cached antimask may have the wrong representation (abstract bookkeeping only, see `maskRepChanged`) -/
  rAnti : Bool
  deriving DecidableEq, Repr

/-- before a mutator: anything may be cached, nothing is stale -/
def Abs.start (varr : Bool) : Abs :=
  ⟨true, true, true, true, false, false, false, false, false, false, false, some varr, false, false⟩

/-- no cached answer may be wrong -/
def Abs.cleanD (a : Abs) : Bool :=
  !a.dAnti && !a.dCorn && !a.dSlic && !a.dWodV && !a.dWodM && !a.dWodU && !a.dWodR

def Abs.clean (a : Abs) : Bool := a.cleanD && !a.rAnti

/-- which entries a write invalidates (only if they may be present) -/
def absEvent (e : Event) (a : Abs) : Abs :=
  match e with
  | .write .mask .same => a            -- same content: nothing computed from the mask becomes wrong
  | .write .values .same => { a with dWodV := a.dWodV || a.pWod }
  | .write .values md =>
    match md, a.varr with
    | .store, _ => a
    | .aug, some true => a
    | _, _ => { a with dWodV := a.dWodV || a.pWod, varr := none }
  | .write .mask _ =>
    { a with dAnti := a.dAnti || a.pAnti, dCorn := a.dCorn || a.pCorn, dSlic := a.dSlic || a.pSlic,
             dWodM := a.dWodM || a.pWod }
  | .write .units _ => { a with dWodU := a.dWodU || a.pWod }
  | .write .readonly md =>
    { a with dWodR := a.dWodR || a.pWod, roTrue := match md with | .setTrue => true | _ => false }
  | .write .derivs _ => a
  | .cacheClear =>
    { a with pAnti := false, pCorn := false, pSlic := false, pWod := false, dAnti := false, dCorn := false,
             dSlic := false, dWodV := false, dWodM := false, dWodU := false, dWodR := false, rAnti := false }
  | .cacheDel .antimask => { a with pAnti := false, dAnti := false, rAnti := false }
  | .maskRepChanged => { a with rAnti := a.rAnti || a.pAnti }
  | .cacheDel .corners => { a with pCorn := false, dCorn := false }
  | .cacheDel .slicer => { a with pSlic := false, dSlic := false }
  | .cacheDel .wod => { a with pWod := false, dWodV := false, dWodM := false, dWodU := false, dWodR := false }
  | .cacheDel _ => a
  | .cacheFreeze =>
    -- the cached clone becomes read-only: right if the parent is known to be read-only, otherwise suspicious
    match a.roTrue with
    | true => { a with dWodR := false }
    | false => { a with dWodR := a.dWodR || a.pWod }
  | .assumeVarr b => { a with varr := some b }
  | .mayFill =>
    -- corners may be filled from a stale cached antimask, the slicer from stale corners
    { a with pAnti := true, pCorn := true, pSlic := true, pWod := true,
             dCorn := a.dCorn || a.dAnti, dSlic := a.dSlic || a.dCorn || a.dAnti }
  | _ => a

def absPath : List Event → Abs → Abs
  | [], a => a
  | e :: es, a => absPath es (absEvent e a)

/-- the policy: whatever the writes of the path invalidate, the path removes afterwards
    (for an ndarray `_values_` and for a Python scalar) -/
def pathOK (es : List Event) : Bool :=
  (absPath es (Abs.start true)).clean && (absPath es (Abs.start false)).clean

/-- exceptional exits: at every `mayRaise` point (whose site is not in the reviewed list `exempt`) nothing may be
    stale — the mutator may stop there -/
def exitsOK (exempt : List String) : List Event → Abs → Bool
  | [], _ => true
  | .mayRaise site :: es, a =>
    -- the cheap Boolean tests first: the strings are only compared at a dirty exit (kernel evaluation is lazy)
    (a.cleanD || exempt.contains site) &&
    (!a.rAnti || exempt.contains site || exempt.contains ("rep:" ++ site)) && exitsOK exempt es a
  | e :: es, a => exitsOK exempt es (absEvent e a)

def pathExitsOK (exempt : List String) (es : List Event) : Bool :=
  exitsOK exempt es (Abs.start true) && exitsOK exempt es (Abs.start false)

def endsRet (es : List Event) : Bool := es.getLast? == some .ret

/-- a validation failure inside an inlined helper AFTER the caller has already written (the exception leaves the
    object half-updated: property C19's subject); the only raising paths that the policy does not cover -/
def raisesInHelperAfterWrite : List Event → Bool
  | [] => false
  | .write _ _ :: es => es.any (fun e => match e with | .call _ => true | .requireWritable => true | _ => false)
                        && es.getLast? == some .raise_
  | _ :: es => raisesInHelperAfterWrite es

/-- the policy holds on every path on which the mutator returns normally -/
def Table.coversReturning (T : Table) : Bool := T.all fun m => m.2.all fun es => !endsRet es || pathOK es

/-- … and on every raising path except `raisesInHelperAfterWrite` -/
def Table.coversRaising (T : Table) : Bool :=
  T.all fun m => m.2.all fun es => endsRet es || pathOK es || raisesInHelperAfterWrite es

/-- a step of a history whose mutator path satisfies the policy -/
def Step.covered (T : Table) : Step → Bool
  | .query _ => true
  | .mutate n i _ _ => match T.path n i with | some es => pathOK es | none => true
  | .events es _ _ => pathOK es

/-- a step whose mutator returned normally (or raised on a covered path) -/
def Step.admissible (T : Table) : Step → Bool
  | .query _ => true
  | .mutate n i _ _ => match T.path n i with | some es => endsRet es || pathOK es | none => true
  | .events _ _ _ => false          -- unrollings are admitted through `Expands` (Props/C18: `Admissible`)

/-! ### the information order on abstract values, and loops with any number of iterations -/

/-- information order on abstract values: `a ⊑ b` when `b` allows everything `a` allows and knows no more -/
def Abs.le (a b : Abs) : Bool :=
  (!a.pAnti || b.pAnti) && (!a.pCorn || b.pCorn) && (!a.pSlic || b.pSlic) && (!a.pWod || b.pWod) &&
  (!a.dAnti || b.dAnti) && (!a.dCorn || b.dCorn) && (!a.dSlic || b.dSlic) && (!a.dWodV || b.dWodV) &&
  (!a.dWodM || b.dWodM) && (!a.dWodU || b.dWodU) && (!a.dWodR || b.dWodR) &&
  (match b.varr with | none => true | some x => decide (a.varr = some x)) && (!b.roTrue || a.roTrue) &&
  (!a.rAnti || b.rAnti)

def Abs.join (a b : Abs) : Abs :=
  ⟨a.pAnti || b.pAnti, a.pCorn || b.pCorn, a.pSlic || b.pSlic, a.pWod || b.pWod, a.dAnti || b.dAnti,
   a.dCorn || b.dCorn, a.dSlic || b.dSlic, a.dWodV || b.dWodV, a.dWodM || b.dWodM, a.dWodU || b.dWodU,
   a.dWodR || b.dWodR, (match decide (a.varr = b.varr) with | true => a.varr | false => none), a.roTrue && b.roTrue,
   a.rAnti || b.rAnti⟩

def Abs.top : Abs := ⟨true, true, true, true, true, true, true, true, true, true, true, none, false, true⟩

/-! ### loops: every number of iterations -/

/-- a piece of a path: straight code (one alternative, run once) or a loop (any number of iterations, each
    running one of the alternative bodies) -/
structure Seg where
  isLoop : Bool
  alts : List (List Event)
  deriving DecidableEq, Repr

/-- one abstract round: the entry value joined with the result of every alternative body -/
def absAlts (alts : List (List Event)) (a : Abs) : Abs :=
  alts.foldl (fun acc es => acc.join (absPath es a)) a

def absIter : Nat → List (List Event) → Abs → Abs
  | 0, _, a => a
  | n + 1, alts, a => absIter n alts (absAlts alts a)

/-- abstract value after a segment; for a loop: an iterate that is CHECKED to be a post-fixpoint (else ⊤) -/
def absSeg (s : Seg) (a : Abs) : Abs :=
  match s.isLoop with
  | false => match s.alts with
    | [es] => absPath es a
    | _ => Abs.top
  | true =>
    let x := absIter 4 s.alts a
    match s.alts.all fun es => (absPath es x).le x with
    | true => x
    | false => Abs.top

def absSegs : List Seg → Abs → Abs
  | [], a => a
  | s :: ss, a => absSegs ss (absSeg s a)

def segsOK (segs : List Seg) : Bool :=
  (absSegs segs (Abs.start true)).clean && (absSegs segs (Abs.start false)).clean

/-- the event lists a segmented path stands for -/
inductive Expands : List Seg → List Event → Prop
  | nil : Expands [] []
  | straight {es rest : List Event} {segs : List Seg} :
      Expands segs rest → Expands (⟨false, [es]⟩ :: segs) (es ++ rest)
  | loop {alts iters : List (List Event)} {rest : List Event} {segs : List Seg} :
      (∀ b ∈ iters, b ∈ alts) → Expands segs rest → Expands (⟨true, alts⟩ :: segs) (iters.flatten ++ rest)

/-! ### exceptional exits of segmented paths -/

def segExitsOK (ex : List String) (s : Seg) (a : Abs) : Bool :=
  match s.isLoop with
  | false => match s.alts with
    | [es] => exitsOK ex es a
    | _ => false
  | true => s.alts.all fun es => exitsOK ex es (absSeg s a)

def segsExitsOK (ex : List String) : List Seg → Abs → Bool
  | [], _ => true
  | s :: ss, a => segExitsOK ex s a && segsExitsOK ex ss (absSeg s a)

def segsAllExitsOK (ex : List String) (segs : List Seg) : Bool :=
  segsExitsOK ex segs (Abs.start true) && segsExitsOK ex segs (Abs.start false)

/-! ### the 'unshrunk' entry of a SHRUNK object (shrinker.py:86,103; read by `unshrink`, shrinker.py:133-154) -/

/-- abstract view: the entry may be present (`p`) / may refer to an original that no longer corresponds to the
    shrunk object (`s`) -/
structure UnAbs where
  p : Bool
  s : Bool
  deriving DecidableEq, Repr

/-- every write to the content of the object (values, mask, derivatives, units — NOT the read-only flag, not a
    content-preserving rebinding) makes a cached original obsolete; `clear` / `del …['unshrunk']` remove it -/
def unEvent (e : Event) (u : UnAbs) : UnAbs :=
  match e with
  | .write _ .same => u
  | .write .readonly _ => u
  | .write _ _ => { u with s := u.s || u.p }
  | .cacheClear => ⟨false, false⟩
  | .cacheDel .unshrunk => ⟨false, false⟩
  | .mayFill => { u with p := true }
  | _ => u

def unPath : List Event → UnAbs → UnAbs
  | [], u => u
  | e :: es, u => unPath es (unEvent e u)

/-- the policy for 'unshrunk': whatever the path changes in the object, it drops the cached original afterwards -/
def unOK (es : List Event) : Bool := !(unPath es ⟨true, false⟩).s

/-- a shrunk object, concretely: a version stamp of its content (values, mask, derivatives, units), and the cached
    original with the content it corresponded to when it was stored -/
structure ShrunkSt where
  next : Nat
  content : Nat
  hasRef : Bool
  refContent : Nat
  deriving DecidableEq, Repr

def sExec (e : Event) (s : ShrunkSt) : ShrunkSt :=
  match e with
  | .write _ .same => s
  | .write .readonly _ => s
  | .write _ _ => { s with content := s.next, next := s.next + 1 }
  | .cacheClear => { s with hasRef := false }
  | .cacheDel .unshrunk => { s with hasRef := false }
  | _ => s

def sRun : List Event → ShrunkSt → ShrunkSt
  | [], s => s
  | e :: es, s => sRun es (sExec e s)

/-- `s.unshrink(am)`: with the cache and an entry, the cached original (masked outside `am`); otherwise rebuilt from
    the shrunk object itself -/
def sUnshrink (en : Bool) (s : ShrunkSt) : Nat :=
  match en && s.hasRef with
  | true => s.refContent
  | false => s.content

/-! ### a shrunk object holds a reference to its original (known finding KF-C18-1) -/

/-- `s = a.shrink(am)` (shrinker.py:93-104): a read-only COPY of the selected elements of `a` — the stamps of
    `a` at that moment — whose cache gets `_cache_['unshrunk'] = a`, a reference, not a copy -/
structure Shrunk where
  v : Nat
  m : Nat
  hasRef : Bool
  deriving DecidableEq, Repr

def shrinkHold (a : Core) : Shrunk := ⟨a.v, a.m, true⟩

/-- `s.unshrink(am)` (shrinker.py:129-188): with the cache the CURRENT original, masked outside `am` (line 154);
    with `DISABLE_CACHE` (or no entry) the object rebuilt from the shrunk copy (lines 156-188) -/
def unshrinkHeld (en : Bool) (s : Shrunk) (a : Core) : Nat × Nat :=
  match en && s.hasRef with
  | true => (a.v, a.m)
  | false => (s.v, s.m)

end PMV.Cache
