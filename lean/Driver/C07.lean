import Driver.Loop
import PMV.Model.Heap
import PMV.Gen.Summaries
/- line-protocol handler for the C07 view (heap model of aliasing)

   request : (c07 call <summary> <flag> (keys…) <next> (objs (oid vals mask units ro (k d)…)…)
                  (arrs (aid buf wr)…) (args v…) (srcs aid…) (sched n…))
             where vals/mask/units are a cell number or `-`, v is `(o n)|(a n)|(u n)|p`
   answer  : (<ret|raise> <result> (wr aid…) (ro oid…) <number of other differences on old cells>)
-/
namespace Drv.C07
open PMV PMV.Heap

def err (msg : String) : Sx := .list [.atom "driver-error", .atom msg]

def optNat : Sx → Option (Option Nat)
  | .atom "-" => some none
  | x => x.toNat?.map some

def parsePairs : List Sx → Option (List (Nat × Nat))
  | [] => some []
  | .list [k, d] :: rest => do
    let k ← k.toNat?
    let d ← d.toNat?
    let r ← parsePairs rest
    some ((k, d) :: r)
  | _ => none

def parseObj : Sx → Option (Nat × Obj)
  | .list (oid :: v :: m :: u :: ro :: ds) => do
    let oid ← oid.toNat?
    let v ← optNat v
    let m ← optNat m
    let u ← optNat u
    let ro ← ro.toBool?
    let ds ← parsePairs ds
    some (oid, ⟨v, m, u, ds, ro⟩)
  | _ => none

def parseArr : Sx → Option (Nat × ArrObj)
  | .list [a, b, w] => do
    let a ← a.toNat?
    let b ← b.toNat?
    let w ← w.toBool?
    some (a, ⟨b, w⟩)
  | _ => none

def parseVal : Sx → Option Val
  | .atom "p" => some .py
  | .list [.atom "o", n] => n.toNat?.map .obj
  | .list [.atom "a", n] => n.toNat?.map .arr
  | .list [.atom "u", n] => n.toNat?.map .units
  | _ => none

def mkHeap (next : Nat) (objs : List (Nat × Obj)) (arrs : List (Nat × ArrObj)) : Heap :=
  { buf := fun b => Int.ofNat b + 100,
    arr := fun a => (arrs.lookup a).getD ⟨0, true⟩,
    uname := fun u => Int.ofNat u,
    obj := fun o => (objs.lookup o).getD ⟨none, none, none, [], false⟩,
    next := next }

def summaryOf (name : String) (flag : Bool) (keys : List Nat) : Option (List Eff) :=
  match name with
  | "copy" => some (Summary.copy keys)
  | "clone" => some (Summary.clone keys)
  | "wod" => some Summary.wod
  | "arith" => some (Summary.arith flag keys)
  | "viewing" => some (Summary.viewing keys)
  | "fancy" => some (Summary.fancy keys)
  | "self" => some Summary.self
  | "broadcast" => some (Summary.broadcast keys)
  | "inverse" => some (Summary.inverse flag keys)
  | "inversePinned" => some (Summary.inversePinned flag)
  | "rot90" => some (Summary.rot90 flag keys)
  | "mulUnitsPinned" => some Summary.mulUnitsPinned
  | "mulUnitsFixed" => some Summary.mulUnitsFixed
  | "unitsMulNone" => some (Summary.unitsMulNone flag)
  | "unitsNew" => some Summary.unitsNew
  | _ => none

def indexOf (l : List Nat) (p : Nat → Bool) : Option Nat :=
  (List.range l.length).find? fun i => p (l.getD i 0)

/-- classification of one array reference of the result against the operand arrays `srcs` -/
def arrDesc (h0 h : Heap) (srcs : List Nat) : Option Nat → Sx
  | none => .atom "py"
  | some a =>
    let w := Sx.ofBool (h.arr a).wr
    match indexOf srcs (· == a) with
    | some i => .list [.atom "same", Sx.ofNat i, w]
    | none =>
      match indexOf srcs (fun s => (h0.arr s).buf == (h.arr a).buf) with
      | some i => .list [.atom "view", Sx.ofNat i, w]
      | none => .list [.atom "fresh", w]

def insertSorted (p : Nat × Nat) : List (Nat × Nat) → List (Nat × Nat)
  | [] => [p]
  | q :: r => if p.1 ≤ q.1 then p :: q :: r else q :: insertSorted p r

def resultDesc (h0 h : Heap) (srcs : List Nat) (next0 : Nat) : Val → Sx
  | .obj o =>
    if o < next0 then .list [.atom "operand", Sx.ofNat o]
    else
      let ob := h.obj o
      let ds := (ob.derivs.foldr insertSorted [])
      .list ([.atom "obj", arrDesc h0 h srcs ob.vals, arrDesc h0 h srcs ob.mask, Sx.ofBool ob.ro] ++
             ds.map fun (k, d) => .list [Sx.ofNat k, arrDesc h0 h srcs (h.obj d).vals, arrDesc h0 h srcs (h.obj d).mask,
                                         Sx.ofBool (h.obj d).ro])
  | .units u => if u < next0 then .list [.atom "operand-units", Sx.ofNat u] else .atom "new-units"
  | .arr a => .list [.atom "array", arrDesc h0 h srcs (some a)]
  | .py => .atom "py"

/-- a history step: a `MutT`, or `insert_deriv(k, d)` with the existing object `d` as operand -/
inductive Step where
  | mut (m : MutT)
  | alias (k d : Nat)

def applyStep (h : Heap) (t : Nat) : Step → Heap
  | .mut m => applyMutT h t m
  | .alias k d => insertAlias h t k d

def parseMutT : Sx → Option MutT
  | .atom "write" => some (.own (.write 41))
  | .atom "writeMask" => some (.own (.writeMask 42))
  | .atom "rebind" => some (.own (.rebindVals 43))
  | .atom "setUnits" => some (.own (.setUnits none))
  | .atom "freeze" => some (.own .freeze)
  | .list [.atom "dwrite", k] => k.toNat?.map fun k => .deriv k (.write 44)
  | .list [.atom "drebind", k] => k.toNat?.map fun k => .deriv k (.rebindVals 46)
  | .list [.atom "insert", k] => k.toNat?.map fun k => .insertDeriv k 45
  | .list [.atom "delete", k] => k.toNat?.map fun k => .deleteDeriv k
  | _ => none

def parseStep : Sx → Option Step
  | .list [.atom "alias", k, d] => do
    let k ← k.toNat?
    let d ← d.toNat?
    some (.alias k d)
  | x => (parseMutT x).map .mut

/-- executable version of `SameObsT`: the object, its derivative set and objects, their ndarrays and buffers -/
def obsEq (h h' : Heap) (x : Nat) : Bool :=
  (h.reachObjs x).all fun p =>
    h'.obj p == h.obj p &&
    (h.objArrs p).all fun a => h'.arr a == h.arr a && h'.buf (h.arr a).buf == h.buf (h.arr a).buf

def handle : List Sx → Sx
  | [.atom "call", .atom name, flag, keys, next, .list (.atom "objs" :: objs), .list (.atom "arrs" :: arrs),
     .list (.atom "args" :: args), .list (.atom "srcs" :: srcs), .list (.atom "sched" :: sched)] =>
    match flag.toBool?, keys.nats?, next.toNat?, objs.mapM parseObj, arrs.mapM parseArr, args.mapM parseVal,
          (Sx.list srcs).nats?, (Sx.list sched).nats? with
    | some flag, some keys, some next, some objs, some arrs, some args, some srcs, some sched =>
      match summaryOf name flag keys with
      | none => err "summary"
      | some p =>
        let h0 := mkHeap next objs arrs
        let st := call p h0 ⟨args, fun n => sched.contains n⟩
        let h := st.h
        let wr := (arrs.map (·.1)).filter fun a => (h0.arr a).wr && !(h.arr a).wr
        let ro := (objs.map (·.1)).filter fun o => !(h0.obj o).ro && (h.obj o).ro
        let other :=
          ((arrs.map (·.1)).filter fun a => (h.arr a).buf != (h0.arr a).buf || (!(h0.arr a).wr && (h.arr a).wr)).length +
          ((List.range next).filter fun b => h.buf b != h0.buf b || h.uname b != h0.uname b).length +
          ((objs.map (·.1)).filter fun o =>
              (h.obj o).vals != (h0.obj o).vals || (h.obj o).mask != (h0.obj o).mask ||
              (h.obj o).units != (h0.obj o).units || (h.obj o).derivs != (h0.obj o).derivs ||
              ((h0.obj o).ro && !(h.obj o).ro)).length
        .list [.atom (if st.raised then "raise" else "ret"),
               (if st.raised then .atom "-" else resultDesc h0 h srcs next (st.env 0)),
               .list (.atom "wr" :: wr.map Sx.ofNat), .list (.atom "ro" :: ro.map Sx.ofNat), Sx.ofNat other]
    | _, _, _, _, _, _, _, _ => err "operand"
  | [.atom "seq", side, .list (.atom "muts" :: muts), next, .list (.atom "objs" :: objs),
     .list (.atom "arrs" :: arrs), root] =>
    -- c = root.copy(); apply the mutators to the source (side = T) or to the copy (side = F); is the complete
    -- observation of the other one unchanged ?
    match side.toBool?, muts.mapM parseStep, next.toNat?, objs.mapM parseObj, arrs.mapM parseArr, root.toNat? with
    | some side, some muts, some next, some objs, some arrs, some root =>
      let h0 := mkHeap next objs arrs
      let r := copyObj h0 root
      let h1 := r.1
      let c := r.2
      let h2 := muts.foldl (fun h m => applyStep h (if side then root else c) m) h1
      let other := if side then c else root
      .list [.atom "same", Sx.ofBool (obsEq h1 h2 other)]
    | _, _, _, _, _, _ => err "operand"
  | [.atom "gen", .atom fn] =>
    -- what the generated summary of `fn` claims about its result, and whether the summary passes its check
    match PMV.Gen.C07S.summaries.find? (fun s => s.fn == fn) with
    | some s => .list [.atom "gen", .atom s.claim, Sx.ofBool (safe s.rx s.prog)]
    | none => .atom "no-summary"
  | _ => err "c07-op"

end Drv.C07

def main : IO Unit := Drv.runLoop fun x =>
  match x with
  | .list (.atom "c07" :: rest) => Drv.C07.handle rest
  | _ => .atom "bad-op"
