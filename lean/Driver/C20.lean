import Driver.Util
import Driver.Loop
import PMV.Model.Poly
/- line-protocol handlers for the C20 view (Polynomial).
   Ring operations, deriv and eval run on `Int` (the harness sends integer-valued float64
   coefficients, for which float64 `+ - *` are exact); the root formulas run on `Float`
   (IEEE double, the same single operations NumPy performs, compared bit for bit). -/
namespace Drv.C20
open PMV PMV.Poly Drv

/-! #### Int side -/

/-- polynomial operand: `(shape) len (ints, row-major, len per leading element) mask` -/
structure POpd where
  shape : Shape
  len : Nat
  vals : Array Int
  mask : MaskRep

def parseP : Sx → Option POpd
  | .list [sh, len, vs, m] => do
    let shape ← sh.nats?
    let len ← len.toNat?
    let vals ← vs.ints?
    let mask ← parseMask m
    some ⟨shape, len, vals.toArray, mask⟩
  | _ => none

def POpd.arr (o : POpd) : Arr (PCell Int) :=
  ⟨o.shape, fun i => ⟨itemAt o.vals o.shape o.len i, o.mask.at o.shape i⟩⟩

/-- scalar operand: `(shape) (ints) mask` -/
structure SOpd where
  shape : Shape
  vals : Array Int
  mask : MaskRep

def parseS : Sx → Option SOpd
  | .list [sh, vs, m] => do
    let shape ← sh.nats?
    let vals ← vs.ints?
    let mask ← parseMask m
    some ⟨shape, vals.toArray, mask⟩
  | _ => none

def SOpd.arr (o : SOpd) : Arr (SCell Int) :=
  ⟨o.shape, fun i => ⟨o.vals[ravel o.shape i]!, o.mask.at o.shape i⟩⟩

def outP (a : Arr (PCell Int)) : Sx :=
  .list [Sx.ofNats a.shape, .list (a.toList.map fun c => if c.m then .atom "m" else Sx.ofInts c.c)]

def outS (a : Arr (SCell Int)) : Sx :=
  .list [Sx.ofNats a.shape, .list (a.toList.map fun c => if c.m then .atom "m" else Sx.ofInt c.v)]

def bin (f : Arr (PCell Int) → Arr (PCell Int) → Option (Arr (PCell Int))) (a b : Sx) : Sx :=
  match parseP a, parseP b with
  | some a, some b =>
    match f a.arr b.arr with
    | some r => outP r
    | none => .atom "ValueError"
  | _, _ => err "operand"

/-- `__iadd__`/`__isub__` (polynomial.py:178-181, 193-196): `set_order` on the argument first -/
def inplace (f : PCell Int → PCell Int → PCell Int) (a b : Sx) : Sx :=
  match parseP a, parseP b with
  | some a, some b =>
    if a.len - 1 < b.len - 1 then .atom "ValueError"
    else
      match Arr.map2 f a.arr b.arr with
      | some r => if r.shape == a.shape then outP r else .atom "ValueError"
      | none => .atom "ValueError"
  | _, _ => err "operand"

/-! #### derivatives (key `d_dt`), Int side -/

/-- polynomial with a derivative: `(shape) len (ints) mask (derivative ints)` -/
def parsePD : Sx → Option (Arr (PCellD Int))
  | .list [sh, len, vs, m, ds] => do
    let shape ← sh.nats?
    let len ← len.toNat?
    let vals ← vs.ints?
    let dvals ← ds.ints?
    let mask ← parseMask m
    let va := vals.toArray
    let da := dvals.toArray
    some ⟨shape, fun i => ⟨itemAt va shape len i, itemAt da shape len i, mask.at shape i⟩⟩
  | _ => none

/-- scalar with a derivative: `(shape) (ints) mask (derivative ints)` -/
def parseSD : Sx → Option (Arr (SCell Int × Int))
  | .list [sh, vs, m, ds] => do
    let shape ← sh.nats?
    let vals ← vs.ints?
    let dvals ← ds.ints?
    let mask ← parseMask m
    let va := vals.toArray
    let da := dvals.toArray
    some ⟨shape, fun i => (⟨va[ravel shape i]!, mask.at shape i⟩, da[ravel shape i]!)⟩
  | _ => none

def outPD (r : Arr (PCellD Int)) : Sx :=
  .list [Sx.ofNats r.shape,
         .list (r.toList.map fun c => if c.m then .atom "m" else Sx.ofInts c.c),
         .list (r.toList.map fun c => if c.m then .atom "m" else Sx.ofInts c.d)]

def binD? : String → Option (PCellD Int → PCellD Int → PCellD Int)
  | "add" => some PCellD.add | "sub" => some PCellD.sub | "rsub" => some PCellD.rsub
  | "mul" => some PCellD.mul | _ => none

def unD? (n : Nat) : String → Option (PCellD Int → PCellD Int)
  | "neg" => some PCellD.neg | "deriv" => some PCellD.deriv
  | "pow" => some (fun p => p.pow n) | "id" => some id | _ => none

def handleD : List Sx → Sx
  | [.atom "evald", a, x] =>
    match parsePD a, parseSD x with
    | some a, some x =>
      let f := fun (p : PCellD Int) (x : SCell Int × Int) =>
        (evalD p.c p.d x.1.v x.2, p.m || x.1.m)
      match Arr.map2 f a x with
      | some r =>
        .list [Sx.ofNats r.shape,
               .list (r.toList.map fun c => if c.2 then .atom "m" else Sx.ofInt c.1.1),
               .list (r.toList.map fun c => if c.2 then .atom "m" else Sx.ofInt c.1.2)]
      | none => .atom "ValueError"
    | _, _ => err "operand"
  | [.atom "bind", .atom op, a, b] =>
    match binD? op, parsePD a, parsePD b with
    | some f, some a, some b =>
      match Arr.map2 f a b with
      | some r => outPD r
      | none => .atom "ValueError"
    | _, _, _ => err "operand"
  | [.atom "und", .atom op, n, a] =>
    match n.toNat?, parsePD a with
    | some n, some a =>
      match unD? n op with
      | some f =>
        if op == "pow" && n == 0 then outPD ⟨[], fun _ => (PCellD.pow ⟨[], [], false⟩ 0)⟩
        else outPD (a.map f)
      | none => err "op"
    | _, _ => err "operand"
  | [.atom "smuld", a, k] =>
    match parsePD a, k.toInt? with
    | some a, some k => outPD (a.map (PCellD.scale k))
    | _, _ => err "operand"
  | [.atom "chaind", .atom op1, .atom op2, .atom op3, n, a, b, c] =>
    -- op3 (op2 (op1 a b) c): two binary operators, then a unary one
    match binD? op1, binD? op2, n.toNat?, parsePD a, parsePD b, parsePD c with
    | some f1, some f2, some n, some a, some b, some c =>
      match unD? n op3 with
      | some f3 =>
        match Arr.map2 f1 a b with
        | some ab =>
          match Arr.map2 f2 ab c with
          | some r =>
            if op3 == "pow" && n == 0 then outPD ⟨[], fun _ => (PCellD.pow ⟨[], [], false⟩ 0)⟩
            else outPD (r.map f3)
          | none => .atom "ValueError"
        | none => .atom "ValueError"
      | none => err "op"
    | _, _, _, _, _, _ => err "operand"
  | _ => err "c20-op"

/-! #### Float side -/

instance : One Float := ⟨1.0⟩
instance : RootOps Float where
  half := 0.5
  sqrt := Float.sqrt
  lt a b := decide (a < b)
  beq a b := a == b

def fOfSx (x : Sx) : Option Float := x.toNat?.map fun n => Float.ofBits n.toUInt64
/-- bit pattern of a result; the two zeros are identified (`np.sort` does not order them) -/
def fSx (x : Float) : Sx := .atom (toString (if x == 0 then (0.0 : Float) else x).toBits.toNat)

def floats? (x : Sx) : Option (List Float) := do
  let l ← x.toList?
  l.mapM fOfSx

def pairs? (x : Sx) : Option (List (Float × Float)) := do
  let l ← x.toList?
  l.mapM fun
    | .list [a, b] => do some ((← fOfSx a), (← fOfSx b))
    | _ => none

def outCells (l : List (SCell Float)) : Sx := .list (l.map fun c => if c.m then .atom "m" else fSx c.v)

/-- `roots`: `(shape) len (float bits) mask ((eigenvalues of element 0) (… element 1) …)`;
    answer per leading element: the companion-matrix first row that is handed to `eigvals`
    (orders ≥ 3, else `()`) and the lane of roots -/
def handleRoots (sh len vs m eigs : Sx) : Sx :=
  match sh.nats?, len.toNat?, floats? vs, parseMask m, eigs.toList? with
  | some shape, some len, some vals, some mask, some eigs =>
    if len ≤ 1 then .atom "ValueError" else
    let vals := vals.toArray
    let idx := indices shape
    let cells := idx.zipIdx.map fun (i, n) =>
      let base := ravel shape i * len
      let c := (List.range len).map fun k => vals[base + k]!
      let p : PCell Float := ⟨c, mask.at shape i⟩
      let eig : List (Float × Float) := ((eigs[n]?).bind pairs?).getD []
      -- the row the model would hand to LAPACK (recorded for comparison) and the roots
      -- what is computed underneath a masked polynomial is not observable (C03): no row is reported there
      let row : List Float := if len ≤ 3 || p.m then [] else companionRow (prepHigh p).2.2
      match roots (fun _ => eig) p with
      | some r => Sx.list [.list (row.map fSx), outCells r]
      | none => .atom "ValueError"
    .list [Sx.ofNats shape, .list cells]
  | _, _, _, _, _ => err "operand"

/-- `invline`: `(shape) len (float bits) mask`; per leading element the two coefficients or `m` -/
def handleInv (sh len vs m : Sx) : Sx :=
  match sh.nats?, len.toNat?, floats? vs, parseMask m with
  | some shape, some len, some vals, some mask =>
    if len != 2 then .atom "ValueError" else
    let vals := vals.toArray
    let cells := (indices shape).map fun i =>
      let base := ravel shape i * len
      let p : PCell Float := ⟨[vals[base]!, vals[base + 1]!], mask.at shape i⟩
      match invertLine p with
      | some (u, v) => if u.m || v.m then Sx.atom "m" else Sx.list [fSx u.v, fSx v.v]
      | none => .atom "ValueError"
    .list [Sx.ofNats shape, .list cells]
  | _, _, _, _ => err "operand"

def handle : List Sx → Sx
  | [.atom "invline", sh, len, vs, m] => handleInv sh len vs m
  | [.atom "add", a, b] => bin addA a b
  | [.atom "sub", a, b] => bin subA a b
  | [.atom "rsub", a, b] => bin rsubA a b
  | [.atom "mul", a, b] => bin mulA a b
  | [.atom "iadd", a, b] => inplace PCell.add a b
  | [.atom "isub", a, b] => inplace PCell.sub a b
  | [.atom "smul", a, k] =>
    match parseP a, k.toInt? with
    | some a, some k => outP (a.arr.map fun c => ⟨scaleC k c.c, c.m⟩)
    | _, _ => err "operand"
  | [.atom "neg", a] =>
    match parseP a with
    | some a => outP (negA a.arr)
    | none => err "operand"
  | [.atom "deriv", a] =>
    match parseP a with
    | some a => outP (derivA a.arr)
    | none => err "operand"
  | [.atom "pow", a, n] =>
    match parseP a, n.toNat? with
    | some a, some n => outP (powA a.arr n)
    | _, _ => err "operand"
  | [.atom "eval", a, x] =>
    -- value through the heap view (`evalFixedHeap`, equal to `evalA` by theorem `eval_frame`), plus the
    -- content of the caller's `x` after the call
    match parseP a, parseS x with
    | some a, some x =>
      let f := fun (p : PCell Int) (xc : SCell Int) =>
        (⟨(evalFixedHeap [xc.v] 0 p.c).1, p.m || xc.m⟩ : SCell Int)
      match Arr.map2 f a.arr x.arr with
      | some r =>
        let xafter := x.arr.toList.map fun xc =>
          match a.arr.toList.head? with
          | some p0 => (evalFixedHeap [xc.v] 0 p0.c).2.getD 0 0
          | none => xc.v
        match outS r with
        | .list l => .list (l ++ [Sx.ofInts xafter])
        | o => o
      | none => .atom "ValueError"
    | _, _ => err "operand"
  | [.atom "roots", sh, len, vs, m, eigs] => handleRoots sh len vs m eigs
  | l => handleD l

end Drv.C20

def main : IO Unit := Drv.runLoop fun x =>
  match x with
  | .list (.atom "c20" :: rest) => Drv.C20.handle rest
  | _ => .atom "bad-op"
