import Driver.Loop
import PMV.Model.Units
import PMV.Model.UnitsPrint
/- line-protocol handlers for the C12 view (Units algebra and the units rule of object operations) -/
namespace Drv.C12
open PMV PMV.Units

def err (msg : String) : Sx := .list [.atom "driver-error", .atom msg]

/-- a Units value on the wire: `(e0 e1 e2 numer denom piexp)` -/
def parseU : Sx → Option U
  | .list [a, b, c, n, d, p] => do
    let a ← a.toInt?; let b ← b.toInt?; let c ← c.toInt?
    let n ← n.toNat?; let d ← d.toNat?; let p ← p.toInt?
    some ⟨a, b, c, n, d, p⟩
  | _ => none

/-- optional units: `N` = None -/
def parseOU : Sx → Option (Option U)
  | .atom "N" => some none
  | x => (parseU x).map some

def uSx (u : U) : Sx :=
  .list [Sx.ofInt u.e0, Sx.ofInt u.e1, Sx.ofInt u.e2, Sx.ofNat u.numer, Sx.ofNat u.denom, Sx.ofInt u.piexp]

def ouSx : Option U → Sx
  | none => .atom "N"
  | some u => uSx u

def rejSx : Rej → Sx
  | .valueError => .atom "ValueError"
  | .typeError => .atom "TypeError"

def sqSx : Sq → Sx
  | .exact u => uSx u
  | .inexact => .atom "inexact"

def exSq : Except Rej Sq → Sx
  | .error e => rejSx e
  | .ok r => sqSx r

def exOSq : Except Rej (Option Sq) → Sx
  | .error e => rejSx e
  | .ok none => .atom "N"
  | .ok (some r) => sqSx r

def parsePw : Sx → Option Pw
  | .atom "other" => some .other
  | x => x.toInt?.map .half

def facSx (f : Factor) : Sx := .list [Sx.ofNat f.n, Sx.ofNat f.d, Sx.ofInt f.p]

def outSx : Except Rej RuleOut → Sx
  | .error e => rejSx e
  | .ok (.obj u) => .list [.atom "units", ouSx u]
  | .ok .inexact => .atom "inexact"
  | .ok .cmp => .atom "cmp"
  | .ok (.const b) => .list [.atom "const", Sx.ofBool b]

def parseOp : List Sx → Option OpSym
  | [.atom "pow", p, z] => do
    let p ← parsePw p; let z ← z.toBool?
    some (.pow p z)
  | [.atom s] =>
    match s with
    | "add" => some .add | "sub" => some .sub
    | "lt" => some .lt | "le" => some .le | "gt" => some .gt | "ge" => some .ge
    | "eq" => some .eq | "ne" => some .ne
    | "stack" => some .stack | "from_scalars" => some .fromScalars | "arctan2" => some .arctan2
    | "mul" => some .mul | "dot" => some .dot | "cross" => some .cross | "outer" => some .outer
    | "div" => some .div | "norm_sq" => some .normSq | "norm" => some .norm
    | "sqrt" => some .sqrt | "recip" => some .recip
    | "sin" => some .sin | "cos" => some .cos | "tan" => some .tan | "exp" => some .exp
    | "arcsin" => some .arcsin | "arccos" => some .arccos | "arctan" => some .arctan
    | "int" => some .int | "frac" => some .frac | "log" => some .log
    | _ => none
  | _ => none

def qpiSx (v : QPi) : Sx := .list [Sx.ofInt v.q.num, Sx.ofNat v.q.den, Sx.ofInt v.k]

/-- run `into_units` / `from_units` of the model on an object whose stored values (and those of
    its derivatives) are all 1: the results are the exact factors applied -/
def scaleSx (dir : String) (top : Option U) (ds : List (Option U)) : Sx :=
  let one : QPi := ⟨1, 0⟩
  let o : Obj := ⟨[one], top, ds.map fun u => ("d", ⟨[one], u⟩), true⟩
  let r := match dir with
    | "into" => o.intoUnits
    | "from" => o.fromUnits
    | "round" => o.intoUnits.fromUnits
    | _ => o.fromUnits.intoUnits
  .list (.list (r.vals.map qpiSx) :: r.derivs.map fun kd => .list (kd.2.vals.map qpiSx))

def sqPair (l r : Except Rej Sq) : Sx := .list [exSq l, exSq r]

/-- both sides of an algebraic law, computed by the model functions -/
def lawSx (law : String) (a b c : Option U) (p q : Int) : Sx :=
  match law, a, b, c with
  | "comm", some a, some b, _ => .list [uSx (mul a b), uSx (mul b a)]
  | "assoc", some a, some b, some c => .list [uSx (mul (mul a b) c), uSx (mul a (mul b c))]
  | "cancel", some a, some b, _ => .list [uSx (div (mul a b) b), uSx a]
  | "cancel2", some a, some b, _ => .list [uSx (mul (div a b) b), uSx a]
  | "muldiv", some a, some b, some c => .list [uSx (div (mul a b) c), uSx (mul a (div b c))]
  | "divself", some a, _, _ => .list [uSx (div a a), uSx unitless]
  | "sqrtsq", some a, _, _ => sqPair (sqrt (mul a a)) (.ok (.exact a))
  | "sqrtmul", some a, some b, _ => sqPair (sqrt (mul (mul a b) (mul a b))) (.ok (.exact (mul a b)))
  | "powadd", some a, _, _ => .list [uSx (mul (pow a p) (pow a q)), uSx (pow a (p + q))]
  | "powneg", some a, _, _ => .list [uSx (pow a (-p)), uSx (rdivNat 1 (pow a p))]
  | _, _, _, _ => err "law"

/-- a name on the wire: `N` or a list of `(key exponent)`; the empty key is written `_` -/
def parseName : Sx → Option (Option NameDict)
  | .atom "N" => some none
  | .list l => (l.mapM fun (x : Sx) =>
      match x with
      | Sx.list [Sx.atom k, e] => e.toInt?.map fun e => ((if k == "_" then "" else k), e)
      | _ => none).map some
  | _ => none

def insertKV (kv : String × Int) : List (String × Int) → List (String × Int)
  | [] => [kv]
  | x :: xs => if kv.1 < x.1 then kv :: x :: xs else x :: insertKV kv xs

/-- canonical form: sorted by key, zero exponents (immaterial) dropped -/
def nameSx : Option NameDict → Sx
  | none => .atom "N"
  | some d => .list (((d.filter fun kv => kv.2 != 0).foldr insertKV []).map fun kv =>
      .list [.atom (if kv.1 == "" then "_" else kv.1), Sx.ofInt kv.2])

/-- strings on the wire: `_` is the empty string, `~` a blank -/
def decStr (s : String) : String := if s == "_" then "" else s.map fun c => if c == '~' then ' ' else c

/-- a name for printing: `N` | `(s string)` | `(d (key expo) …)` -/
def parsePName : Sx → Option (Option PName)
  | .atom "N" => some none
  | .list [.atom "s", .atom s] => some (some (.str (decStr s)))
  | .list (.atom "d" :: l) => (l.mapM fun (x : Sx) =>
      match x with
      | Sx.list [Sx.atom k, e] => e.toInt?.map fun e => ((some (decStr k) : PKey), NVal.int e)
      | _ => none).map fun d => some (.dict d)
  | _ => none

/-- the registry with the `.name` of one entry set to None (the damage of defect 13) -/
def damage (r : Reg) (key : String) : Reg :=
  let f := fun (x : RU) => if x.key == key then { x with name := none } else x
  { unitless := f r.unitless, dist := r.dist.map f, time := r.time.map f, angle := r.angle.map f }

def handle : List Sx → Sx
  | [.atom "mk", a, b, c, n, d, p] =>
    match a.toInt?, b.toInt?, c.toInt?, n.toNat?, d.toNat?, p.toInt? with
    | some a, some b, some c, some n, some d, some p => uSx (mk' a b c n d p)
    | _, _, _, _, _, _ => err "mk"
  | [.atom "mul", a, b] =>
    match parseU a, parseU b with
    | some a, some b => uSx (mul a b)
    | _, _ => err "operand"
  | [.atom "div", a, b] =>
    match parseU a, parseU b with
    | some a, some b => uSx (div a b)
    | _, _ => err "operand"
  | [.atom "mulnat", a, k] =>
    match parseU a, k.toNat? with
    | some a, some k => uSx (mulNat a k)
    | _, _ => err "operand"
  | [.atom "divnat", a, k] =>
    match parseU a, k.toNat? with
    | some a, some k => uSx (divNat a k)
    | _, _ => err "operand"
  | [.atom "rdivnat", k, a] =>
    match parseU a, k.toNat? with
    | some a, some k => uSx (rdivNat k a)
    | _, _ => err "operand"
  | [.atom "powr", a, p] =>
    match parseU a, parsePw p with
    | some a, some p => exSq (powR a p)
    | _, _ => err "operand"
  | [.atom "sqrt", a] =>
    match parseU a with
    | some a => exSq (sqrt a)
    | _ => err "operand"
  | [.atom "mul_units", a, b] =>
    match parseOU a, parseOU b with
    | some a, some b => ouSx (mulUnits a b)
    | _, _ => err "operand"
  | [.atom "div_units", a, b] =>
    match parseOU a, parseOU b with
    | some a, some b => ouSx (divUnits a b)
    | _, _ => err "operand"
  | [.atom "sqrt_units", a] =>
    match parseOU a with
    | some a => exOSq (sqrtUnits a)
    | _ => err "operand"
  | [.atom "units_power", a, p] =>
    match parseOU a, parsePw p with
    | some a, some p => exOSq (unitsPower a p)
    | _, _ => err "operand"
  | [.atom "str", u, nm, .atom dmg] =>
    match parseU u, parsePName nm with
    | some u, some nm =>
      let r := if dmg == "-" then stdReg else damage stdReg (decStr dmg)
      match strU r u nm with
      | .ok s => .atom s
      | .error e => rejSx e
    | _, _ => err "operand"
  | [.atom "names", .atom fn, a, b, k] =>
    match parseName a, parseName b, k.toInt? with
    | some a, some b, some k =>
      match fn with
      | "mul" => nameSx (mulNames a b)
      | "div" => nameSx (divNames a b)
      | "pow" => match namePower a (2 * k) with
        | .ok r => nameSx r
        | .error e => rejSx e
      | "sqrt" => nameSx (sqrtName a)
      | _ => err "names"
    | _, _, _ => err "operand"
  | [.atom "law", .atom law, a, b, c, p, q] =>
    match parseOU a, parseOU b, parseOU c, p.toInt?, q.toInt? with
    | some a, some b, some c, some p, some q => lawSx law a b c p q
    | _, _, _, _, _ => err "operand"
  | [.atom "test", .atom t, a, b] =>
    match parseOU a, parseOU b with
    | some a, some b =>
      match t with
      | "can_match" => Sx.ofBool (canMatch a b)
      | "do_match" => Sx.ofBool (doMatch a b)
      | "is_angle" => Sx.ofBool (isAngle a)
      | "is_unitless" => Sx.ofBool (isUnitless a)
      | "eq" => match a, b with
        | some a, some b => Sx.ofBool (eqU a b)
        | _, _ => Sx.ofBool false                    -- `units == None` is False
      | "ne" => match a, b with
        | some a, some b => Sx.ofBool (!eqU a b)
        | _, _ => Sx.ofBool true
      | _ => err "test"
    | _, _ => err "operand"
  | [.atom "convert", a, b] =>
    match parseU a, parseOU b with
    | some a, some b =>
      match convert a b with
      | .error e => rejSx e
      | .ok none => .atom "same"
      | .ok (some f) =>
        -- reported in lowest terms (the harness identifies the factor from a float)
        let q : Rat := (f.n : Rat) / (f.d : Rat)
        .list [Sx.ofInt q.num, Sx.ofNat q.den, Sx.ofInt f.p]
    | _, _ => err "operand"
  | .atom "rule" :: a :: b :: op =>
    match parseOU a, parseOU b, parseOp op with
    | some a, some b, some op => outSx (unitsRule op a b)
    | _, _, _ => err "rule"
  | .atom "hist" :: n :: nder :: cur :: .atom change :: new :: .atom target :: b :: op =>
    -- fresh object (units cur, nder derivatives), n touches of the cached view, the unit-changing step(s), then the
    -- operation on the object reached or on its .wod
    match n.toNat?, nder.toNat?, parseOU cur, parseOU new, parseOU b, parseOp op with
    | some n, some nder, some cur, some new, some b, some op =>
      let o : Obj := ⟨[⟨1, 0⟩], cur, (List.range nder).map fun _ => ("d", ⟨[⟨1, 0⟩], none⟩), true⟩
      let touches := List.replicate n HOp.touch
      let steps? : Option (List HOp) := match change with
        | "set" => some (touches ++ [.setUnits new])
        | "without" => some (touches ++ [.without])
        | "into" => some (touches ++ [.into])
        | "from" => some (touches ++ [.«from»])
        | "clone_set" => some (touches ++ [.clone] ++ (if n > 0 then [.touch] else []) ++ [.setUnits new])
        | _ => none
      match steps? with
      | none => err "hist-change"
      | some steps =>
        match CObj.run steps ⟨o, none⟩ with
        | .error e => rejSx e
        | .ok c =>
          let ua := if target == "wod" then c.wod.1.units else c.obj.units
          outSx (unitsRule op ua b)
    | _, _, _, _, _, _ => err "hist"
  | .atom "drule" :: a :: b :: da :: db :: .atom dop :: p :: z :: op =>
    -- result units (unitsRule) and units of the result's derivative (derivRule)
    let parseDU : Sx → Option DU := fun x => match x with
      | .atom "-" => some none
      | x => (parseOU x).map some
    let dop? : Option DOp := match dop, parsePw p, z.toBool? with
      | "mul", _, _ => some .mulLike | "div", _, _ => some .div | "elem_div", _, _ => some .elemDiv
      | "sqrt", _, _ => some .sqrt | "recip", _, _ => some .recip | "norm", _, _ => some .norm
      | "norm_sq", _, _ => some .normSq
      | "pow", some p, some z => some (.pow p z)
      | _, _, _ => none
    match parseOU a, parseOU b, parseDU da, parseDU db, dop?, parseOp op with
    | some a, some b, some da, some db, some dop, some op =>
      let dsx : Sx := match derivRule dop a b da db with
        | .error e => rejSx e
        | .ok .absent => .atom "absent"
        | .ok .inexact => .atom "inexact"
        | .ok (.units u) => .list [.atom "units", ouSx u]
      match unitsRule op a b with
      | .error e => rejSx e
      | .ok r => match derivRule dop a b da db with
        | .error e => rejSx e               -- the operation as a whole raises
        | .ok _ => .list [outSx (.ok r), dsx]
    | _, _, _, _, _, _ => err "drule"
  | [.atom "nary", .atom fn, .list us] =>
    match us.mapM parseOU with
    | some us =>
      let r := if fn == "stack" then stackN us else fromScalarsN us
      match r with
      | .error e => rejSx e
      | .ok u => .list [.atom "units", ouSx u]
    | none => err "operand"
  | [.atom "scale", .atom dir, top, .list ds] =>
    -- into_units / from_units: factor applied to the object and to each derivative
    match parseOU top, ds.mapM parseOU with
    | some top, some ds =>
      scaleSx dir top ds
    | _, _ => err "operand"
  | [.atom "set_units", ok, cur, new] =>
    match ok.toBool?, parseOU cur, parseOU new with
    | some ok, some cur, some new =>
      match (Obj.setUnits ⟨[], cur, [], ok⟩ new) with
      | .error e => rejSx e
      | .ok o => .list [.atom "units", ouSx o.units]
    | _, _, _ => err "operand"
  | _ => err "c12-op"

end Drv.C12

def main : IO Unit := Drv.runLoop fun x =>
  match x with
  | .list (.atom "c12" :: rest) => Drv.C12.handle rest
  | _ => .atom "bad-op"
