import Driver.Loop
import Driver.Util
import PMV.Model.Cache
import PMV.Gen.EventPaths
/- line-protocol handler for the C18 view: one history per request.

   request : (c18 (init shapeless varr mrep hasDerivs ro) step …)
   step    : (q antimask|corners|slicer|wod|count|unshrink) | (q shrink touch fill)
           | (m NAME IDX (varr mrep hasDerivs ro) ((query …) …))      a path of the REGENERATED table
           | (mp NAME IDX K (varr mrep hasDerivs ro) ((query …) …))    the first K events of a table path: an exception
                                                                       left the mutator at that `mayRaise` point
           | (x (event …) (varr mrep hasDerivs ro) ((query …) …))      explicit events (any other mutator that raised mid-path)
   answer  : one item per step: (keysOn wodShares ok keysOff) where keysOn/keysOff = cache keys after the step
             with the cache enabled / disabled, wodShares = T|F|- (the cached wod shares the parent's ndarray),
             ok = T|F (every cached entry equals its recomputation) or - once an `x` step has been executed. -/
namespace Drv.C18
open PMV PMV.Cache Drv

def parseMRep : Sx → Option MRep
  | .atom "sF" => some .sFalse | .atom "sT" => some .sTrue | .atom "arr" => some .arr | _ => none

def parseFacts : Sx → Option Facts
  | .list [v, m, d, r] => do
    let v ← v.toBool?; let m ← parseMRep m; let d ← d.toBool?; let r ← r.toBool?
    some ⟨v, m, d, r⟩
  | _ => none

def parseQuery : List Sx → Option Query
  | [.atom "antimask"] => some .antimask
  | [.atom "corners"] => some .corners
  | [.atom "slicer"] => some .slicer
  | [.atom "wod"] => some .wod
  | [.atom "count"] => some .countMasked
  | [.atom "unshrink"] => some .unshrinkSelf
  | [.atom "shrink", t, f] => do some (.shrinkSelf (← t.toBool?) (← f.toBool?))
  | _ => none

def parseFills : Sx → Option (List (List Query))
  | .list ls => ls.mapM fun l => match l with
    | .list qs => qs.mapM fun q => match q with
      | .atom a => parseQuery [.atom a]
      | .list l => parseQuery l
    | _ => none
  | _ => none

def parseAttr : String → Option Attr
  | "values" => some .values | "mask" => some .mask | "derivs" => some .derivs | "units" => some .units
  | "readonly" => some .readonly | _ => none
def parseMode : String → Option Mode
  | "rebind" => some .rebind | "aug" => some .aug | "store" => some .store | "setTrue" => some .setTrue
  | "same" => some .same | _ => none
def parseKey : String → Option Key
  | "antimask" => some .antimask | "corners" => some .corners | "slicer" => some .slicer | "wod" => some .wod
  | "unshrunk" => some .unshrunk | "shrunk" => some .shrunk | _ => none

def parseEvent : Sx → Option Event
  | .atom "requireWritable" => some .requireWritable
  | .atom "raise" => some .raise_
  | .atom "ret" => some .ret
  | .atom "excAt" => some .excAt
  | .atom "cacheClear" => some .cacheClear
  | .atom "cacheFreeze" => some .cacheFreeze
  | .atom "mayFill" => some .mayFill
  | .atom "maskRepChanged" => some .maskRepChanged
  | .list [.atom "write", .atom a, .atom m] => do some (.write (← parseAttr a) (← parseMode m))
  | .list [.atom "cacheDel", .atom k] => do some (.cacheDel (← parseKey k))
  | .list [.atom "assumeVarr", b] => do some (.assumeVarr (← b.toBool?))
  | .list [.atom "call", .atom n] => some (.call n)
  | _ => none

inductive DStep
  | th (s : Step)                                          -- a step the theorems speak about
  | explicit (es : List Event) (post : Facts) (fills : List (List Query))

def parseStep : Sx → Option DStep
  | .list (.atom "q" :: rest) => (parseQuery rest).map fun q => .th (.query q)
  | .list [.atom "m", .atom name, idx, post, fills] => do
    some (.th (.mutate name (← idx.toNat?) (← parseFacts post) (← parseFills fills)))
  | .list [.atom "mp", .atom name, idx, k, post, fills] => do
    -- the prefix of a table path that an exception cut off at its k-th event (a `mayRaise` point)
    let es ← Table.path PMV.Gen.EventPaths.table name (← idx.toNat?)
    some (.th (.events (es.take (← k.toNat?)) (← parseFacts post) (← parseFills fills)))
  | .list [.atom "x", .list es, post, fills] => do
    some (.explicit (← es.mapM parseEvent) (← parseFacts post) (← parseFills fills))
  | _ => none

def keysSx (k : Cache) : Sx :=
  .list ((if k.anti.isSome then [Sx.atom "antimask"] else []) ++ (if k.corn.isSome then [Sx.atom "corners"] else []) ++
         (if k.slic.isSome then [Sx.atom "slicer"] else []) ++ (if k.wod.isSome then [Sx.atom "wod"] else []) ++
         (if k.unshrunk then [Sx.atom "unshrunk"] else []) ++ (if k.shrunk then [Sx.atom "shrunk"] else []))

def dstep (en : Bool) (d : DStep) (s : St) : St :=
  match d with
  | .th st => (step PMV.Gen.EventPaths.table en st s).2
  | .explicit es post fills => execPath en post es fills s

/-- does the named path exist in the regenerated table? -/
def known : DStep → Bool
  | .th (.mutate n i _ _) => (Table.path PMV.Gen.EventPaths.table n i).isSome
  | _ => true

def observe (sOn sOff : St) (exact : Bool) : Sx :=
  let shares : Sx := match sOn.cache.wod with
    | some e => if sOn.core.varr then Sx.ofBool e.vshared else .atom "-"
    | none => .atom "-"
  .list [keysSx sOn.cache, shares, if exact then Sx.ofBool (cacheOKb sOn) else .atom "-", keysSx sOff.cache]

def runAll : List DStep → St → St → Bool → List Sx
  | [], _, _, _ => []
  | d :: ds, sOn, sOff, exact =>
    if known d then
      let sOn' := dstep true d sOn
      let sOff' := dstep false d sOff
      let exact' := exact && (match d with | .th _ => true | .explicit .. => false)
      observe sOn' sOff' exact' :: runAll ds sOn' sOff' exact'
    else .atom "no-such-path" :: runAll ds sOn sOff exact

def handle : List Sx → Sx
  | .list [.atom "init", sl, v, m, d, r] :: steps =>
    match sl.toBool?, parseFacts (.list [v, m, d, r]), steps.mapM parseStep with
    | some sl, some f, some ds =>
      let s0 : St := ⟨⟨10, 0, 1, 2, f.varr, f.mrep, f.ro, f.hasDerivs, sl⟩, Cache.empty⟩
      .list (runAll ds s0 s0 true)
    | _, _, _ => err "c18-request"
  | _ => err "c18-request"

end Drv.C18

def main : IO Unit := Drv.runLoop fun x =>
  match x with
  | .list (.atom "c18" :: rest) => Drv.C18.handle rest
  | _ => .atom "bad-op"
