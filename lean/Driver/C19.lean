import Driver.Loop
import PMV.Model.Faults
/- line-protocol handler for the C19 view (rejected operations fail cleanly) -/
namespace Drv.C19
open PMV PMV.Faults

def err (msg : String) : Sx := .list [.atom "driver-error", .atom msg]

def parseCls : String → Option Cls
  | "Scalar" => some .scalar | "Boolean" => some .boolean | "Vector" => some .vector
  | "Vector3" => some .vector3 | "Pair" => some .pair | "Matrix" => some .matrix
  | "Matrix3" => some .matrix3 | "Quaternion" => some .quaternion | _ => none

def parseKind : String → Option Kind
  | "bool" => some .bool | "int" => some .int | "float" => some .float | _ => none

def parseUnits : Sx → Option (Option Nat)
  | .atom "-" => some none
  | x => x.toNat?.map some

def parseDeriv : Sx → Option Deriv
  | .list [.atom key, dn, ro] => do
    let dn ← dn.nats?
    let ro ← ro.toBool?
    some ⟨key, dn, ro, 0⟩
  | _ => none

/-- `(cls kind (shape) (numer) (denom) units ro ((key (denom) ro) …))` -/
def parseObj : Sx → Option Obj
  | .list [.atom cls, .atom kind, sh, nu, de, un, ro, .list ds] => do
    let cls ← parseCls cls
    let kind ← parseKind kind
    let sh ← sh.nats?
    let nu ← nu.nats?
    let de ← de.nats?
    let un ← parseUnits un
    let ro ← ro.toBool?
    let ds ← ds.mapM parseDeriv
    some ⟨cls, kind, sh, nu, de, un, ro, 0, ds⟩
  | _ => none

def parseArg : Sx → Option Arg
  | .list [.atom "num", .atom k, z] => do
    let k ← parseKind k
    let z ← z.toBool?
    some (.num k z)
  | .list [.atom "nd", .atom k, sh] => do
    let k ← parseKind k
    let sh ← sh.nats?
    some (.nd k sh)
  | .list [.atom "q", o] => (parseObj o).map .q
  | .list [.atom "bad"] => some .bad
  | _ => none

def parseIdx : Sx → Option Idx
  | .list [.atom "fails"] => some (.fails .other)
  | .list [.atom "nothing"] => some .nothing
  | .list [.atom "sel", sh] => sh.nats?.map .sel
  | _ => none

def parseUArg : Sx → Option UArg
  | .atom "none" => some .none
  | .atom "bad" => some .bad
  | x => x.toNat?.map .unit

def parseKeyArg : Sx → Option (String × Arg)
  | .list [.atom k, a] => (parseArg a).map fun a => (k, a)
  | _ => none

def parseKeys : Sx → Option (List String)
  | .list l => l.mapM fun | .atom s => some s | _ => none
  | _ => none

def parseCall : List Sx → Option (Obj × Call)
  | [.atom "setitem", t, ix, a] => do
    let t ← parseObj t; let ix ← parseIdx ix; let a ← parseArg a
    some (t, .setitem ix a)
  | [.atom "insert_deriv", t, .atom key, a, ov] => do
    let t ← parseObj t; let a ← parseArg a; let ov ← ov.toBool?
    some (t, .insertDeriv key a ov)
  | [.atom "insert_derivs", t, .list ds, ov] => do
    let t ← parseObj t; let ds ← ds.mapM parseKeyArg; let ov ← ov.toBool?
    some (t, .insertDerivs ds ov)
  | [.atom "delete_deriv", t, .atom key, ov] => do
    let t ← parseObj t; let ov ← ov.toBool?
    some (t, .deleteDeriv key ov)
  | [.atom "delete_derivs", t, ks, ov] => do
    let t ← parseObj t; let ks ← parseKeys ks; let ov ← ov.toBool?
    some (t, .deleteDerivs ks ov)
  | [.atom "set_units", t, u, ov] => do
    let t ← parseObj t; let u ← parseUArg u; let ov ← ov.toBool?
    some (t, .setUnits u ov)
  | [.atom op, t, a] => do
    let t ← parseObj t; let a ← parseArg a
    match op with
    | "iadd" => some (t, .iadd a) | "isub" => some (t, .isub a) | "imul" => some (t, .imul a)
    | "itruediv" => some (t, .itruediv a) | "ifloordiv" => some (t, .ifloordiv a) | "imod" => some (t, .imod a)
    | "iand" | "ior" | "ixor" => some (t, .ilogic a)
    | _ => none
  | _ => none

/-- TypeError and ValueError are reported as one token: which of two independent failed validations is reported
    first is not part of the property, so reordering them in the source must not break the correspondence -/
def excSx : Exc → String
  | .typeError => "TypeError|ValueError" | .valueError => "TypeError|ValueError" | .indexError => "IndexError"
  | .other => "Other"

def kindSx : Kind → String
  | .bool => "bool" | .int => "int" | .float => "float"

def sortStrings (l : List String) : List String := (l.toArray.qsort (· < ·)).toList

def handle (req : List Sx) : Sx :=
  match parseCall req with
  | none => err "c19-request"
  | some (s, c) =>
    match run s c with
    | (s', some e) => .list [.atom (excSx e), .atom (if s' == s then "clean" else "dirty")]
    | (s', none) => .list [.atom "ok", .atom (kindSx s'.kind), .list ((sortStrings (s'.derivs.map (·.key))).map .atom)]

end Drv.C19

def main : IO Unit := Drv.runLoop fun x =>
  match x with
  | .list (.atom "c19" :: rest) => Drv.C19.handle rest
  | _ => .atom "bad-op"
