import Driver.Util
import Driver.Loop
import PMV.Model.Shaper
import PMV.Model.ItemOps
/- line-protocol handlers for the C15 view (Mathlib-free) -/
namespace Drv.C15
open PMV PMV.NpShape PMV.Shaper PMV.ItemOps Drv

def clsOf : String → Option Cls
  | "Qube" => some .qube | "Scalar" => some .scalar | "Boolean" => some .boolean | "Vector" => some .vector
  | "Vector3" => some .vector3 | "Pair" => some .pair | "Matrix" => some .matrix | "Matrix3" => some .matrix3
  | "Quaternion" => some .quaternion | _ => none

def clsName : Cls → String
  | .qube => "Qube" | .scalar => "Scalar" | .boolean => "Boolean" | .vector => "Vector" | .vector3 => "Vector3"
  | .pair => "Pair" | .matrix => "Matrix" | .matrix3 => "Matrix3" | .quaternion => "Quaternion"

def parseMaskFor (shape : Shape) : Sx → Option Mask
  | .atom "T" => some (.all true)
  | .atom "F" => some (.all false)
  | x => (x.bools?).map fun l => .arr (Arr.ofFlat shape l.toArray)

def parseQ0 (cls : Cls) (shape numer : Shape) (denom vals mask : Sx) : Option (Q0 Int) := do
  let denom ← denom.nats?
  let vals ← vals.ints?
  let mask ← parseMaskFor shape mask
  some ⟨cls, shape, numer, denom, Arr.ofFlat (shape ++ numer ++ denom) vals.toArray, mask⟩

def parseQ : Sx → Option (Q Int)
  | .list [.atom c, sh, nu, de, vs, m, .list ds] => do
    let cls ← clsOf c
    let shape ← sh.nats?
    let numer ← nu.nats?
    let base ← parseQ0 cls shape numer de vs m
    let dcls := if cls = .boolean then Cls.scalar else cls
    let derivs ← ds.mapM fun d => match d with
      | .list [.atom k, dd, dv, dm] => (parseQ0 dcls shape numer dd dv dm).map fun q => (k, q)
      | _ => none
    some ⟨base, derivs⟩
  | _ => none

def cellSx (x : Option Int) : Sx := match x with
  | some v => Sx.ofInt v
  | none => .atom "x"

/-- values (hidden ones as `x`) and expanded mask bits of one object, row-major -/
def renderVals (q : Q0 Int) : Sx × Sx :=
  let idx := indices q.shape
  let items := indices q.item
  let vals := idx.flatMap fun i =>
    if q.mask.at i then items.map fun _ => Sx.atom "x"
    else items.map fun k => Sx.ofInt (q.vals.get (i ++ k))
  (.list vals, Sx.ofBools (idx.map q.mask.at))

def insertSorted (x : String × Sx) : List (String × Sx) → List (String × Sx)
  | [] => [x]
  | y :: ys => if x.1 < y.1 then x :: y :: ys else y :: insertSorted x ys

def renderQ (q : Q Int) : Sx :=
  let (v, m) := renderVals q.base
  let ds := q.derivs.map fun kd =>
    let (dv, dm) := renderVals kd.2
    (kd.1, Sx.list [.atom kd.1, Sx.ofNats kd.2.denom, dv, dm])
  let ds := (ds.foldr insertSorted []).map (·.2)
  .list [.atom (clsName q.base.cls), Sx.ofNats q.base.shape, Sx.ofNats q.base.numer, Sx.ofNats q.base.denom,
         v, m, .list ds]

def out (r : Except Err (Q Int)) : Sx := match r with
  | .ok q => renderQ q
  | .error e => .atom e.name

def outTuple (r : Except Err (List (Q Int))) : Sx := match r with
  | .ok qs => .list (.atom "tuple" :: qs.map renderQ)
  | .error e => .atom e.name

def rankOf : Sx → Option (Option Nat)
  | .atom "none" => some none
  | x => x.toNat?.map some

def classesOf (x : Sx) : Option (List Cls) := do
  let l ← x.toList?
  l.mapM fun c => match c with
    | .atom s => clsOf s
    | _ => none

def handle : List Sx → Sx
  | [.atom "reshape", o, rec, sh] =>
    match parseQ o, rec.toBool?, sh.ints? with
    | some q, some r, some s => out (reshape q s r)
    | _, _, _ => err "args"
  | [.atom "flatten", o, rec] =>
    match parseQ o, rec.toBool? with
    | some q, some r => out (flatten q r)
    | _, _ => err "args"
  | [.atom "swap_axes", o, rec, a1, a2] =>
    match parseQ o, rec.toBool?, a1.toInt?, a2.toInt? with
    | some q, some r, some a1, some a2 => out (swapAxes q a1 a2 r)
    | _, _, _, _ => err "args"
  | [.atom "roll_axis", o, rec, ax, st, rk] =>
    match parseQ o, rec.toBool?, ax.toInt?, st.toInt?, rankOf rk with
    | some q, some r, some ax, some st, some rk => out (rollAxis q ax st r rk)
    | _, _, _, _, _ => err "args"
  | [.atom "move_axis", o, rec, src, dst, rk] =>
    match parseQ o, rec.toBool?, src.ints?, dst.ints?, rankOf rk with
    | some q, some r, some s, some d, some rk => out (moveAxis q s d r rk)
    | _, _, _, _, _ => err "args"
  | [.atom "broadcast_to", o, rec, sh] =>
    match parseQ o, rec.toBool?, sh.ints? with
    | some q, some r, some s => out (broadcastTo q s r)
    | _, _, _ => err "args"
  | [.atom "stack", rec, .list os] =>
    match rec.toBool?, os.mapM parseQ with
    | some r, some qs => out (stack 0 qs r)
    | _, _ => err "args"
  | [.atom "from_scalars", rec, cls, .list os] =>
    match rec.toBool?, classesOf cls, os.mapM parseQ with
    | some r, some cl, some qs => out (fromScalars 0 qs cl r)
    | _, _, _ => err "args"
  | [.atom "extract_numer", o, rec, ax, ix, cls] =>
    match parseQ o, rec.toBool?, ax.toInt?, ix.toInt?, classesOf cls with
    | some q, some r, some ax, some ix, some cl => out (extractNumer q ax ix cl r)
    | _, _, _, _, _ => err "args"
  | [.atom "extract_denom", o, ax, ix, cls] =>
    match parseQ o, ax.toInt?, ix.toInt?, classesOf cls with
    | some q, some ax, some ix, some cl => out (extractDenom q ax ix cl)
    | _, _, _, _ => err "args"
  | [.atom "extract_denoms", o] =>
    match parseQ o with
    | some q => outTuple (extractDenoms q)
    | _ => err "args"
  | [.atom "slice_numer", o, rec, ax, i1, i2, cls] =>
    match parseQ o, rec.toBool?, ax.toInt?, i1.toInt?, i2.toInt?, classesOf cls with
    | some q, some r, some ax, some i1, some i2, some cl => out (sliceNumer q ax i1 i2 cl r)
    | _, _, _, _, _, _ => err "args"
  | [.atom "transpose_numer", o, rec, a1, a2] =>
    match parseQ o, rec.toBool?, a1.toInt?, a2.toInt? with
    | some q, some r, some a1, some a2 => out (transposeNumer q a1 a2 r)
    | _, _, _, _ => err "args"
  | [.atom "transpose_denom", o, a1, a2] =>
    match parseQ o, a1.toInt?, a2.toInt? with
    | some q, some a1, some a2 => out (transposeDenom q a1 a2)
    | _, _, _ => err "args"
  | [.atom "reshape_numer", o, rec, sh, cls] =>
    match parseQ o, rec.toBool?, sh.ints?, classesOf cls with
    | some q, some r, some s, some cl => out (reshapeNumer q s cl r)
    | _, _, _, _ => err "args"
  | [.atom "flatten_numer", o, rec, cls] =>
    match parseQ o, rec.toBool?, classesOf cls with
    | some q, some r, some cl => out (flattenNumer q cl r)
    | _, _, _ => err "args"
  | [.atom "reshape_denom", o, sh] =>
    match parseQ o, sh.ints? with
    | some q, some s => out (reshapeDenom q s)
    | _, _ => err "args"
  | [.atom "flatten_denom", o] =>
    match parseQ o with
    | some q => out (flattenDenom q)
    | _ => err "args"
  | [.atom "join_items", o, cls] =>
    match parseQ o, classesOf cls with
    | some q, some cl => out (joinItems q cl)
    | _, _ => err "args"
  | [.atom "swap_items", o, cls] =>
    match parseQ o, classesOf cls with
    | some q, some cl => out (swapItems q cl)
    | _, _ => err "args"
  | [.atom "split_items", o, nr, cls] =>
    match parseQ o, nr.toNat?, classesOf cls with
    | some q, some nr, some cl => out (splitItems q nr cl)
    | _, _, _ => err "args"
  | [.atom "to_scalar", o, rec, ix] =>
    match parseQ o, rec.toBool?, ix.toInt? with
    | some q, some r, some ix => out (toScalar q ix r)
    | _, _, _ => err "args"
  | [.atom "to_scalars", o, rec] =>
    match parseQ o, rec.toBool? with
    | some q, some r => outTuple (toScalars q r)
    | _, _ => err "args"
  | [.atom "as_row", o, rec] =>
    match parseQ o, rec.toBool? with
    | some q, some r => out (asRow q r)
    | _, _ => err "args"
  | [.atom "as_column", o, rec] =>
    match parseQ o, rec.toBool? with
    | some q, some r => out (asColumn q r)
    | _, _ => err "args"
  | [.atom "as_diagonal", o, rec] =>
    match parseQ o, rec.toBool? with
    | some q, some r => out (asDiagonal 0 q r)
    | _, _ => err "args"
  | [.atom "as_class", o, rec, .atom target] =>
    match parseQ o, rec.toBool? with
    | some q, some r =>
      match target with
      | "Scalar" => out (asScalar q r)
      | "Vector" => out (asVector q r)
      | "Vector3" => out (asVector3 q r)
      | "Pair" => out (asPair q r)
      | "Matrix" => out (asMatrix q r)
      | _ => err "target"
    | _, _ => err "args"
  | _ => err "c15-op"

end Drv.C15

def main : IO Unit := Drv.runLoop fun x =>
  match x with
  | .list (.atom "c15" :: rest) => Drv.C15.handle rest
  | _ => .atom "bad-op"
