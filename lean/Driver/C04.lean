import Driver.Util
import Driver.Loop
import PMV.Model.Dispatch
/- line-protocol handlers for the C04 view (operator dispatch, axis alignment, exact values) -/
namespace Drv.C04
open PMV PMV.Dispatch Drv

def parseCls : String → Option Cls
  | "Qube" => some .qube | "Scalar" => some .scalar | "Boolean" => some .boolean | "Vector" => some .vector
  | "Vector3" => some .vector3 | "Pair" => some .pair | "Matrix" => some .matrix | "Matrix3" => some .matrix3
  | "Quaternion" => some .quaternion | "-" => some .qube | _ => none

def clsName : Cls → String
  | .qube => "Qube" | .scalar => "Scalar" | .boolean => "Boolean" | .vector => "Vector" | .vector3 => "Vector3"
  | .pair => "Pair" | .matrix => "Matrix" | .matrix3 => "Matrix3" | .quaternion => "Quaternion"

def parseKind : String → Option Kind
  | "bool" => some .bool | "int" => some .int | "float" => some .float | _ => none

def kindName : Kind → String
  | .bool => "bool" | .int => "int" | .float => "float"

def parseSrc : String → Option Src
  | "qube" => some .qube | "num" => some .num | "nd" => some .nd | "ma" => some .ma | "list" => some .list | _ => none

def parseOp : String → Option OpSym
  | "add" => some .add | "sub" => some .sub | "mul" => some .mul | "div" => some .div | "floordiv" => some .floordiv
  | "mod" => some .mod | _ => none

structure Opd where
  d : Desc
  vals : Array Int
  /-- expanded mask bits (row-major over the leading shape of an object / the full shape of a MaskedArray) -/
  mask : Option MaskRep := none

def parseOpd : Sx → Option Opd
  | .list [.atom src, .atom cls, .atom kind, sh, nu, de, vs, msk, un] => do
    let src ← parseSrc src
    let cls ← parseCls cls
    let kind ← parseKind kind
    let shape ← sh.nats?
    let numer ← nu.nats?
    let denom ← de.nats?
    let vals ← vs.ints?
    let units ← match un with
      | .atom "-" => some none
      | x => (x.ints?).map some
    some ⟨Desc.constructed { src := src, cls := cls, kind := kind, shape := shape, numer := numer, denom := denom,
                             units := units }, vals.toArray, parseMask msk⟩
  | _ => none

def Opd.arr (o : Opd) : Arr Int := Arr.ofFlat o.d.full o.vals

/-- the property allows either exception class for a rejection: both print as `Rejected` -/
def rejSx : Rej → Sx
  | .valueError => .atom "Rejected"
  | .typeError => .atom "Rejected"

/-- rows of exact values, one per leading index; blanked rows print `m` -/
def rows (lead item : Shape) (blank : Array Bool) (get : Index → Int) : Sx :=
  let idx := indices lead
  let useBlank := blank.size == idx.length
  .list (idx.zipIdx.map fun (i, n) =>
    if useBlank && blank[n]! then .atom "m"
    else Sx.ofInts ((indices item).map fun j => get (i ++ j)))

def head (r : Res) : List Sx :=
  [.atom (clsName r.cls), .atom (kindName r.kind), Sx.ofNats r.lead, Sx.ofNats r.numer, Sx.ofNats r.denom]

def binary (op : OpSym) (a b : Opd) (blank : Array Bool) (inpl : Bool := false) : Sx :=
  let zeroNum := b.d.isNum && b.vals.all (· == 0)
  match (if inpl then inplace op a.d b.d zeroNum else dispatch op a.d b.d zeroNum) with
  | none => .atom "unmodelled"
  | some (.error e) => rejSx e
  | some (.ok r) =>
    if op == .div then .list (head r ++ [.atom "-"])
    else
      let item := r.numer ++ r.denom
      match r.plan with
      | .ew _ pa ra pb rb =>
        match ewValues op pa ra pb rb a.arr b.arr with
        | some v => .list (head r ++ [rows r.lead item blank v.get])
        | none => err "plan-does-not-broadcast"
      | .right =>
        -- the right operand, broadcast over the leading axes (item index passes through)
        let nl := r.lead.length
        .list (head r ++ [rows r.lead item blank fun i =>
          b.arr.get (bidx (b.d.full.take (b.d.full.length - item.length)) (i.take nl) ++ i.drop nl) * 8])
      | .dot =>
        match dotFull a.d b.d a.arr b.arr with
        | some v => .list (head r ++ [rows r.lead item blank v.get])
        | none => err "dot-does-not-broadcast"

def unaryH (op : UnOp) (a : Opd) (blank : Array Bool) : Sx :=
  match unary op a.d with
  | none => .atom "unmodelled"
  | some (.error e) => rejSx e
  | some (.ok r) =>
    let f : Int → Int := match op with
      | .neg => fun x => -x
      | .abs => fun x => if x < 0 then -x else x
      | .pos => id
    .list (head r ++ [rows r.lead (r.numer ++ r.denom) blank fun i => f (a.arr.get i)])

def parseMath : String → Option MathFn
  | "sin" => some .sin | "cos" => some .cos | "tan" => some .tan | "arcsin" => some .arcsin | "arccos" => some .arccos
  | "arctan" => some .arctan | "sqrt" => some .sqrt | "log" => some .log | "exp" => some .exp | "sign" => some .sign
  | _ => none

/-- class / kind / shapes only; the kind is not reported when no element is observable (`allBlank`) -/
def metaOnly (x : Option (M Res)) (allBlank : Bool) : Sx :=
  match x with
  | none => .atom "unmodelled"
  | some (.error e) => rejSx e
  | some (.ok r) =>
    .list ([.atom (clsName r.cls), .atom (if allBlank then "-" else kindName r.kind), Sx.ofNats r.lead,
            Sx.ofNats r.numer, Sx.ofNats r.denom] ++ [.atom "-"])

def parseBlank : Sx → Array Bool
  | x => match x.bools? with
    | some l => l.toArray
    | none => #[]

def handle : List Sx → Sx
  | [.atom "bshape", s0, s1] =>
    match s0.nats?, s1.nats? with
    | some a, some b =>
      match bcast a b with
      | some r => .list [.atom "shape", Sx.ofNats r]
      | none => .atom "Rejected"
    | _, _ => err "shape"
  | [.atom "neg", a, bl] => match parseOpd a with | some a => unaryH .neg a (parseBlank bl) | none => err "operand"
  | [.atom "abs", a, bl] => match parseOpd a with | some a => unaryH .abs a (parseBlank bl) | none => err "operand"
  | [.atom "pos", a, bl] => match parseOpd a with | some a => unaryH .pos a (parseBlank bl) | none => err "operand"
  | [.atom "pow", a, b, bl] =>
    match parseOpd a, parseOpd b with
    | some a, some b =>
      -- "only the exponents that are in use decide this": a negative exponent underneath the mask does not count
      let unmasked (i : Nat) : Bool := match b.mask with
        | some (.scalar m) => !m
        | some (.array bits) => !(bits[i]?.getD false)
        | none => true
      let negInt := b.d.kind == .int &&
        (List.range b.vals.size).any fun i => b.vals[i]! < 0 && unmasked i
      let blank := parseBlank bl
      metaOnly (powDispatch a.d b.d negInt) (blank.all id)
    | _, _ => err "operand"
  | [.atom "arctan2", a, b, bl] =>
    match parseOpd a, parseOpd b with
    | some a, some b => metaOnly (arctan2Dispatch a.d b.d) ((parseBlank bl).all id)
    | _, _ => err "operand"
  | [.atom "math", .atom f, a, bl] =>
    match parseMath f, parseOpd a with
    | some f, some a => metaOnly (mathFn f a.d) ((parseBlank bl).all id)
    | _, _ => err "operand"
  | [.atom "inplace", .atom op, a, b, bl] =>
    match parseOp op, parseOpd a, parseOpd b with
    | some op, some a, some b => binary op a b (parseBlank bl) true
    | _, _, _ => err "operand"
  | [.atom op, a, b, bl] =>
    match parseOp op, parseOpd a, parseOpd b with
    | some op, some a, some b => binary op a b (parseBlank bl)
    | _, _, _ => err "operand"
  | _ => err "c04-op"

end Drv.C04

def main : IO Unit := Drv.runLoop fun x =>
  match x with
  | .list (.atom "c04" :: rest) => Drv.C04.handle rest
  | _ => .atom "bad-op"
