import Driver.Util
import Driver.Loop
import PMV.Model.Pickle
/- line-protocol handler for the C11 view: runs the structural pickling model with identity
   codecs (bz2 = identity on bytes, fpzip = a length-prefixed serialisation) -/
namespace Drv.C11
open PMV PMV.Pickle Drv

def params : Params :=
  { cutoff := 200, bz2 := Codec.id Blob, fpzip := Codec.lenPrefixed,
    lossyEnc := fun _ _ _ => [], lossyDec := fun _ => [] }

/-! parsing -/

def parseDType : Sx → Option DType
  | .atom "f" => some .float
  | .atom "b" => some .bool
  | .list [.atom "i", w, s, be] => do some (.int (← w.toNat?) ⟨← s.toBool?, ← be.toBool?⟩)
  | _ => none

def parseDigit : Sx → Option Digits
  | .atom "D" => some .double | .atom "S" => some .single
  | .list [.atom "N", t] => t.toNat?.map Digits.num
  | _ => none

def parseDigits : Sx → Option (Option (Digits × Digits))
  | .atom "-" => some none
  | .list [a, b] => do some (some (← parseDigit a, ← parseDigit b))
  | _ => none

def parseVals : Sx → Option Vals
  | .list [.atom "S", x] => do some (.single (← x.toNat?))
  | .list [.atom "A", vs, .list items] => do
    some (.array (← vs.nats?) (← items.mapM Sx.nats?))
  | _ => none

def parseMaskC : Sx → Option Mask
  | .atom "T" => some (.scalar true)
  | .atom "F" => some (.scalar false)
  | x => x.bools?.map Mask.array

def parseObj : Sx → Option Obj
  | .list [.atom cls, sh, nu, de, dt, vals, mask, units, ro, vw, mw, dflt, dig, fz] => do
    some { cls := cls, shape := ← sh.nats?, numer := ← nu.nats?, denom := ← de.nats?,
           dtype := ← parseDType dt, vals := ← parseVals vals, mask := ← parseMaskC mask,
           units := ← units.toNat?, readonly := ← ro.toBool?, valsW := ← vw.toBool?,
           maskW := ← mw.toBool?, default := ← dflt.nats?, digits := ← parseDigits dig, cache := [],
           fpzipFails := ← fz.toBool? }
  | _ => none

def parseQ : Sx → Option QObj
  | .list [o, .list ds] => do
    let self ← parseObj o
    let derivs ← ds.mapM fun
      | .list [.atom k, d] => do some (k, ← parseObj d)
      | _ => none
    some ⟨self, derivs⟩
  | _ => none

/-! rendering -/

def kindSx : Kind → Sx
  | .float => .atom "f" | .int => .atom "i" | .bool => .atom "b"
def dtypeSx : DType → Sx
  | .float => .atom "f" | .bool => .atom "b"
  | .int w s => .list [.atom "i", Sx.ofNat w, Sx.ofBool s.signed, Sx.ofBool s.be]
def digitSx : Digits → Sx
  | .double => .atom "D" | .single => .atom "S" | .num t => .list [.atom "N", Sx.ofNat t]
def itemsSx (items : List Item) : Sx := .list (items.map Sx.ofNats)

def vstepSx : VStep → Sx
  | .allMasked => .list [.atom "AM"]
  | .antimasked => .list [.atom "ANTI"]
  | .float d => .list [.atom "FLOAT", digitSx d]
  | .int v (some (w, s)) => .list [.atom "INT", Sx.ofNats v, .list [Sx.ofNat w, Sx.ofBool s.signed, Sx.ofBool s.be]]
  | .int v none => .list [.atom "INT", Sx.ofNats v]
  | .bool v sz => .list [.atom "BOOL", Sx.ofNats v, Sx.ofNat sz]
def mstepSx : MStep → Sx
  | .corners lo hi => .list [.atom "CORNERS", Sx.ofNats lo, Sx.ofNats hi]
  | .bool v sz => .list [.atom "BOOL", Sx.ofNats v, Sx.ofNat sz]

def pvSx : PV → Sx
  | .single x => .list [.atom "S", Sx.ofNat x]
  | .none => .atom "N"
  | .floats (.literal v items) => .list [.atom "L", Sx.ofNats v, itemsSx items]
  | .floats (.f64 v bits blob) => .list [.atom "F64", Sx.ofNats v, Sx.ofNat bits, itemsSx (params.fpzip.dec blob)]
  | .floats (.other v _) => .list [.atom "O", Sx.ofNats v]
  | .blob b => .list [.atom "B", Sx.ofNats (params.bz2.dec b)]
  | .arr _ v items _ => .list [.atom "A", Sx.ofNats v, itemsSx items]
def pmSx : PM → Sx
  | .scalar b => Sx.ofBool b
  | .blob b => .list [.atom "B", Sx.ofNats (params.bz2.dec b)]
  | .arr bits => Sx.ofBools bits

def stSx (s : St) : Sx :=
  .list [.atom s.cls, Sx.ofNats s.shape, Sx.ofNats s.numer, Sx.ofNats s.denom, Sx.ofNat s.units,
         Sx.ofBool s.readonly, Sx.ofNats s.default, kindSx s.kind,
         .list [digitSx s.digits.1, digitSx s.digits.2], pvSx s.vals, pmSx s.mask,
         .list (s.valsEnc.map vstepSx), .list (s.maskEnc.map mstepSx)]

def qstSx (s : QSt) : Sx :=
  .list [stSx s.self, .list (s.derivs.map fun kd => .list [.atom kd.1, stSx kd.2])]

def objSx (o : Obj) : Sx :=
  let arrayVals := match o.vals with | .array _ _ => true | .single _ => false
  let arrayMask := match o.mask with | .array _ => true | .scalar _ => false
  .list [.atom o.cls, Sx.ofNats o.shape, Sx.ofNats o.numer, Sx.ofNats o.denom, dtypeSx o.dtype,
         (match o.vals with
          | .single x => .list [.atom "S", Sx.ofNat x]
          | .array v items => .list [.atom "A", Sx.ofNats v, itemsSx items]),
         (match o.mask with | .scalar b => Sx.ofBool b | .array bits => Sx.ofBools bits),
         Sx.ofNat o.units, Sx.ofBool o.readonly,
         (if arrayVals then Sx.ofBool o.valsW else .atom "-"),
         (if arrayMask then Sx.ofBool o.maskW else .atom "-"),
         Sx.ofNats o.default]

def qobjSx (q : QObj) : Sx :=
  .list [objSx q.self, .list (q.derivs.map fun kd => .list [.atom kd.1, objSx kd.2])]

def legacyQ (s : QSt) : QSt := ⟨s.self.legacy, s.derivs.map fun kd => (kd.1, kd.2.legacy)⟩

def handle : List Sx → Sx
  | [.atom mode, q] =>
    match parseQ q with
    | none => err "object"
    | some q =>
      let s := (getstate params q).1
      match mode with
      | "st" => .list [qstSx s]
      | "rt" =>
        match setstate params s with
        | some r => .list [qstSx s, qobjSx r]
        | none => .list [qstSx s, .atom "ValueError"]
      | "sd" => err "sd-needs-pair"
      | "legacy" =>
        match setstate params (legacyQ s) with
        | some r => .list [qstSx (legacyQ s), qobjSx r]
        | none => .list [qstSx (legacyQ s), .atom "ValueError"]
      | _ => err "mode"
  | [.atom "sd", d0, d1, n0, n1, q] =>
    -- set_pickle_digits(raw digits pair; which references are numbers): the attributes afterwards
    match parseDigit d0, parseDigit d1, n0.toBool?, n1.toBool?, parseQ q with
    | some d0, some d1, some n0, some n1, some q =>
      let r := setDigits (validateDigits (d0, d1) (n0, n1)) q
      let dsx := fun (o : Obj) => match o.digits with
        | some p => Sx.list [digitSx p.1, digitSx p.2]
        | none => Sx.atom "-"
      .list [dsx r.self, .list (r.derivs.map fun kd => .list [.atom kd.1, dsx kd.2])]
    | _, _, _, _, _ => err "sd"
  | [.atom "cols", isz, .list rows] =>
    match isz.toNat?, rows.mapM Sx.nats? with
    | some isz, some rows =>
      let cols := itemColumns isz rows
      .list [itemsSx cols, itemsSx (itemRows rows.length cols)]
    | _, _ => err "cols"
  | _ => err "c11-op"

end Drv.C11

def main : IO Unit := Drv.runLoop fun x =>
  match x with
  | .list (.atom "c11" :: rest) => Drv.C11.handle rest
  | _ => .atom "bad-op"
