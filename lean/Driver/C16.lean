import Driver.Util
import Driver.Loop
import PMV.Model.Algebra
/- line-protocol handlers for the C16 view (exact `Rat` instance of Model/Algebra.lean).

   operand   := (shape numer denom (v …) mask)       v = "n" | "n/d", flat row-major over
                                                       shape+numer+denom; mask = T | F | (bits)
   answer    := (shape numer denom (v …) (bits))     masked elements print "_" for every component
   mode      := x (values printed exactly) | q (values printed as floor(v*2^16 + 1/2)) | m (values printed as ".")
-/
namespace Drv.C16
open PMV PMV.Algebra Drv

def parseRat (s : String) : Option Rat :=
  match s.splitOn "/" with
  | [n] => n.toInt?.map fun (i : Int) => (i : Rat)
  | [n, d] => do
    let n ← n.toInt?
    let d ← d.toNat?
    if d = 0 then none else some (mkRat n d)
  | _ => none

def Sx.rats? (x : Sx) : Option (List Rat) := do
  let l ← x.toList?
  l.mapM fun a => match a with
    | .atom s => parseRat s
    | _ => none

def ratSx (mode : String) (r : Rat) : Sx :=
  if mode == "q" then .atom (toString (r * 65536 + (1 : Rat) / 2).floor)
  else if mode == "m" then .atom "."       -- shapes and mask only (values judged by the oracle)
  else if r.den = 1 then .atom (toString r.num) else .atom s!"{r.num}/{r.den}"

def parseOpd : Sx → Option (Opd Rat)
  | .list [sh, nu, de, vs, m] => do
    let shape ← sh.nats?
    let numer ← nu.nats?
    let denom ← de.nats?
    let vals ← Sx.rats? vs
    let mask ← parseMask m
    let data := vals.toArray
    let full := shape ++ numer ++ denom
    if data.size ≠ size full then none else
    some ⟨shape, numer, denom, fun i j => data[ravel full (i ++ j)]!, fun i => mask.at shape i⟩
  | _ => none

def outOpd (mode : String) (r : Opd Rat) : Sx :=
  let items := indices (r.numer ++ r.denom)
  let vals := (indices r.shape).flatMap fun i =>
    if r.mask i then items.map fun _ => Sx.atom "_" else items.map fun j => ratSx mode (r.val i j)
  .list [Sx.ofNats r.shape, Sx.ofNats r.numer, Sx.ofNats r.denom, .list vals,
         Sx.ofBools ((indices r.shape).map r.mask)]

def outExc (mode : String) : Except Err (Opd Rat) → Sx
  | .ok r => outOpd mode r
  | .error _ => .atom "ValueError"

/-- a vector element of an object with numer [n] -/
def vecE (a : Opd Rat) (i : Index) : VecE Rat := ⟨a.numer.headD 0, fun t => a.val i [t], a.mask i⟩

def q4 (a : Opd Rat) (i : Index) : Q4 Rat := ⟨a.val i [0], a.val i [1], a.val i [2], a.val i [3]⟩

def ofQ4 (shape : Shape) (f : Index → Q4 Rat) (m : Index → Bool) : Opd Rat :=
  ⟨shape, [4], [], fun i j => (f i).get (j.headD 0), m⟩

def ofMat (shape : Shape) (r c : Nat) (f : Index → Mat Rat) (m : Index → Bool) : Opd Rat :=
  ⟨shape, [r, c], [], fun i j => f i (j.headD 0) (j.getD 1 0), m⟩

def matOf (a : Opd Rat) (i : Index) : Mat Rat := fun r c => a.val i [r, c]

def ofVec (shape : Shape) (n : Nat) (f : Index → VecE Rat) : Opd Rat :=
  ⟨shape, [n], [], fun i j => (f i).get (j.headD 0), fun i => (f i).m⟩

/-- exact determinant (Laplace expansion along the first row) and adjugate inverse: the stand-in for
    LAPACK in the driver; it satisfies the contract `det m ≠ 0 → m * inv m = 1` exactly -/
def minor (m : Mat Rat) (r c : Nat) : Mat Rat :=
  fun r' c' => m (if r' < r then r' else r' + 1) (if c' < c then c' else c' + 1)

def detN : Nat → Mat Rat → Rat
  | 0, _ => 1
  | n + 1, m => sumRange (n + 1) fun c =>
      (if c % 2 = 0 then (1 : Rat) else -1) * m 0 c * detN n (minor m 0 c)

def invN (n : Nat) (m : Mat Rat) : Mat Rat :=
  let d := detN n m
  fun r c => (if (r + c) % 2 = 0 then (1 : Rat) else -1) * detN (n - 1) (minor m c r) / d

def lapack : Lapack Rat := ⟨detN, invN⟩

/-- `np.where(q0 < 0, -1, 1)` -/
def sgn (r : Rat) : Rat := if r < 0 then -1 else 1

/-- three angle operands (numer [2] = (sin, cos)) broadcast together -/
def bcast3 (a b c : Shape) : Option Shape := do
  let ab ← bcast a b
  bcast ab c

def scOf (a : Opd Rat) (out_i : Index) : SC Rat :=
  let i := bidx a.shape out_i
  ⟨a.val i [0], a.val i [1]⟩

def zeroMat : Mat Rat := fun _ _ => 0

/-- square root of a rational to about 1e-30 (integer square root of the 2^200-scaled value): the driver's
    stand-in for `np.sqrt` inside `to_euler` (the comparison is quantised to 2^-16) -/
def ratSqrt (x : Rat) : Rat :=
  if x ≤ 0 then 0 else
  let scale : Nat := 2 ^ 200
  let n := (x.num.toNat * scale) / x.den
  mkRat (Nat.sqrt n) (2 ^ 100)

/-- `v <= Matrix3.EPSILON` (1e-15) -/
def smallEps (v : Rat) : Bool := decide (v ≤ mkRat 1 1000000000000000)

def handle : List Sx → Sx
  | [.atom mode, .atom "dot", a, b, ax1, ax2] =>
    match parseOpd a, parseOpd b, ax1.toInt?, ax2.toInt? with
    | some a, some b, some ax1, some ax2 => outExc mode (lift2 (fun x y => dotItem x y ax1 ax2) a b)
    | _, _, _, _ => err "operand"
  | [.atom mode, .atom "cross", a, b, ax1, ax2] =>
    match parseOpd a, parseOpd b, ax1.toInt?, ax2.toInt? with
    | some a, some b, some ax1, some ax2 => outExc mode (lift2 (fun x y => crossItem x y ax1 ax2) a b)
    | _, _, _, _ => err "operand"
  | [.atom mode, .atom "outer", a, b] =>
    match parseOpd a, parseOpd b with
    | some a, some b => outExc mode (lift2 outerItem a b)
    | _, _ => err "operand"
  | [.atom mode, .atom "emul", a, b] =>
    match parseOpd a, parseOpd b with
    | some a, some b => outExc mode (lift2 elementMulItem a b)
    | _, _ => err "operand"
  | [.atom mode, .atom "transpose", a, ax1, ax2] =>
    match parseOpd a, ax1.toInt?, ax2.toInt? with
    | some a, some ax1, some ax2 => outExc mode (lift1 (fun x => transposeItem x ax1 ax2) a)
    | _, _, _ => err "operand"
  | [.atom mode, .atom "normsq", a, ax] =>
    match parseOpd a, ax.toInt? with
    | some a, some ax => outExc mode (lift1 (fun x => normSqItem x ax) a)
    | _, _ => err "operand"
  | [.atom mode, .atom "ediv", a, b] =>
    match parseOpd a, parseOpd b with
    | some a, some b =>
      match bcast a.shape b.shape with
      | some out =>
        if a.numer ≠ b.numer then .atom "ValueError" else
        outOpd mode (ofVec out (a.numer.headD 0) fun i =>
          elementDiv (vecE a (bidx a.shape i)) (vecE b (bidx b.shape i)))
      | none => .atom "ValueError"
    | _, _ => err "operand"
  | [.atom mode, .atom "qmul", a, b] =>
    match parseOpd a, parseOpd b with
    | some a, some b =>
      match bcast a.shape b.shape with
      | some out =>
        outOpd mode (ofQ4 out (fun i => qMul (q4 a (bidx a.shape i)) (q4 b (bidx b.shape i)))
          fun i => a.mask (bidx a.shape i) || b.mask (bidx b.shape i))
      | none => .atom "ValueError"
    | _, _ => err "operand"
  | [.atom mode, .atom "qconj", a] =>
    match parseOpd a with
    | some a => outOpd mode (ofQ4 a.shape (fun i => qConj (q4 a i)) a.mask)
    | none => err "operand"
  | [.atom mode, .atom "qrecip", a] =>
    match parseOpd a with
    | some a => outOpd mode (ofQ4 a.shape (fun i => (qRecip (q4 a i) (a.mask i)).1)
                  fun i => (qRecip (q4 a i) (a.mask i)).2)
    | none => err "operand"
  | [.atom mode, .atom "qtomat", a, sqrt2, pnorms] =>
    -- pnorms: one value per leading element (row-major)
    match parseOpd a, Sx.rats? (.list [sqrt2]), Sx.rats? pnorms with
    | some a, some [sqrt2], some pn =>
      let pn := pn.toArray
      outOpd mode (ofMat a.shape 3 3
        (fun i => (qToMatrix3 sqrt2 pn[ravel a.shape i]! (q4 a i) (a.mask i) zeroMat).1)
        fun i => (qToMatrix3 sqrt2 pn[ravel a.shape i]! (q4 a i) (a.mask i) zeroMat).2)
    | _, _, _ => err "operand"
  | [.atom mode, .atom "pole", ra, dec] =>
    match parseOpd ra, parseOpd dec with
    | some ra, some dec =>
      match bcast ra.shape dec.shape with
      | some out =>
        outOpd mode (ofMat out 3 3 (fun i => poleRot (scOf ra i) (scOf dec i))
          fun i => ra.mask (bidx ra.shape i) || dec.mask (bidx dec.shape i))
      | none => .atom "ValueError"
    | _, _ => err "operand"
  | [.atom mode, .atom "qrot", half, v, norms] =>
    -- half: (sin, cos) of half the angle; norms: vector.norm() per element of v
    match parseOpd half, parseOpd v, Sx.rats? norms with
    | some half, some v, some ns =>
      let ns := ns.toArray
      match bcast half.shape v.shape with
      | some out =>
        let f := fun (i : Index) =>
          let iv := bidx v.shape i
          fromRotation (scOf half i) (half.mask (bidx half.shape i)) (vecE v iv) ns[ravel v.shape iv]!
        outOpd mode (ofQ4 out (fun i => (f i).1) fun i => (f i).2)
      | none => .atom "ValueError"
    | _, _, _ => err "operand"
  | [.atom mode, .atom "twovec", v1, ax1, v2, ax2] =>
    match parseOpd v1, ax1.toNat?, parseOpd v2, ax2.toNat? with
    | some v1, some ax1, some v2, some ax2 =>
      match bcast v1.shape v2.shape with
      | some out =>
        let f := fun (i : Index) => twovec ratSqrt (vecE v1 (bidx v1.shape i)) (vecE v2 (bidx v2.shape i)) ax1 ax2 zeroMat
        outOpd mode (ofMat out 3 3 (fun i => (f i).1) fun i => (f i).2)
      | none => .atom "ValueError"
    | _, _, _, _ => err "operand"
  | [.atom mode, .atom "toeuler", .atom axes, a] =>
    -- answer: numer [3, 2] = (sin, cos) of the three returned angles
    match lookupAxes axes, parseOpd a with
    | some cv, some a =>
      let f := fun (i : Index) => toEuler ratSqrt smallEps cv (matOf a i)
      outOpd mode ⟨a.shape, [3, 2], [], fun i j =>
        let (x, y, z) := f i
        let sc := match j.headD 0 with | 0 => x | 1 => y | _ => z
        if j.getD 1 0 = 0 then sc.s else sc.c, a.mask⟩
    | none, _ => .atom "Other:KeyError"
    | _, _ => err "operand"
  | [.atom mode, .atom "m2q", a, rs] =>
    -- rs: what np.sqrt returned for r_sq, one value per leading element
    match parseOpd a, Sx.rats? rs with
    | some a, some rs =>
      let rs := rs.toArray
      outOpd mode (ofQ4 a.shape (fun i => fromMatrix3 (fun x y => decide (x ≤ y)) rs[ravel a.shape i]! (matOf a i) ⟨0, 0, 0, 0⟩) a.mask)
    | _, _ => err "operand"
  | [.atom mode, .atom "fromparts", s, v] =>
    match parseOpd s, parseOpd v with
    | some s, some v =>
      match bcast s.shape v.shape with
      | some out =>
        outOpd mode (ofQ4 out (fun i => fromParts (s.val (bidx s.shape i) []) fun t => v.val (bidx v.shape i) [t])
          fun i => s.mask (bidx s.shape i) || v.mask (bidx v.shape i))
      | none => .atom "ValueError"
    | _, _ => err "operand"
  | [.atom mode, .atom "toparts", a] =>
    match parseOpd a with
    | some a =>
      let sc : Opd Rat := ⟨a.shape, [], [], fun i _ => (toParts (q4 a i)).1, a.mask⟩
      let ve : Opd Rat := ⟨a.shape, [3], [], fun i j => (toParts (q4 a i)).2 (j.headD 0), a.mask⟩
      .list [outOpd mode sc, outOpd mode ve]
    | none => err "operand"
  | [.atom mode, .atom "unit", v, norms] =>
    match parseOpd v, Sx.rats? norms with
    | some v, some ns =>
      let ns := ns.toArray
      outOpd mode (ofVec v.shape (v.numer.headD 0) fun i => unit (vecE v i) ns[ravel v.shape i]!)
    | _, _ => err "operand"
  | [.atom mode, .atom which, v, a, norms] =>
    -- perp / proj: norms = norm of `a` per element of a (row-major over a.shape)
    match parseOpd v, parseOpd a, Sx.rats? norms with
    | some v, some a, some ns =>
      let ns := ns.toArray
      match bcast v.shape a.shape with
      | some out =>
        if v.numer ≠ a.numer then .atom "ValueError" else
        let f := fun (i : Index) =>
          let ia := bidx a.shape i
          let nrm := ns[ravel a.shape ia]!
          if which == "perp" then perp (vecE v (bidx v.shape i)) (vecE a ia) nrm
          else proj (vecE v (bidx v.shape i)) (vecE a ia) nrm
        if which == "perp" || which == "proj" then outOpd mode (ofVec out (v.numer.headD 0) f)
        else err "c16-op"
      | none => .atom "ValueError"
    | _, _, _ => err "operand"
  | [.atom mode, .atom "rot", axis, ang] =>
    -- ang: numer [2] = (sin, cos) of the angle; axis 0|1|2 as passed to axis_rotation (or -1 … any int ≥ 0)
    match axis.toNat?, parseOpd ang with
    | some axis, some ang =>
      outOpd mode (ofMat ang.shape 3 3 (fun i => axisRot axis (ang.val i [0]) (ang.val i [1])) ang.mask)
    | _, _ => err "operand"
  | [.atom mode, .atom "euler", .atom axes, ai, aj, ak] =>
    match lookupAxes axes, parseOpd ai, parseOpd aj, parseOpd ak with
    | some cv, some ai, some aj, some ak =>
      match bcast3 ai.shape aj.shape ak.shape with
      | some out =>
        outOpd mode (ofMat out 3 3 (fun i => fromEuler cv (scOf ai i) (scOf aj i) (scOf ak i) zeroMat)
          fun i => ai.mask (bidx ai.shape i) || aj.mask (bidx aj.shape i) || ak.mask (bidx ak.shape i))
      | none => .atom "ValueError"
    | none, _, _, _ => .atom "Other:KeyError"
    | _, _, _, _ => err "operand"
  | [.atom mode, .atom "qeuler", .atom axes, ai, aj, ak] =>
    match lookupAxes axes, parseOpd ai, parseOpd aj, parseOpd ak with
    | some cv, some ai, some aj, some ak =>
      match bcast3 ai.shape aj.shape ak.shape with
      | some out =>
        outOpd mode (ofQ4 out (fun i => qFromEuler sgn cv (scOf ai i) (scOf aj i) (scOf ak i) ⟨0, 0, 0, 0⟩)
          fun i => ai.mask (bidx ai.shape i) || aj.mask (bidx aj.shape i) || ak.mask (bidx ak.shape i))
      | none => .atom "ValueError"
    | none, _, _, _ => .atom "Other:KeyError"
    | _, _, _, _ => err "operand"
  | [.atom mode, .atom "inverse", a, nz] =>
    match parseOpd a, nz.toBool? with
    | some a, some nz =>
      match a.numer with
      | [n, n'] =>
        if n ≠ n' ∨ a.denom ≠ [] then .atom "ValueError" else
        let f := fun (i : Index) =>
          if nz then inverseElemNozeros lapack n (matOf a i) (a.mask i)
          else inverseElem lapack n (matOf a i) (a.mask i)
        outOpd mode (ofMat a.shape n n (fun i => (f i).1) fun i => (f i).2)
      | _ => err "operand"
    | _, _ => err "operand"
  | _ => err "c16-op"

end Drv.C16

def main : IO Unit := Drv.runLoop fun x =>
  match x with
  | .list (.atom "c16" :: rest) => Drv.C16.handle rest
  | _ => .atom "bad-op"
