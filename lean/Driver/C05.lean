import Driver.Util
import Driver.Loop
import PMV.Model.WF
/- line-protocol handlers for the C05 view: `wf` evaluates the Lean predicate on dumps of real objects,
   `ctor` and `prog` run the code-shaped model -/
namespace Drv.C05
open PMV PMV.Gen PMV.WF Drv

def parseKind : Sx → Option Kind
  | .atom "float" => some .float | .atom "int" => some .int | .atom "bool" => some .bool
  | .atom "other" => some .other | _ => none

def kindSx : Kind → Sx
  | .float => .atom "float" | .int => .atom "int" | .bool => .atom "bool" | .other => .atom "other"

def parseMaskD : Sx → Option MaskD
  | .list [.atom "S", b] => b.toBool?.map .scalar
  | .list [.atom "N", b] => b.toBool?.map .npbool
  | .list [.atom "A", s, k, w] => do
    let s ← s.nats?; let k ← k.toBool?; let w ← w.toBool?
    some (.array s k w)
  | .list [.atom "X"] => some .other
  | _ => none

def maskSx : MaskD → Sx
  | .scalar b => .list [.atom "S", Sx.ofBool b]
  | .npbool b => .list [.atom "N", Sx.ofBool b]
  | .array s k w => .list [.atom "A", Sx.ofNats s, Sx.ofBool k, Sx.ofBool w]
  | .other => .list [.atom "X"]

partial def parseDump : Sx → Option ObjDump
  | .list [.atom cls, kind, varr, vshape, vwrit, mask, shape, numer, denom, item, rank, nrank, drank, sz, isz, nsz, dsz,
           dshape, dkind, units, ro, complete, .list derivs, .list attrs] => do
    let cls ← Cls.ofName? cls
    let kind ← parseKind kind
    let varr ← varr.toBool?
    let vshape ← vshape.nats?
    let vwrit ← vwrit.toBool?
    let mask ← parseMaskD mask
    let shape ← shape.nats?
    let numer ← numer.nats?
    let denom ← denom.nats?
    let item ← item.nats?
    let rank ← rank.toNat?
    let nrank ← nrank.toNat?
    let drank ← drank.toNat?
    let sz ← sz.toNat?
    let isz ← isz.toNat?
    let nsz ← nsz.toNat?
    let dsz ← dsz.toNat?
    let dshape ← dshape.nats?
    let dkind ← parseKind dkind
    let units ← units.toBool?
    let ro ← ro.toBool?
    let complete ← complete.toBool?
    let derivs ← derivs.mapM fun x => match x with
      | .list [.atom k, d] => (parseDump d).map fun d => (k, d)
      | _ => none
    let attrs ← attrs.mapM fun x => match x with
      | .list [.atom k, same] => same.toBool?.map fun s => (k, s)
      | _ => none
    some ⟨⟨cls, kind, varr, vshape, vwrit, mask, shape, numer, denom, item, rank, nrank, drank, sz, isz, nsz, dsz,
           dshape, dkind, units, ro, complete⟩, derivs, attrs⟩
  | _ => none

def sortKeys {β} (l : List (String × β)) : List (String × β) :=
  l.mergeSort fun a b => !decide (b.1 < a.1)

partial def dumpSx (o : ObjDump) : Sx :=
  let b := o.body
  .list [.atom b.cls.name, kindSx b.kind, Sx.ofBool b.varr, Sx.ofNats b.vshape, Sx.ofBool b.vwritable, maskSx b.mask,
         Sx.ofNats b.shape, Sx.ofNats b.numer, Sx.ofNats b.denom, Sx.ofNats b.item,
         Sx.ofNat b.rank, Sx.ofNat b.nrank, Sx.ofNat b.drank, Sx.ofNat b.size, Sx.ofNat b.isize, Sx.ofNat b.nsize,
         Sx.ofNat b.dsize, Sx.ofNats b.dshape, kindSx b.dkind, Sx.ofBool b.units, Sx.ofBool b.readonly,
         Sx.ofBool b.complete,
         .list ((sortKeys o.derivs).map fun d => .list [.atom d.1, dumpSx d.2]),
         .list ((sortKeys o.attrs).map fun a => .list [.atom a.1, Sx.ofBool a.2])]

def parseRawArr : Sx → Option RawArr
  | .list [.atom "val", isArr, shape, kind, w] => do
    let isArr ← isArr.toBool?; let shape ← shape.nats?; let kind ← parseKind kind; let w ← w.toBool?
    some ⟨isArr, shape, kind, w⟩
  | _ => none

def parseArgRef : Sx → Option ArgRef
  | .atom "bad" => some .bad
  | .list [.atom "obj", i] => i.toNat?.map .obj
  | x => (parseRawArr x).map .val

def parseRawMask : Sx → Option RawMask
  | .atom "bad" => some .bad
  | .list [.atom "bool", b] => b.toBool?.map .bool
  | .list [.atom "arr", s, k, w] => do
    let s ← s.nats?; let k ← k.toBool?; let w ← w.toBool?
    some (.arr s k w)
  | _ => none

def parseOpt {α} (f : Sx → Option α) : Sx → Option (Option α)
  | .atom "none" => some none
  | x => (f x).map some

def parseUnits : Sx → Option RawUnits
  | .atom "none" => some .none | .atom "false" => some .false_ | .atom "some" => some .some | _ => none

def parseKeys : Sx → Option (List String)
  | .list l => l.mapM fun x => match x with | .atom k => some k | _ => none
  | _ => none

def parseCollapse : Sx → Option Collapse
  | .atom "keep" => some .keep | .atom "T" => some (.to true) | .atom "F" => some (.to false) | _ => none

def parseOp : Sx → Option Op
  | .list [.atom "ctor", .atom cls, arg, mask, derivs, units, nrank, drank, ex, dflt] => do
    let cls ← Cls.ofName? cls
    let arg ← parseArgRef arg
    let mask ← parseRawMask mask
    let derivs ← parseOpt (fun x => match x with
      | .list l => l.mapM fun kd => (match kd with
        | .list [.atom k, i] => i.toNat?.map fun i => (k, i)
        | _ => none)
      | _ => none) derivs
    let units ← parseUnits units
    let nrank ← parseOpt Sx.toInt? nrank
    let drank ← parseOpt Sx.toInt? drank
    let ex ← parseOpt Sx.toNat? ex
    let dflt ← parseOpt (fun x => match x with
      | .list [s, k] => do
        let s ← s.nats?; let k ← parseKind k
        some (s, k)
      | _ => none) dflt
    some (.ctor cls arg mask derivs units nrank drank ex dflt)
  | .list [.atom "insert_deriv", p, .atom key, d, ov] => do
    let p ← p.toNat?; let d ← d.toNat?; let ov ← ov.toBool?
    some (.insertDeriv p key d ov)
  | .list [.atom "delete_deriv", p, .atom key, ov] => do
    let p ← p.toNat?; let ov ← ov.toBool?
    some (.deleteDeriv p key ov)
  | .list [.atom "delete_derivs", p, ov] => do
    let p ← p.toNat?; let ov ← ov.toBool?
    some (.deleteDerivs p ov)
  | .list [.atom "as_readonly", p] => p.toNat?.map .asReadonly
  | .list [.atom "set_values", p, v, m] => do
    let p ← p.toNat?; let v ← parseRawArr v; let m ← parseOpt parseMaskD m
    some (.setValues p v m)
  | .list [.atom "set_mask", p, m] => do
    let p ← p.toNat?; let m ← parseRawMask m
    some (.setMask p m)
  | .list [.atom "clone", p, r, keys] => do
    let p ← p.toNat?; let r ← r.toBool?; let keys ← parseKeys keys
    some (.clone p r keys)
  | .list [.atom "wod", p] => p.toNat?.map .wod
  | .list [.atom "without_deriv", p, .atom key] => p.toNat?.map fun p => .withoutDeriv p key
  | .list [.atom "copy", p, r, ro] => do
    let p ← p.toNat?; let r ← r.toBool?; let ro ← ro.toBool?
    some (.copy p r ro)
  | .list [.atom "as_float", p] => p.toNat?.map .asFloat
  | .list [.atom "broadcast_to", p, s] => do
    let p ← p.toNat?; let s ← s.nats?
    some (.broadcastTo p s)
  | .list [.atom "pickle", p, c, .list dc] => do
    let p ← p.toNat?
    let c ← parseCollapse c
    let dc ← dc.mapM fun x => match x with
      | .list [.atom k, c] => (parseCollapse c).map fun c => (k, c)
      | _ => none
    some (.pickle p c dc)
  | .list [.atom "deriv", p, .atom key] => p.toNat?.map fun p => .deriv p key
  | _ => none

def handle : List Sx → Sx
  | [.atom "wf", .list dumps] =>
    match dumps.mapM parseDump with
    | some ds => .list (ds.map fun d => Sx.ofBools (wfClauses d))
    | none => err "dump"
  | [.atom "prog", .list starts, .list ops] =>
    match starts.mapM parseDump, ops.mapM parseOp with
    | some pool, some ops => .list ((run pool ops).map dumpSx)
    | none, _ => err "dump"
    | _, none => err "op"
  | [.atom "step", .list pool, op] =>
    -- one call of the model on the dumps of the real pool: the object produced / replaced, or `error`
    match pool.mapM parseDump, parseOp op with
    | some pool, some op =>
      (match effect pool op with
       | .none => .atom "error"
       | .set _ o => dumpSx o
       | .push o => dumpSx o)
    | none, _ => err "dump"
    | _, none => err "op"
  | _ => err "c05-op"

end Drv.C05

def main : IO Unit := Drv.runLoop fun x =>
  match x with
  | .list (.atom "c05" :: rest) => Drv.C05.handle rest
  | _ => .atom "bad-op"
