import Driver.Util
import Driver.Loop
import PMV.Model.Dual
/- line-protocol handler for the C06 view: runs the `Float` instance of the derivative model.

   request   (c06 run (env b…) (um T|F …) (dirs (label (b|n …)) …) (progs p …))
             env   : operand components as IEEE-754 bit patterns (decimal UInt64)
             um    : unmasked flag per component
             dirs  : one derivative direction (key, denominator index) each: per component the
                     derivative's bit pattern, or `n` when the operand lacks the key
             progs : one item-level program per result element
   response  ((val e …) (label e …) …)   e = m (masked) | n (no derivative for the key) | (b …)
-/
namespace Drv.C06
open PMV PMV.Dual

abbrev F := Float

def fbits (s : Sx) : Option F := s.toNat?.map fun n => Float.ofBits n.toUInt64

def parseE1 : String → Option (E F)
  | "neg" => some (.neg (.var 0)) | "abs" => some (.abs (.var 0)) | "recip" => some (.recip (.var 0))
  | "pow0" => some (.pow0 (.var 0)) | "pow2" => some (.pow2 (.var 0)) | "pow3" => some (.pow3 (.var 0))
  | "pow4" => some (.pow4 (.var 0)) | "sin" => some (.sin (.var 0)) | "cos" => some (.cos (.var 0))
  | "tan" => some (.tan (.var 0)) | "asin" => some (.asin (.var 0)) | "acos" => some (.acos (.var 0))
  | "atan" => some (.atan (.var 0)) | "exp" => some (.exp (.var 0)) | "log" => some (.log (.var 0))
  | "sqrt" => some (.sqrt (.var 0))
  -- `x ** -0.5`: scalar.py:1522 `self.sqrt().reciprocal()`
  | "pownh" => some (.recip (.sqrt (.var 0)))
  | "sgn" => some (.sgn (.var 0)) | "isneg" => some (.isneg (.var 0))
  | _ => none

structure Ctx where
  env : Array F
  um : Array Bool
  denv : Array (Option F)

def Ctx.e (c : Ctx) (i : Nat) : F := c.env[i]!
def Ctx.u (c : Ctx) (i : Nat) : Bool := c.um[i]!
def Ctx.d (c : Ctx) (i : Nat) : Option F := c.denv[i]!

partial def evalP (c : Ctx) : Sx → Option (Val F)
  | .list (.atom "opd" :: idx) => do
    let idx ← idx.mapM Sx.toNat?
    some (Val.opd idx c.e c.d c.u)
  | .list (.atom "lit" :: bs) => do
    let vs ← bs.mapM fbits
    some ⟨vs, none, true⟩
  | .list [.atom "add", p, q] => do some (Val.add (← evalP c p) (← evalP c q))
  | .list [.atom "sub", p, q] => do some (Val.sub (← evalP c p) (← evalP c q))
  | .list [.atom "neg", p] => do some (Val.neg (← evalP c p))
  | .list [.atom "nscale", k, p] => do some (Val.nscale (← fbits k) (← evalP c p))
  | .list [.atom "ndiv", p, k] => do some (Val.ndiv (← evalP c p) (← fbits k))
  | .list [.atom "smul", p, s] => do some (Val.smul (← evalP c p) (← evalP c s))
  | .list [.atom "sdiv", p, s] => do some (Val.sdiv (← evalP c p) (← evalP c s))
  | .list [.atom "u", .atom f, p] => do some (Val.sc1 (← parseE1 f) (← evalP c p))
  | .list [.atom "powi", n, p] => do some (Val.sc1 (.powi (← n.toInt?) (.var 0)) (← evalP c p))
  | .list [.atom "powg", k, p] => do some (Val.sc1 (.powg (← fbits k) (.var 0)) (← evalP c p))
  | .list [.atom "atan2", y, x] => do some (Val.sc2 (.atan2 (.var 0) (.var 1)) (← evalP c y) (← evalP c x))
  | .list [.atom "dot", p, q] => do some (Val.dot (← evalP c p) (← evalP c q))
  | .list [.atom "normsq", p] => do some (Val.normSq (← evalP c p))
  | .list [.atom "norm", p] => do some (Val.norm (← evalP c p))
  | .list [.atom "cross3", p, q] => do some (Val.cross3 (← evalP c p) (← evalP c q))
  | .list [.atom "cross2", p, q] => do some (Val.cross2 (← evalP c p) (← evalP c q))
  | .list [.atom "outer", p, q] => do some (Val.outer (← evalP c p) (← evalP c q))
  | .list [.atom "emul", p, q] => do some (Val.emul (← evalP c p) (← evalP c q))
  | .list [.atom "ediv", p, q] => do some (Val.ediv (← evalP c p) (← evalP c q))
  | .list [.atom "comp", i, p] => do some (Val.comp (← i.toNat?) (← evalP c p))
  | .list [.atom "slice", i, j, p] => do some (Val.slice (← i.toNat?) (← j.toNat?) (← evalP c p))
  | .list [.atom "widen", p, q] => do some (Val.widen (← evalP c p) (← evalP c q))
  | .list [.atom "cat", p, q] => do some (Val.cat (← evalP c p) (← evalP c q))
  | .list [.atom "matmul", m, k, n, p, q] => do
    some (Val.matmul (← m.toNat?) (← k.toNat?) (← n.toNat?) (← evalP c p) (← evalP c q))
  | .list [.atom "transpose", m, n, p] => do some (Val.transpose (← m.toNat?) (← n.toNat?) (← evalP c p))
  | .list [.atom "inverse", n, p] => do some (Val.inverse (← n.toNat?) (← evalP c p))
  | .list [.atom "rot", ax, p] => do some (Val.rot (← ax.toNat?) (← evalP c p))
  | .list [.atom "qmul", p, q] => do some (Val.qmul (← evalP c p) (← evalP c q))
  | .list [.atom "qconj", p] => do some (Val.qconj (← evalP c p))
  | .list [.atom "unit", p] => do some (Val.unit (← evalP c p))
  | .list [.atom "proj", p, q] => do some (Val.proj (← evalP c p) (← evalP c q))
  | .list [.atom "perp", p, q] => do some (Val.perp (← evalP c p) (← evalP c q))
  | .list [.atom "ucross", p, q] => do some (Val.ucross (← evalP c p) (← evalP c q))
  | .list [.atom "withnorm", p, n] => do some (Val.withNorm (← evalP c p) (← evalP c n))
  | .list [.atom "qrecip", p] => do some (Val.qrecip (← evalP c p))
  | .list [.atom "fromrotation", a, v] => do some (Val.fromRotation (← evalP c a) (← evalP c v))
  | .list [.atom "torotation0", q] => do some (Val.toRotation0 (← evalP c q))
  | .list [.atom "torotation1", q] => do some (Val.toRotation1 (← evalP c q))
  | .list [.atom "sep", p, q] => do some (Val.sep (← evalP c p) (← evalP c q))
  | .list [.atom "twovec", a1, a2, p, q] => do some (Val.twovec (← a1.toNat?) (← a2.toNat?) (← evalP c p) (← evalP c q))
  | .list [.atom "tomatrix3", q] => do some (Val.toMatrix3 (← evalP c q))
  | _ => none

def outBits (l : List F) : Sx := .list (l.map fun x => Sx.ofNat x.toBits.toNat)

def parseD : Sx → Option (Option F)
  | .atom "n" => some none
  | x => (fbits x).map some

def handle : List Sx → Sx
  | [.atom "run", .list (.atom "env" :: env), .list (.atom "um" :: um), .list (.atom "dirs" :: dirs),
     .list (.atom "progs" :: progs)] =>
    match env.mapM fbits, um.mapM Sx.toBool? with
    | some env, some um =>
      let noD : Array (Option F) := (env.map fun _ => none).toArray
      let runDir (label : Sx) (denv : Array (Option F)) (isVal : Bool) : Sx :=
        let c : Ctx := ⟨env.toArray, um.toArray, denv⟩
        .list (label :: progs.map fun p =>
          match evalP c p with
          | none => .atom "bad-prog"
          | some r =>
            if isVal then (if r.ok then outBits r.v else .atom "m")
            else match r.d with
              | none => .atom "n"
              | some d => if r.ok then outBits d else .atom "m")
      let dirOuts := dirs.map fun d =>
        match d with
        | .list [label, .list ds] =>
          match ds.mapM parseD with
          | some ds => runDir label ds.toArray false
          | none => err "dir"
        | _ => err "dir"
      -- values: masked iff masked under some direction (value and derivative share the flag);
      -- with no direction at all the value run uses the empty key
      let valOut :=
        match dirs with
        | [] => runDir (.atom "val") noD true
        | .list [_, .list ds] :: _ =>
          match ds.mapM parseD with
          | some ds => runDir (.atom "val") ds.toArray true
          | none => err "dir"
        | _ => err "dir"
      .list (valOut :: dirOuts)
    | _, _ => err "env"
  | _ => err "c06-op"

end Drv.C06

def main : IO Unit := Drv.runLoop fun x =>
  match x with
  | .list (.atom "c06" :: rest) => Drv.C06.handle rest
  | _ => .atom "bad-op"
