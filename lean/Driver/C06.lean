import Driver.Util
import Driver.Loop
import PMV.Model.Dual
/- line-protocol handler for the C06 view: runs the `Float` instance of the derivative model.

   request   (c06 run (env b…) (um T|F …) (dirs (label (b|n …)) …) (progs p …))
             env   : operand components as IEEE-754 bit patterns (decimal UInt64)
             um    : unmasked flag per component
             dirs  : one derivative direction (key, denominator index) each: per component the
                     derivative's bit pattern, or `n` when the operand lacks the key
             progs : one item-level program per result element
   response  ((val e …) (label e …) …)   e = m (masked) | n (no derivative for the key) | (b …)
-/
namespace Drv.C06
open PMV PMV.Dual

abbrev F := Float

def fbits (s : Sx) : Option F := s.toNat?.map fun n => Float.ofBits n.toUInt64

def parseE1 : String → Option (E F)
  | "neg" => some (.neg (.var 0)) | "abs" => some (.abs (.var 0)) | "recip" => some (.recip (.var 0))
  | "pow0" => some (.pow0 (.var 0)) | "pow2" => some (.pow2 (.var 0)) | "pow3" => some (.pow3 (.var 0))
  | "pow4" => some (.pow4 (.var 0)) | "sin" => some (.sin (.var 0)) | "cos" => some (.cos (.var 0))
  | "tan" => some (.tan (.var 0)) | "asin" => some (.asin (.var 0)) | "acos" => some (.acos (.var 0))
  | "atan" => some (.atan (.var 0)) | "exp" => some (.exp (.var 0)) | "log" => some (.log (.var 0))
  | "sqrt" => some (.sqrt (.var 0))
  -- `x ** -0.5`: scalar.py:1522 `self.sqrt().reciprocal()`
  | "pownh" => some (.recip (.sqrt (.var 0)))
  | "sgn" => some (.sgn (.var 0)) | "isneg" => some (.isneg (.var 0))
  | _ => none

structure Ctx where
  env : Array F
  um : Array Bool
  denv : Array (Option F)

def Ctx.e (c : Ctx) (i : Nat) : F := c.env[i]!
def Ctx.u (c : Ctx) (i : Nat) : Bool := c.um[i]!
def Ctx.d (c : Ctx) (i : Nat) : Option F := c.denv[i]!

def parseTy : String → Option Ty
  | "S" => some .S | "V2" => some .V2 | "V3" => some .V3 | "Q" => some .Q | "M2" => some .M2 | "M3" => some .M3
  | _ => none

/-- request program → `ProgW Float` (Model/Dual.lean); composite methods go through the program-building
    functions `ProgW.unit`, `ProgW.sep`, … (the compositions of the source) -/
partial def parseP : Sx → Option (ProgW F)
  | .list (.atom "opd" :: .atom t :: idx) => do some (.opd (← parseTy t) (← idx.mapM Sx.toNat?))
  | .list [.atom "lit", b] => do some (.lit (← fbits b))
  | .list [.atom "add", p, q] => do some (.add (← parseP p) (← parseP q))
  | .list [.atom "sub", p, q] => do some (.sub (← parseP p) (← parseP q))
  | .list [.atom "neg", p] => do some (.neg (← parseP p))
  | .list [.atom "nscale", k, p] => do some (.nscale (← fbits k) (← parseP p))
  | .list [.atom "ndiv", p, k] => do some (.ndiv (← parseP p) (← fbits k))
  | .list [.atom "smul", p, s] => do some (.smul (← parseP p) (← parseP s))
  | .list [.atom "sdiv", p, s] => do some (.sdiv (← parseP p) (← parseP s))
  | .list [.atom "u", .atom f, p] => do some (.sc1 (← parseE1 f) (← parseP p))
  | .list [.atom "powi", n, p] => do some (.sc1 (.powi (← n.toInt?) (.var 0)) (← parseP p))
  | .list [.atom "powg", k, p] => do some (.sc1 (.powg (← fbits k) (.var 0)) (← parseP p))
  | .list [.atom "atan2", y, x] => do some (.sc2 (.atan2 (.var 0) (.var 1)) (← parseP y) (← parseP x))
  | .list [.atom "dot", p, q] => do some (.dot (← parseP p) (← parseP q))
  | .list [.atom "normsq", p] => do some (.normSq (← parseP p))
  | .list [.atom "norm", p] => do some (.norm (← parseP p))
  | .list [.atom "cross3", p, q] => do some (.cross3 (← parseP p) (← parseP q))
  | .list [.atom "cross2", p, q] => do some (.cross2 (← parseP p) (← parseP q))
  | .list [.atom "outer", p, q] => do some (.outer (← parseP p) (← parseP q))
  | .list [.atom "emul", p, q] => do some (.emul (← parseP p) (← parseP q))
  | .list [.atom "ediv", p, q] => do some (.ediv (← parseP p) (← parseP q))
  | .list [.atom "comp", i, p] => do some (.comp (← i.toNat?) (← parseP p))
  | .list [.atom "slice", i, j, p] => do some (.slice (← i.toNat?) (← j.toNat?) (← parseP p))
  | .list [.atom "widen", p, q] => do some (.widen (← parseP p) (← parseP q))
  | .list [.atom "cat", p, q] => do some (.cat (← parseP p) (← parseP q))
  | .list [.atom "rowcat3", p, q, r] => do some (.rowcat3 (← parseP p) (← parseP q) (← parseP r))
  | .list [.atom "matmul", m, k, n, p, q] => do
    some (.matmul (← m.toNat?) (← k.toNat?) (← n.toNat?) (← parseP p) (← parseP q))
  | .list [.atom "transpose", m, n, p] => do some (.transpose (← m.toNat?) (← n.toNat?) (← parseP p))
  | .list [.atom "inverse", n, p] => do some (.inverse (← n.toNat?) (← parseP p))
  | .list [.atom "rot", ax, p] => do some (.rot (← ax.toNat?) (← parseP p))
  | .list [.atom "qmul", p, q] => do some (.qmul (← parseP p) (← parseP q))
  | .list [.atom "qconj", p] => do some (.qconj (← parseP p))
  | .list [.atom "tomatrix3", q] => do some (.toMatrix3 (← parseP q))
  | .list [.atom "unit", p] => do some (ProgW.unit (← parseP p))
  | .list [.atom "proj", p, q] => do some (ProgW.proj (← parseP p) (← parseP q))
  | .list [.atom "perp", p, q] => do some (ProgW.perp (← parseP p) (← parseP q))
  | .list [.atom "ucross", p, q] => do some (ProgW.ucross (← parseP p) (← parseP q))
  | .list [.atom "withnorm", p, n] => do some (ProgW.withNorm (← parseP p) (← parseP n))
  | .list [.atom "qrecip", p] => do some (ProgW.qrecip (← parseP p))
  | .list [.atom "mdiv", n, p, q] => do some (ProgW.mdiv (← n.toNat?) (← parseP p) (← parseP q))
  | .list [.atom "fromrotation", a, v] => do some (ProgW.fromRotation (← parseP a) (← parseP v))
  | .list [.atom "torotation0", q] => do some (ProgW.toRotation0 (← parseP q))
  | .list [.atom "torotation1", q] => do some (ProgW.toRotation1 (← parseP q))
  | .list [.atom "sep", p, q] => do some (ProgW.sep (← parseP p) (← parseP q))
  | .list [.atom "fromradec", a, b] => do some (ProgW.fromRaDec (← parseP a) (← parseP b))
  | .list [.atom "fromradeclen", a, b, l] => do some (ProgW.fromRaDecLength (← parseP a) (← parseP b) (← parseP l))
  | .list [.atom "fromcyl", r, l, z] => do some (ProgW.fromCylindrical (← parseP r) (← parseP l) (← parseP z))
  | .list [.atom "twovec", a1, a2, p, q] => do
    some (ProgW.twovec (← a1.toNat?) (← a2.toNat?) (← parseP p) (← parseP q))
  | _ => none

def evalP (c : Ctx) (p : Sx) : Option (Val F) := (parseP p).map fun q => q.run c.e c.d c.u

def outBits (l : List F) : Sx := .list (l.map fun x => Sx.ofNat x.toBits.toNat)

def parseD : Sx → Option (Option F)
  | .atom "n" => some none
  | x => (fbits x).map some

def handle : List Sx → Sx
  | [.atom "run", .list (.atom "env" :: env), .list (.atom "um" :: um), .list (.atom "dirs" :: dirs),
     .list (.atom "progs" :: progs)] =>
    match env.mapM fbits, um.mapM Sx.toBool? with
    | some env, some um =>
      let noD : Array (Option F) := (env.map fun _ => none).toArray
      let runDir (label : Sx) (denv : Array (Option F)) (isVal : Bool) : Sx :=
        let c : Ctx := ⟨env.toArray, um.toArray, denv⟩
        .list (label :: progs.map fun p =>
          match evalP c p with
          | none => .atom "bad-prog"
          | some r =>
            if isVal then (if r.ok then outBits r.v else .atom "m")
            else match r.d with
              | none => .atom "n"
              | some d => if r.ok then outBits d else .atom "m")
      let dirOuts := dirs.map fun d =>
        match d with
        | .list [label, .list ds] =>
          match ds.mapM parseD with
          | some ds => runDir label ds.toArray false
          | none => err "dir"
        | _ => err "dir"
      -- values: masked iff masked under some direction (value and derivative share the flag);
      -- with no direction at all the value run uses the empty key
      let valOut :=
        match dirs with
        | [] => runDir (.atom "val") noD true
        | .list [_, .list ds] :: _ =>
          match ds.mapM parseD with
          | some ds => runDir (.atom "val") ds.toArray true
          | none => err "dir"
        | _ => err "dir"
      .list (valOut :: dirOuts)
    | _, _ => err "env"
  | _ => err "c06-op"

end Drv.C06

def main : IO Unit := Drv.runLoop fun x =>
  match x with
  | .list (.atom "c06" :: rest) => Drv.C06.handle rest
  | _ => .atom "bad-op"
