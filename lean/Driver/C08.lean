import Driver.Loop
import PMV.Model.ReadOnly
/- line-protocol handler for the C08 view: one request = one whole history of calls;
   answer = for every step the result class and the observation of every object / caller-held array so far -/
namespace Drv.C08
open PMV PMV.ReadOnly

def err (msg : String) : Sx := .list [.atom "driver-error", .atom msg]

def parseMode : Sx → Option Mode
  | .atom "view" => some .view
  | .atom "keepmask" => some .viewKeepMask
  | .atom "copy" => some .copy
  | .atom "bcast" => some .bcast
  | .atom "scalar" => some .scalar
  | _ => none

def parseMC : Sx → Option MaskClass
  | .atom "none" => some .none_
  | .atom "all" => some .all_
  | .atom "mixed" => some .mixed
  | .atom "mixedlossy" => some .mixedLossy
  | _ => none

def parsePairs (x : Sx) : Option (List (Nat × Nat)) := do
  let l ← x.toList?
  l.mapM fun p => match p with
    | .list [a, b] => do some ((← a.toNat?), (← b.toNat?))
    | _ => none

/-- request op (object operands are VARIABLE numbers) -> model op (object ids) -/
def parseOp (vars : List Nat) (x : Sx) : Option Op :=
  let var (s : Sx) : Option Nat := do vars[(← s.toNat?)]?
  match x with
  | .list [.atom "mk", n, mn, m, u, d] => do
    let mask : Option Bool ← match m with
      | .atom "A" => some none
      | .atom "T" => some (some true)
      | .atom "F" => some (some false)
      | _ => none
    some (.mk (← n.toNat?) (← mn.toNat?) mask (← u.toBool?) (← d.toBool?))
  | .list [.atom "mks", m, u, d] => do some (.mks (← m.toBool?) (← u.toBool?) (← d.toBool?))
  | .list [.atom "derive", v, m, vi, mi, msc, r, ds] => do
    let pmsc (x : Sx) : Option (Option Bool) := match x with
      | .atom "A" => some none
      | x => (x.toBool?).map some
    let vidx ← vi.nats?
    let dsel ← (← ds.toList?).mapM fun p => match p with
      | .list [k, dmi, dmsc] => do some ((← k.toNat?), (⟨vidx, ← dmi.nats?, ← pmsc dmsc⟩ : Sel))
      | _ => none
    some (.derive (← var v) (← parseMode m) ⟨vidx, ← mi.nats?, ← pmsc msc⟩ (← r.toBool?) dsel)
  | .list [.atom "wod", v] => do some (.wod (← var v))
  | .list [.atom "clone", v, r] => do some (.clone (← var v) (← r.toBool?))
  | .list [.atom "copy", v, r, ro] => do some (.copy (← var v) (← r.toBool?) (← ro.toBool?))
  | .list [.atom "neg", v, u, d] => do some (.neg (← var v) (← u.toBool?) (← d.toBool?))
  | .list [.atom "pickle", v, mc, dmc] => do
    let ps ← (← dmc.toList?).mapM fun p => match p with
      | .list [k, c] => do some ((← k.toNat?), (← parseMC c))
      | _ => none
    some (.pickle (← var v) (← parseMC mc) ps)
  | .list [.atom "getderiv", v, k] => do some (.getDeriv (← var v) (← k.toNat?))
  | .list [.atom "rawref", v, m] => do some (.rawRef (← var v) (← m.toBool?))
  | .list [.atom "rawview", v, m, idx] => do some (.rawView (← var v) (← m.toBool?) (← idx.nats?))
  | .list [.atom "setitem", v, pos, mpos, mn] => do
    some (.setItem (← var v) (← pos.nats?) (← mpos.nats?) (← mn.toNat?))
  | .list [.atom "setall", v] => do some (.setAll (← var v))
  | .list [.atom "iop", v, f, u] => do some (.iop (← var v) (← f.toBool?) (← u.toBool?))
  | .list [.atom "setunits", v, u, ov] => do some (.setUnits (← var v) (← u.toNat?) (← ov.toBool?))
  | .list [.atom "deld", v, k, ov] => do some (.deleteDeriv (← var v) (← k.toNat?) (← ov.toBool?))
  | .list [.atom "delds", v, ov] => do some (.deleteDerivs (← var v) (← ov.toBool?))
  | .list [.atom "insd", v, k, d, ov] => do some (.insertDeriv (← var v) (← k.toNat?) (← var d) (← ov.toBool?))
  | .list [.atom "insds", v, kds, ov] => do
    let ps ← parsePairs kds
    let ps ← ps.mapM fun (k, d) => do some (k, ← vars[d]?)
    some (.insertDerivs (← var v) ps (← ov.toBool?))
  | .list [.atom "asro", v, r] => do some (.asReadonly (← var v) (← r.toBool?))
  | .list [.atom "reqw", v] => do some (.requireWritable (← var v))
  | .list [.atom "write", u, pos] => do some (.write (← u.toNat?) (← pos.nats?))
  | _ => none

def flagV (s : State) : Val → Sx
  | .sc _ => .atom "S"
  | .arr a => Sx.ofBool (s.arrW a)

def flagM (s : State) : Msk → Sx
  | .sc _ => .atom "S"
  | .arr a => Sx.ofBool (s.arrW a)

def objFlags (s : State) (o : Obj) : List Sx := [Sx.ofBool o.ro, flagV s o.vals, flagM s o.mask]

/-- `(ro vw mw changed (key ro vw mw)...)` -/
def varObs (before after : State) (i : Nat) : Sx :=
  match after.objs[i]? with
  | some o =>
    let ch := match before.objs[i]? with
      | some _ => obs before i != obs after i
      | none => false
    .list (objFlags after o ++ [Sx.ofBool ch] ++ (o.derivs.mergeSort fun a b => a.1 ≤ b.1).map fun kd =>
      match after.objs[kd.2]? with
      | some d => Sx.list (Sx.ofNat kd.1 :: objFlags after d)
      | none => .atom "dangling")
  | none => .atom "no-object"

def resSx : Res → Sx
  | .ok => .atom "ok"
  | .obj _ => .atom "obj"
  | .usr _ => .atom "usr"
  | .err .value => .atom "ValueError"
  | .err .type => .atom "TypeError"
  | .err .bad => .atom "bad-handle"

/-- run the model ops one request step stands for (`(seq op1 op2 ..)`: e.g. a constant of the library = build + freeze);
    the step's result is that of the first op -/
def runOps (s : State) (vars : List Nat) : List Sx → Option (State × List Nat × Option Res)
  | [] => some (s, vars, none)
  | x :: xs =>
    match parseOp vars x with
    | none => none
    | some op =>
      let (s', r) := step s op
      let vars' := match r with
        | .obj i => vars ++ [i]
        | _ => vars
      match runOps s' vars' xs with
      | some (s'', vars'', _) => some (s'', vars'', some r)
      | none => none

def runHist : State → List Nat → List Sx → List Sx → List Sx
  | _, _, [], acc => acc.reverse
  | s, vars, x :: xs, acc =>
    let ops : List Sx := match x with
      | .list (.atom "seq" :: l) => l
      | y => [y]
    match runOps s vars ops with
    | some (s', vars', some r) =>
      let line := Sx.list [resSx r, .list (vars'.map (varObs s s')),
                            .list (s'.user.map fun a => Sx.ofBool (s'.arrW a))]
      runHist s' vars' xs (line :: acc)
    | _ => (err "op" :: acc).reverse

def handle : List Sx → Sx
  | [.atom "hist", .list ops] => .list (runHist State.empty [] ops [])
  | _ => err "c08-op"

end Drv.C08

def main : IO Unit := Drv.runLoop fun x =>
  match x with
  | .list (.atom "c08" :: rest) => Drv.C08.handle rest
  | _ => .atom "bad-op"
