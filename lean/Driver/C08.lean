import Driver.Loop
/- placeholder: the C08 view has no executable model yet -/
def main : IO Unit := Drv.runLoop fun _ => .atom "bad-op"
