import PMV.Core.Sx
import PMV.Core.Arr
/- helpers shared by the per-view driver handlers -/
namespace Drv
open PMV

/-- mask representation on the wire: `T`, `F` or a list of bits (row-major, leading shape) -/
inductive MaskRep where
  | scalar (b : Bool)
  | array (bits : Array Bool)
  deriving Repr

def parseMask : Sx → Option MaskRep
  | .atom "T" => some (.scalar true)
  | .atom "F" => some (.scalar false)
  | x => (x.bools?).map fun l => .array l.toArray

def MaskRep.at (m : MaskRep) (shape : Shape) (i : Index) : Bool :=
  match m with
  | .scalar b => b
  | .array bits => bits[ravel shape i]!

def MaskRep.isOneFalse : MaskRep → Bool
  | .scalar false => true
  | _ => false

def err (msg : String) : Sx := .list [.atom "driver-error", .atom msg]

/-- all items of an array of leading shape `shape` whose flat data has `isz` ints per item -/
def itemAt (data : Array Int) (shape : Shape) (isz : Nat) (i : Index) : List Int :=
  let base := ravel shape i * isz
  (List.range isz).map fun k => data[base + k]!

end Drv
