import Driver.Util
import Driver.Loop
import PMV.Model.MaskPath
/- line-protocol handlers for the C01 view (mask paths)

   request:  (c01 run <path> (<opd> …) <fail>)      |   (c01 tree <expr>)
   opd    := ((shape) <mask>)
   mask   := T | F | (bits…)  — array of the operand's shape | (V (srcshape) (bits…)) — broadcast view
   fail   := N | T | F | ((shape) (bits…))
   expr   := (leaf <opd>) | (un <path> <fail> <expr>) | (bin <path> <fail> <expr> <expr>)
   answer := ((shape) (bits…))  — the expanded result mask    |   ValueError
-/
namespace Drv.C01
open PMV PMV.MaskPath Drv

def arrOf (shape : Shape) (bits : List Bool) : Arr Bool :=
  let data := bits.toArray
  ⟨shape, fun i => data[ravel shape i]!⟩

def parseMaskS (shape : Shape) : Sx → Option Mask
  | .atom "T" => some (.all true)
  | .atom "F" => some (.all false)
  | .list [.atom "V", src, bits] => do
    let s ← src.nats?
    let b ← bits.bools?
    some (Mask.view (arrOf s b) shape)
  | x => do
    let b ← x.bools?
    some (.arr (arrOf shape b))

def parseOpd : Sx → Option Opd
  | .list [sh, m] => do
    let shape ← sh.nats?
    let mask ← parseMaskS shape m
    some ⟨shape, mask⟩
  | _ => none

def parseFail : Sx → Option Mask
  | .atom "N" => some (.all false)
  | .atom "T" => some (.all true)
  | .atom "F" => some (.all false)
  | .list [sh, bits] => do
    let s ← sh.nats?
    let b ← bits.bools?
    some (.arr (arrOf s b))
  | _ => none

def parsePath : String → Option Path
  | "cloneSet" => some .cloneSet
  | "setTrue" => some .setTrue
  | "ctor1" => some .ctor1
  | "ctorOr" => some (.ctorOr false)
  | "ctorOrSame" => some (.ctorOr true)
  | "ctorOr3" => some .ctorOr3
  | "divScalar" => some (.divScalar false)
  | "divScalarSame" => some (.divScalar true)
  | "divPipe" => some .divPipe
  | "guard" => some .guard
  | "guardAsin" => some .guardAsin
  | "pow0D" => some (.pow0D false)
  | "powArr" => some (.powArr false)
  | "elementDiv" => some (.elementDiv false)
  | "matInverse" => some .matInverse
  | _ => none

def out (r : Option (Shape × Mask)) : Sx :=
  match r with
  | none => .atom "ValueError"
  | some (s, m) => .list [Sx.ofNats s, Sx.ofBools ((indices s).map m.atB)]

partial def parseExpr : Sx → Option MExpr
  | .list [.atom "leaf", o] => (parseOpd o).map .leaf
  | .list [.atom "un", .atom p, f, e] => do
    let p ← parsePath p
    let f ← parseFail f
    let e ← parseExpr e
    some (.un p f e)
  | .list [.atom "bin", .atom p, f, e1, e2] => do
    let p ← parsePath p
    let f ← parseFail f
    let e1 ← parseExpr e1
    let e2 ← parseExpr e2
    some (.bin p f e1 e2)
  | _ => none

def handle : List Sx → Sx
  | [.atom "run", .atom p, .list ops, f] =>
    match parsePath p, ops.mapM parseOpd, parseFail f with
    | some p, some ops, some f => out (run p ops f)
    | _, _, _ => err "operand"
  | [.atom "m3mul", sc, .list [r, x]] =>
    match sc.toBool?, parseOpd r, parseOpd x with
    | some sc, some r, some x => out (matrix3Mul sc r x)
    | _, _, _ => err "operand"
  | [.atom "inplace", .atom k, .list [a, b], f] =>
    let kind : Option InPlace := match k with
      | "number" => some .number | "merge" => some .merge | "divMerge" => some .divMerge
      | "pipeMerge" => some .pipeMerge | "matmul" => some .matmul | "matdiv" => some .matdiv | _ => none
    match kind, parseOpd a, parseOpd b, parseFail f with
    | some k, some a, some b, some f => out (runInPlace k a b f)
    | _, _, _, _ => err "operand"
  | [.atom "tree", e] =>
    match parseExpr e with
    | some e => out (e.eval.map fun o => (o.shape, o.mask))
    | none => err "expr"
  | _ => err "c01-op"

end Drv.C01

def main : IO Unit := Drv.runLoop fun x =>
  match x with
  | .list (.atom "c01" :: rest) => Drv.C01.handle rest
  | _ => .atom "bad-op"
