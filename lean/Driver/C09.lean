import Driver.Loop
import PMV.Model.IndexWire
import PMV.Lemmas.IndexSpec
/- line-protocol handlers for the C09 view (indexing) -/
namespace Drv.C09
open PMV PMV.NpIndex PMV.Index PMV.IndexWire

def err (msg : String) : Sx := .list [.atom "driver-error", .atom msg]

def handle : List Sx → Sx
  | [.atom "get", sh, masks, ents] =>
    match sh.nats? with
    | some shape =>
      match parseMasks shape masks, parseEntries ents with
      | some ms, some es => renderResults shape (getitemObj shape ms es)
      | _, _ => err "operand"
    | none => err "shape"
  | [.atom "getseq", ents, targets] =>
    -- one index applied to several objects in turn (the model has no state: each result is fresh)
    match parseEntries ents, targets.toList? with
    | some es, some ts =>
      .list ((ts.map fun t => match t with
        | .list [sh, masks] =>
          match sh.nats? with
          | some shape =>
            match parseMasks shape masks with
            | some ms => renderResults shape (getitemObj shape ms es)
            | none => err "operand"
          | none => err "shape"
        | _ => err "target") ++ [.atom "index-unchanged"])
    | _, _ => err "operand"
  | [.atom "iter", sh, masks] =>
    match sh.nats? with
    | some shape =>
      match parseMasks shape masks with
      | some ms => .list ((iterate shape ms).map (renderResults shape))
      | none => err "operand"
    | none => err "shape"
  | [.atom "ndenum", sh, masks] =>
    match sh.nats? with
    | some shape =>
      match parseMasks shape masks with
      | some ms => .list ((ndenumerate shape ms).map fun (i, r) => .list [Sx.ofNats i, renderResults shape r])
      | none => err "operand"
    | none => err "shape"
  | [.atom "len", sh] =>
    match sh.nats? with
    | some shape => match len shape with
      | some n => Sx.ofNat n
      | none => .atom "TypeError"
    | none => err "shape"
  | [.atom "sel", sh, ents] =>
    -- spec suite: the Lean specification `sel` alone (compared with the Python reference)
    match sh.nats?, parseEntries ents with
    | some shape, some es =>
      match sel shape (expand es) with
      | some sp => .list [Sx.ofNats sp.shape, .list ((indices sp.shape).map fun o =>
          if sp.flag o then Sx.atom "m" else Sx.ofNat (ravel shape (sp.src o)))]
      | none => .atom "IndexError"
    | _, _ => err "operand"
  | [.atom "np", sh, ents] =>
    -- kernel suite: the NumPy model alone
    match sh.nats?, (ents.toList?).bind (·.mapM parseNEntry) with
    | some shape, some es =>
      match npIndex shape es with
      | some s => .list [Sx.ofNats s.shape, .list ((indices s.shape).map fun o => Sx.ofNat (ravel shape (s.src o)))]
      | none => .atom "IndexError"
    | _, _ => err "operand"
  | _ => err "c09-op"

end Drv.C09

def main : IO Unit := Drv.runLoop fun x =>
  match x with
  | .list (.atom "c09" :: rest) => Drv.C09.handle rest
  | _ => .atom "bad-op"
