import Driver.Util
import Driver.Loop
import PMV.Model.NI
/- line-protocol handler for the C03 view: evaluates an expression tree of Model/NI.lean over IEEE doubles.
   request:  (c03 <tree> (objs <obj>*) (idxs <idx>*) (ams <am>*) (tables (<fn> (<xbits> <ybits>)*)*) <cutoffbits>)
   obj := (shape (valbits*) mask deriv)   deriv := - | ((valbits*) mask)
   idx := (shape (ints*) mask)            am := (shape (bools*))
   tree := (v i) | (un op t) | (bin op t t) | (red op (axes*) t) | (sort axis t) | (index t iv) | (su am t)
           | (cmp op t t)   (root only)
           | (prog (assign i t) | (query t) ...)   statement sequence; answer: one observation per statement
   answer: (shape (maskbits*) (valbits at unmasked*) deriv)  deriv := - | ((merged maskbits*) (valbits*))
           | ValueError | IndexError -/
namespace Drv.C03
open PMV PMV.NI Drv

abbrev Table := List (String × List (UInt64 × UInt64))

def lookup (tb : Table) (fn : String) (x : Float) : Float :=
  match tb.find? (·.1 == fn) with
  | none => Float.ofBits 0x7ff8000000000000
  | some (_, rows) =>
    match rows.find? (·.1 == x.toBits) with
    | some (_, y) => Float.ofBits y
    | none =>
      match rows.find? (·.1 == (x + 0.0).toBits) with
      | some (_, y) => Float.ofBits y
      | none => Float.ofBits 0x7ff8000000000000

abbrev Table2 := List (String × List (UInt64 × UInt64 × UInt64))

/-- binary functions tabulated by the harness (np.floor_divide, np.remainder, np.power / Python **, np.arctan2) -/
def lookup2 (tb : Table2) (fn : String) (x y : Float) : Float :=
  match tb.find? (·.1 == fn) with
  | none => Float.ofBits 0x7ff8000000000000
  | some (_, rows) =>
    match rows.find? fun r => r.1 == x.toBits && r.2.1 == y.toBits with
    | some r => Float.ofBits r.2.2
    | none =>
      match rows.find? fun r => r.1 == (x + 0.0).toBits && r.2.1 == (y + 0.0).toBits with
      | some r => Float.ofBits r.2.2
      | none => Float.ofBits 0x7ff8000000000000

def fsign (x : Float) : Float := if x > 0 then 1 else if x < 0 then -1 else 0

def prims (tb : Table) (tb2 : Table2) (cutoff : Float) : Prims Float :=
  { zero := 0, one := 1, half := 0.5, negOne := -1,
    posInf := Float.ofBits 0x7ff0000000000000, negInf := Float.ofBits 0xfff0000000000000, cutoff := cutoff,
    add := (· + ·), sub := (· - ·), mul := (· * ·), div := (· / ·), neg := (- ·), abs := Float.abs, sign := fsign,
    lt := fun a b => a < b, le := fun a b => a ≤ b, eq := fun a b => a == b,
    sqrt := Float.sqrt, log := lookup tb "log", exp := lookup tb "exp", sin := lookup tb "sin", cos := lookup tb "cos",
    tan := lookup tb "tan", asin := lookup tb "arcsin", acos := lookup tb "arccos", atan := lookup tb "arctan",
    expOv := fun x => (lookup tb "exp" x).isInf, ofNat := fun n => n.toFloat,
    fdiv := lookup2 tb2 "fdiv", fmod := lookup2 tb2 "fmod", pow := lookup2 tb2 "pow", atan2 := lookup2 tb2 "atan2",
    nonfinite := fun x => x.isNaN || x.isInf }

def floats? (x : Sx) : Option (Array Float) := do
  let l ← x.nats?
  some (l.map fun n => Float.ofBits n.toUInt64).toArray

def mkArr {α : Type} [Inhabited α] (shape : Shape) (vals : Array α) (mask : MaskRep) : MArr α :=
  ⟨shape, fun i => ⟨vals[ravel shape i]!, mask.at shape i⟩⟩

def parseObj : Sx → Option (Obj Float)
  | .list [sh, vs, m, d] => do
    let shape ← sh.nats?
    let vals ← floats? vs
    let mask ← parseMask m
    let main := mkArr shape vals mask
    match d with
    | .atom "-" => some ⟨main, none⟩
    | .list [dvs, dm] => do
      let dvals ← floats? dvs
      let dmask ← parseMask dm
      some ⟨main, some (mkArr shape dvals dmask)⟩
    | _ => none
  | _ => none

def parseIdx : Sx → Option (MArr Int)
  | .list [sh, vs, m] => do
    let shape ← sh.nats?
    let vals ← vs.ints?
    let mask ← parseMask m
    some (mkArr shape vals.toArray mask)
  | _ => none

def parseBidx : Sx → Option (MArr Bool)
  | .list [sh, vs, m] => do
    let shape ← sh.nats?
    let vals ← vs.bools?
    let mask ← parseMask m
    some (mkArr shape vals.toArray mask)
  | _ => none

def parseAm : Sx → Option (Arr Bool)
  | .list [sh, bs] => do
    let shape ← sh.nats?
    let bits ← bs.bools?
    some (Arr.ofFlat shape bits.toArray)
  | _ => none

def parseTable : Sx → Option (String × List (UInt64 × UInt64))
  | .list (.atom fn :: rows) => do
    let rs ← rows.mapM fun r => match r with
      | .list [a, b] => do
        let x ← a.toNat?
        let y ← b.toNat?
        some (x.toUInt64, y.toUInt64)
      | _ => none
    some (fn, rs)
  | _ => none

def parseTable2 : Sx → Option (String × List (UInt64 × UInt64 × UInt64))
  | .list (.atom fn :: rows) => do
    let rs ← rows.mapM fun r => match r with
      | .list [a, b, c] => do
        let x ← a.toNat?
        let y ← b.toNat?
        let z ← c.toNat?
        some (x.toUInt64, y.toUInt64, z.toUInt64)
      | _ => none
    some (fn, rs)
  | _ => none

def parseK : String → Option CmpKind
  | "lt" => some .lt | "le" => some .le | "gt" => some .gt | "ge" => some .ge | "eq" => some .eq | "ne" => some .ne
  | _ => none

def parseU : String → Option UOp
  | "neg" => some .neg | "abs" => some .abs | "sign" => some .sign | "sin" => some .sin | "cos" => some .cos
  | "tan" => some .tan | "arctan" => some .arctan | "sqrt" => some .sqrt | "log" => some .log | "expC" => some .expC
  | "recip" => some .recip | "arcsin" => some .arcsin | "arccos" => some .arccos | "sqrtNc" => some .sqrtNc
  | "logNc" => some .logNc | "exp" => some .exp | "recipNz" => some .recipNz | "arcsinNc" => some .arcsinNc
  | "arccosNc" => some .arccosNc | "wod" => some .wod | "pickle" => some .pickle
  | "signNz" => some .signNz | "frac" => some .frac | "pow0" => some .pow0 | "pow2" => some .pow2
  | "pow3" => some .pow3 | "pow4" => some .pow4 | _ => none

def parseB : String → Option BOp
  | "add" => some .add | "sub" => some .sub | "mul" => some .mul | "div" => some .div | "stack" => some .stack
  | "mod" => some .mod | "floordiv" => some .floordiv | "arctan2" => some .arctan2
  | _ => none

def parseR : String → Option ROp
  | "sum" => some .sum | "mean" => some .mean | "max" => some .max | "min" => some .min
  | "argmax" => some .argmax | "argmin" => some .argmin | "median" => some .median | _ => none

def parseC : String → Option COp
  | "eq" => some .eq | "ne" => some .ne | "lt" => some .lt | "le" => some .le | "gt" => some .gt | "ge" => some .ge
  | _ => none

partial def parseExpr : Sx → Option Expr
  | .list [.atom "v", i] => do some (.var (← i.toNat?))
  | .list [.atom "un", .atom op, e] => do some (.un (← parseU op) (← parseExpr e))
  | .list [.atom "bin", .atom op, e1, e2] => do some (.bin (← parseB op) (← parseExpr e1) (← parseExpr e2))
  | .list [.atom "red", .atom op, axes, e] => do some (.red (← parseR op) (← axes.nats?) (← parseExpr e))
  | .list [.atom "sort", ax, e] => do some (.sort (← ax.toNat?) (← parseExpr e))
  | .list [.atom "index", e, iv] => do some (.index (← parseExpr e) (← iv.toNat?))
  | .list [.atom "su", am, e] => do some (.shrinkUnshrink (← am.toNat?) (← parseExpr e))
  | .list [.atom "indexB", e, bv] => do some (.indexB (← parseExpr e) (← bv.toNat?))
  | .list [.atom "powG", ik, ikm1, e] => do some (.powG (← ik.toNat?) (← ikm1.toNat?) (← parseExpr e))
  | .list [.atom "mw", .atom k, il, ir, rm, e] => do
    let irep ← match ir with
      | .atom "-" => some none
      | x => (x.toNat?).map some
    some (.mw (← parseK k) (← il.toNat?) irep (← rm.toBool?) (← parseExpr e))
  | .list [.atom "clip", ilo, ihi, rm, e] => do some (.clip (← ilo.toNat?) (← ihi.toNat?) (← rm.toBool?) (← parseExpr e))
  | _ => none

def bitsSx (x : Float) : Sx :=
  if x.isNaN then .atom "nan" else Sx.ofNat (x + 0.0).toBits.toNat

def errSx : Err → Sx
  | .value => .atom "ValueError"
  | .index => .atom "IndexError"

def arrSx (a : MArr Float) (extra : Option (MArr Float)) : List Sx :=
  let cells := a.toList
  let ms := match extra with
    | none => cells.map (·.m)
    | some p => (cells.zip p.toList).map fun (c, q) => c.m || q.m
  let shown := ((cells.zip ms).filter fun (_, m) => !m).map fun (c, _) => bitsSx c.v
  [Sx.ofBools ms, .list shown]

def objSx (x : Obj Float) : Sx :=
  let d := match x.d with
    | none => Sx.atom "-"
    | some dx => .list (arrSx dx (some x.main))
  .list ([Sx.ofNats x.main.shape] ++ arrSx x.main none ++ [d])

def boolSx (a : MArr Bool) : Sx :=
  let cells := a.toList
  .list [Sx.ofNats a.shape, Sx.ofBools (cells.map (·.m)),
         .list ((cells.filter fun c => !c.m).map fun c => bitsSx (if c.v then 1.0 else 0.0)), .atom "-"]

def handle : List Sx → Sx
  | [tree, .list (.atom "objs" :: objs), .list (.atom "idxs" :: idxs), .list (.atom "ams" :: ams),
     .list (.atom "tables" :: tbs), .list (.atom "tables2" :: tbs2), .list (.atom "consts" :: cs), .list (.atom "bidxs" :: bis), cut] =>
    match objs.mapM parseObj, idxs.mapM parseIdx, ams.mapM parseAm, tbs.mapM parseTable, tbs2.mapM parseTable2,
          floats? (.list cs), bis.mapM parseBidx, cut.toNat? with
    | some objs, some idxs, some ams, some tb, some tb2, some consts, some bidxs, some cut =>
      let P := prims tb tb2 (Float.ofBits cut.toUInt64)
      let env : Env Float := ⟨objs, idxs, ams, consts.toList, bidxs⟩
      match tree with
      | .list (.atom "prog" :: stmts) =>
        let parseStmt : Sx → Option Stmt := fun x => match x with
          | .list [.atom "assign", i, e] => do some (.assign (← i.toNat?) (← parseExpr e))
          | .list [.atom "query", e] => do some (.query (← parseExpr e))
          | .list [.atom "setitem", i, iv, e] => do some (.setitem (← i.toNat?) (← iv.toNat?) (← parseExpr e))
          | _ => none
        match stmts.mapM parseStmt with
        | some sts =>
          .list ((runStmts P env sts).1.map fun r => match r with
            | .ok x => objSx x
            | .error e => errSx e)
        | none => err "stmt"
      | .list [.atom "cmp", .atom op, e1, e2] =>
        match parseC op, parseExpr e1, parseExpr e2 with
        | some op, some e1, some e2 =>
          match evalCmp P env op e1 e2 with
          | .ok r => boolSx r
          | .error e => errSx e
        | _, _, _ => err "cmp"
      | t =>
        match parseExpr t with
        | some e =>
          match eval P env e with
          | .ok x => objSx x
          | .error e => errSx e
        | none => err "tree"
    | _, _, _, _, _, _, _, _ => err "env"
  | _ => err "c03-request"

end Drv.C03

def main : IO Unit := Drv.runLoop fun x =>
  match x with
  | .list (.atom "c03" :: rest) => Drv.C03.handle rest
  | _ => .atom "bad-op"
