import Driver.Util
import Driver.Loop
import PMV.Model.Shrink
/- line-protocol handler for the C17 view (shrink / unshrink), run on IEEE doubles -/
namespace Drv.C17
open PMV PMV.Shrink Drv

instance : Num Float where
  default := 0.0
  add := (· + ·)
  sub := (· - ·)
  mul := (· * ·)
  div := (· / ·)
  neg := fun x => -x
  abs := Float.abs
  sign := fun x => if x > 0.0 then 1.0 else if x < 0.0 then -1.0 else 0.0
  sqrt := Float.sqrt
  isZero := fun x => x == 0.0
  isNeg := fun x => x < 0.0
  lt := fun x y => x < y
  le := fun x y => x ≤ y
  eq := fun x y => x == y
  one := 1.0
  zero := 0.0
  half := 0.5

def dflt : Dflt Float := ⟨1.0, 0.0⟩

def floatOfSx (x : Sx) : Option Float := x.toNat?.map fun n => Float.ofBits n.toUInt64
def floats? (x : Sx) : Option (Array Float) := do
  let l ← x.toList?
  let fs ← l.mapM floatOfSx
  some fs.toArray

/-- `(shape (value bits…) mask)` -/
def parseObj : Sx → Option (Obj Float)
  | .list [sh, vs, m] => do
    let shape ← sh.nats?
    let vals ← floats? vs
    let mask ← parseMask m
    let (rep, bits) : Rep × Array Bool := match mask with
      | .scalar true => (.allT, #[])
      | .scalar false => (.allF, #[])
      | .array b => (.arr, b)
    some ⟨shape, fun i => vals[ravel shape i]!, rep, fun i => bits[ravel shape i]!⟩
  | _ => none

/-- `(shape vals mask ((key shape vals mask) …))` -/
def parseQ : Sx → Option (Q Float)
  | .list [sh, vs, m, .list ds] => do
    let o ← parseObj (.list [sh, vs, m])
    let derivs ← ds.mapM fun d =>
      match d with
      | .list [.atom k, dsh, dvs, dm] => (parseObj (.list [dsh, dvs, dm])).map fun o' =>
          (k, (⟨o', false, .none⟩ : DObj Float))
      | _ => none
    some ⟨.scalar, o, derivs, false, .none⟩
  | _ => none

def parseAM : Sx → Option AM
  | .atom "T" => some (.all true)
  | .atom "F" => some (.all false)
  | .list [sh, bits] => do
    let shape ← sh.nats?
    let b ← bits.bools?
    let arr := b.toArray
    some (.arr ⟨shape, fun i => arr[ravel shape i]!⟩)
  | _ => none

def parseCfg : Sx → Option Cfg
  | .list [a, b, c] => do
    some ⟨← a.toBool?, ← b.toBool?, ← c.toBool?⟩
  | _ => none

def op1? : String → Option (Op1 Float)
  | "neg" => some Cat.neg | "abs" => some Cat.abs | "recip" => some Cat.recip
  | "sqrt" => some Cat.sqrt | "wod" => some Cat.wod | _ => none

def op2? : String → Option (Op2 Float)
  | "add" => some Cat.add | "sub" => some Cat.sub | "mul" => some Cat.mul | "div" => some Cat.div
  | "lt" => some (Cat.cmp Num.lt) | "le" => some (Cat.cmp Num.le)
  | "gt" => some (Cat.cmp fun a b => Num.lt b a) | "ge" => some (Cat.cmp fun a b => Num.le b a)
  | "eq" => some Cat.eq | "ne" => some Cat.ne | _ => none

partial def parseExpr : Sx → Option (Expr Float)
  | .list [.atom "var", n] => n.toNat?.map .var
  | .list [.atom op, e] => do some (.un (← op1? op) (← parseExpr e))
  | .list [.atom op, e₁, e₂] => do some (.bin (← op2? op) (← parseExpr e₁) (← parseExpr e₂))
  | _ => none

def bitsSx (x : Float) : Sx := Sx.ofNat (x + 0.0).toBits.toNat

def insertSorted (k : String) : List String → List String
  | [] => [k]
  | h :: t => if k < h then k :: h :: t else h :: insertSorted k t
def sortKeys (ks : List String) : List String := ks.foldr insertSorted []

def selected (am : AM) (grid : Shape) : List Index :=
  match am with
  | .all true => indices grid
  | .all false => []
  | .arr a => (indices grid).filter fun j => a.get (bidx a.shape j)

/-- class, shape, sorted keys, and the elements at the selected grid positions -/
def obsSx (q : Q Float) (am : AM) (grid : Shape) : Sx :=
  let ks := sortKeys q.keys
  let cell (j : Index) : Sx :=
    let c := q.cellB j
    if c.m then .atom "M"
    else .list (bitsSx c.v :: ks.map fun k =>
      Sx.list [.atom k, if (c.d k).m then Sx.atom "M" else bitsSx (c.d k).v])
  .list [.atom (match q.cls with | .scalar => "Scalar" | .boolean => "Boolean"),
         Sx.ofNats q.obj.shape, .list ((selected am grid).map cell)]

def shrinkAll (cfg : Cfg) (am : AM) (env : List (Q Float)) : Option (List (Q Float)) :=
  mapOpt (shrink dflt cfg am) env

def handle : List Sx → Sx
  | [.atom "run", cfg, am, grid, tree, .list opds] =>
    match parseCfg cfg, parseAM am, grid.nats?, parseExpr tree, opds.mapM parseQ with
    | some cfg, some am, some grid, some e, some env =>
      let direct := match eval env e with
        | some r => obsSx r am grid
        | none => .atom "ValueError"
      let via := match shrinkAll cfg am env with
        | none => Sx.atom "ValueError"
        | some senv =>
          match eval senv e with
          | none => .atom "ValueError"
          | some r =>
            match unshrink dflt cfg am [] r with
            | some u => obsSx u am grid
            | none => .atom "ValueError"
      .list [via, direct]
    | _, _, _, _, _ => err "operand"
  | [.atom "shrink", cfg, am, opd] =>
    -- the shrunk object itself: class, shape, keys, all its elements
    match parseCfg cfg, parseAM am, parseQ opd with
    | some cfg, some am, some x =>
      match shrink dflt cfg am x with
      | some y => obsSx y (.all true) y.obj.shape
      | none => .atom "ValueError"
    | _, _, _ => err "operand"
  | _ => err "c17-op"

end Drv.C17

def main : IO Unit := Drv.runLoop fun x =>
  match x with
  | .list (.atom "c17" :: rest) => Drv.C17.handle rest
  | _ => .atom "bad-op"
