import PMV.Core.Sx
/- the line-protocol loop shared by the per-property model drivers:
   one request line in, one canonical line out -/
namespace Drv
open PMV

partial def loop (handle : Sx → Sx) (h : IO.FS.Stream) (out : IO.FS.Stream) : IO Unit := do
  let line ← h.getLine
  if line.isEmpty then return ()
  let r := match Sx.parse line with
    | some x => handle x
    | none => Sx.atom "parse-error"
  out.putStrLn (toString r)
  loop handle h out

def runLoop (handle : Sx → Sx) : IO Unit := do
  let i ← IO.getStdin
  let o ← IO.getStdout
  loop handle i o
  o.flush

end Drv
