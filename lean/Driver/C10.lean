import Driver.Loop
import PMV.Model.IndexWire
import PMV.Model.SetItem
/- line-protocol handler for the C10 view (item assignment) -/
namespace Drv.C10
open PMV PMV.NpIndex PMV.Index PMV.IndexWire PMV.SetItem

def err (msg : String) : Sx := .list [.atom "driver-error", .atom msg]

def renderObj (q : Obj) : Sx :=
  .list ((indices q.shape).map fun i => if q.mask.bit i then Sx.atom "m" else Sx.ofInt (q.vals i))

/-- `(key base mask)`: a derivative, tagged `base + <main tag>` -/
def parseDerivs (shape : Shape) (tag : Index → Int) (x : Sx) : Option (List (String × Obj)) := do
  let l ← x.toList?
  l.mapM fun d => match d with
    | .list [.atom key, base, m] => do
      let base ← base.toInt?
      let m ← parseMask shape m
      some (key, (⟨shape, fun i => tag i + base, m⟩ : Obj))
    | _ => none

def objToRhs (o : Obj) : Rhs := ⟨o.shape, o.vals, o.mask⟩

def parseStep (t : Nat) : Sx → Option (List Entry × RhsD)
  | .list [ents, rsh, rm, ds] => do
    let es ← parseEntries ents
    let rshape ← rsh.nats?
    let m ← parseMask rshape rm
    let tag : Index → Int := fun i => Int.ofNat (1000 * (t + 1) + ravel rshape i)
    let derivs ← parseDerivs rshape tag ds
    some (es, ⟨⟨rshape, tag, m⟩, derivs.map fun kd => (kd.1, objToRhs kd.2)⟩)
  | _ => none

def insertSorted (kd : String × Obj) : List (String × Obj) → List (String × Obj)
  | [] => [kd]
  | x :: r => if kd.1 < x.1 then kd :: x :: r else x :: insertSorted kd r

def sortDerivs (l : List (String × Obj)) : List (String × Obj) := l.foldr insertSorted []

def renderObjD (q : ObjD) : Sx :=
  .list [renderObj q.main, .list ((sortDerivs q.derivs).map fun kd => .list [.atom kd.1, renderObj kd.2])]

def runSteps : ObjD → List (List Entry × RhsD) → List Sx
  | _, [] => []
  | q, a :: as =>
    match setitemAny q a.1 a.2 with
    | .ok q' => renderObjD q' :: runSteps q' as
    | .indexError => .atom "IndexError" :: runSteps q as
    | .valueError => .atom "ValueError" :: runSteps q as

def handle : List Sx → Sx
  | [.atom "set", sh, m, ds, steps] =>
    match sh.nats? with
    | some shape =>
      let tag : Index → Int := fun i => Int.ofNat (ravel shape i + 1)
      match parseMask shape m, parseDerivs shape tag ds, steps.toList? with
      | some mask, some derivs, some ss =>
        match (ss.zipIdx.map fun (s, t) => parseStep t s).mapM id with
        | some as =>
          let q : ObjD := ⟨⟨shape, tag, mask⟩, derivs⟩
          .list (renderObjD q :: runSteps q as)
        | none => err "step"
      | _, _, _ => err "operand"
    | none => err "shape"
  | _ => err "c10-op"

end Drv.C10

def main : IO Unit := Drv.runLoop fun x =>
  match x with
  | .list (.atom "c10" :: rest) => Drv.C10.handle rest
  | _ => .atom "bad-op"
