import Driver.Loop
import PMV.Model.IndexWire
import PMV.Model.SetItem
/- line-protocol handler for the C10 view (item assignment) -/
namespace Drv.C10
open PMV PMV.NpIndex PMV.Index PMV.IndexWire PMV.SetItem

def err (msg : String) : Sx := .list [.atom "driver-error", .atom msg]

def renderObj (q : Obj) : Sx :=
  .list ((indices q.shape).map fun i => if q.mask.bit i then Sx.atom "m" else Sx.ofInt (q.vals i))

def parseStep (t : Nat) : Sx → Option (List Entry × Rhs)
  | .list [ents, rsh, rm] => do
    let es ← parseEntries ents
    let rshape ← rsh.nats?
    let m ← parseMask rshape rm
    some (es, ⟨rshape, fun i => Int.ofNat (1000 * (t + 1) + ravel rshape i), m⟩)
  | _ => none

def runSteps : Obj → List (List Entry × Rhs) → List Sx
  | _, [] => []
  | q, a :: as =>
    match setitem q a.1 a.2 with
    | .ok q' => renderObj q' :: runSteps q' as
    | .indexError => .atom "IndexError" :: runSteps q as
    | .valueError => .atom "ValueError" :: runSteps q as

def handle : List Sx → Sx
  | [.atom "set", sh, m, steps] =>
    match sh.nats? with
    | some shape =>
      match parseMask shape m, steps.toList? with
      | some mask, some ss =>
        match (ss.zipIdx.map fun (s, t) => parseStep t s).mapM id with
        | some as =>
          let q : Obj := ⟨shape, fun i => Int.ofNat (ravel shape i + 1), mask⟩
          .list (renderObj q :: runSteps q as)
        | none => err "step"
      | _, _ => err "operand"
    | none => err "shape"
  | _ => err "c10-op"

end Drv.C10

def main : IO Unit := Drv.runLoop fun x =>
  match x with
  | .list (.atom "c10" :: rest) => Drv.C10.handle rest
  | _ => .atom "bad-op"
