import Driver.Util
import Driver.Loop
import PMV.Model.Reduce
/- line-protocol handlers for the C13 view (reductions and ordering operations) -/
namespace Drv.C13
open PMV PMV.Reduce Drv

def parseAxis : Sx → Option Axis
  | .atom "N" => some .none
  | .list (.atom "t" :: l) => (l.mapM Sx.toInt?).map .tup
  | x => x.toInt?.map .int

def repOf : MaskRep → Rep
  | .scalar b => .scalar b
  | .array _ => .array

def errSx : Err → Sx
  | .index => .atom "IndexError"
  | .value => .atom "ValueError"
  | .type => .atom "TypeError"

def M : Sx := .atom "M"

/-- a fraction in lowest terms -/
def fracSx (p : Int × Nat) : Sx :=
  let g := Nat.gcd p.1.natAbs p.2
  if g == 0 then .list [Sx.ofInt p.1, Sx.ofNat p.2]
  else .list [Sx.ofInt (p.1 / (g : Int)), Sx.ofNat (p.2 / g)]

def elemsSx (a : Arr (Out Sx)) : Sx :=
  .list (a.toList.map fun r => match obs r with | none => M | some v => v)

def outArr (a : Arr (Out Sx)) : Sx := .list [Sx.ofNats a.shape, elemsSx a]

def mapOut {β : Type} (f : β → Sx) (r : Arr (Out β)) : Arr (Out Sx) :=
  ⟨r.shape, fun i => (f (r.get i).1, (r.get i).2)⟩

def mapRes {β : Type} (f : β → Sx) : Except Err (Arr (Out β)) → Except Err (Arr (Out Sx))
  | .error e => .error e
  | .ok a => .ok (mapOut f a)

def outRes : Except Err (Arr (Out Sx)) → Sx
  | .error e => errSx e
  | .ok a => outArr a

def cellArr (shape : Shape) (vals : Array Int) (mask : MaskRep) : Arr (Cell Int) :=
  ⟨shape, fun i => ⟨vals[ravel shape i]!, mask.at shape i⟩⟩

def vcellArr (shape : Shape) (isz : Nat) (vals : Array Int) (mask : MaskRep) : Arr (Cell (List Int)) :=
  ⟨shape, fun i => ⟨itemAt vals shape isz i, mask.at shape i⟩⟩

def bcellArr (shape : Shape) (vals : Array Bool) (mask : MaskRep) : Arr (Cell Bool) :=
  ⟨shape, fun i => ⟨vals[ravel shape i]!, mask.at shape i⟩⟩

def vfracSx (p : List Int × Nat) : Sx := .list (p.1.map fun n => fracSx (n, p.2))

/-- the eight Scalar reductions; `none` = unknown name -/
def runRed (name : String) (a : Arr (Cell Int)) (rep : Rep) (axis : Axis) (minval maxval : Int) :
    Option (Except Err (Arr (Out Sx))) :=
  -- float data are recognisable by the size of the +inf code (integer dtypes stop at 2^64)
  let isFloat := decide (maxval > 2 ^ 100)
  let sat := fun (x : Int) => Sx.ofInt (ieeeSat isFloat maxval x)
  match name with
  | "sum" => some (mapRes sat (sumCode 1 a axis))
  | "mean" => some (mapRes (fun p => fracSx (ieeeSatFrac isFloat maxval p)) (meanCode 1 a axis))
  | "max" => some (mapRes Sx.ofInt (maxCode minval 1 a axis))
  | "min" => some (mapRes Sx.ofInt (minCode maxval 1 a axis))
  | "argmax" => some (mapRes Sx.ofNat (argmaxCode minval a axis))
  | "argmin" => some (mapRes Sx.ofNat (argminCode maxval a axis))
  | "median" => some (mapRes sat (medianCode maxval 2 a axis))
  | "sort" => some (mapRes Sx.ofInt (sortCode maxval rep a axis))
  | _ => none

def kindOf (name : String) : OpKind :=
  if name == "argmax" || name == "argmin" then .index
  else if name == "any" || name == "all" then .bool else .value

/-- result with units and the optional `builtins=True` conversion.
    `units`: `-` or a name; `bi`: `-` (no conversion) | `B` (builtins=True) | `S` (… and masked=<sentinel>) -/
def earlyReturn (name : String) : Bool :=
  name == "max" || name == "min" || name == "argmax" || name == "argmin" || name == "median"

def finish (name : String) (units : String) (bi0 : String) (operandSize : Nat) : Except Err (Arr (Out Sx)) → Sx
  | .error e => errSx e
  | .ok r =>
    let bi := if builtinsApplies (earlyReturn name) operandSize then bi0 else "-"
    let u : Option String := resultUnits (kindOf name) (if units == "-" then none else some units)
    let uSx : Sx := .atom (u.getD "-")
    let objSx : Sx := .list [.atom "obj", Sx.ofNats r.shape, elemsSx r, uSx]
    if bi == "-" then objSx
    else
      match asBuiltin u.isSome (bi == "S") r with
      | .py v => .list [.atom "py", v]
      | .obj _ => objSx
      | .maskedArg => .atom (if bi == "S" then "sentinel" else "None")

def parseOperands (shapeOf : Sx → Option Shape) (ops : List Sx) : Option (List (Arr (Cell Int))) :=
  ops.mapM fun o =>
    match o with
    | .list [sh, v, m] =>
      match shapeOf sh, v.ints?, parseMask m with
      | some shape, some v, some m => some (cellArr shape v.toArray m)
      | _, _, _ => none
    | _ => none

def handle : List Sx → Sx
  | [.atom "red", .atom name, sh, vs, m, ax, mn, mx] =>
    match sh.nats?, vs.ints?, parseMask m, parseAxis ax, mn.toInt?, mx.toInt? with
    | some shape, some vals, some mask, some axis, some minval, some maxval =>
      match runRed name (cellArr shape vals.toArray mask) (repOf mask) axis minval maxval with
      | some r => outRes r
      | none => err "reduction"
    | _, _, _, _, _, _ => err "operand"
  | [.atom "ured", .atom name, sh, vs, m, ax, mn, mx, .atom units, .atom bi] =>
    match sh.nats?, vs.ints?, parseMask m, parseAxis ax, mn.toInt?, mx.toInt? with
    | some shape, some vals, some mask, some axis, some minval, some maxval =>
      match runRed name (cellArr shape vals.toArray mask) (repOf mask) axis minval maxval with
      | some r => finish name units bi (size shape) r
      | none => err "reduction"
    | _, _, _, _, _, _ => err "operand"
  | [.atom "vred", .atom name, sh, isz, vs, m, ax] =>
    match sh.nats?, isz.toNat?, vs.ints?, parseMask m, parseAxis ax with
    | some shape, some isz, some vals, some mask, some axis =>
      let a := vcellArr shape isz vals.toArray mask
      let dflt := List.replicate isz 1
      match name with
      | "sum" => outRes (mapRes Sx.ofInts (vSumCode isz dflt a axis))
      | "mean" => outRes (mapRes vfracSx (vMeanCode isz dflt a axis))
      | _ => err "reduction"
    | _, _, _, _, _ => err "operand"
  | [.atom "dred", .atom name, sh, vs, m, ax, ds] =>
    match sh.nats?, vs.ints?, parseMask m, parseAxis ax, ds.toList? with
    | some shape, some vals, some mask, some axis, some ds =>
      let a := cellArr shape vals.toArray mask
      let derivs : Option (List (Arr (Cell Int))) := ds.mapM fun d =>
        match d with
        | .list [dv, dm] =>
          match dv.ints?, parseMask dm with
          | some dv, some dm => some (cellArr shape dv.toArray dm)
          | _, _ => none
        | _ => none
      match derivs with
      | none => err "derivs"
      | some derivs =>
        match name with
        | "sum" =>
          match sumWithDerivs 1 a derivs axis with
          | .error e => errSx e
          | .ok (r, dr) => .list [outArr (mapOut Sx.ofInt r), .list (dr.map fun d => outRes (mapRes Sx.ofInt d))]
        | "mean" =>
          match meanWithDerivs 1 a derivs axis with
          | .error e => errSx e
          | .ok (r, dr) => .list [outArr (mapOut fracSx r), .list (dr.map fun d => outRes (mapRes fracSx d))]
        | _ => err "reduction"
    | _, _, _, _, _ => err "operand"
  | [.atom "bred", .atom name, sh, vs, m, ax] =>
    match sh.nats?, vs.bools?, parseMask m, parseAxis ax with
    | some shape, some vals, some mask, some axis =>
      let a := bcellArr shape vals.toArray mask
      match name with
      | "any" => outRes (mapRes Sx.ofBool (anyCode (repOf mask) a axis))
      | "all" => outRes (mapRes Sx.ofBool (allCode (repOf mask) a axis))
      | _ => err "reduction"
    | _, _, _, _ => err "operand"
  | [.atom "ubred", .atom name, sh, vs, m, ax, .atom bi] =>
    match sh.nats?, vs.bools?, parseMask m, parseAxis ax with
    | some shape, some vals, some mask, some axis =>
      let a := bcellArr shape vals.toArray mask
      match name with
      | "any" => finish name "-" bi (size shape) (mapRes Sx.ofBool (anyCode (repOf mask) a axis))
      | "all" => finish name "-" bi (size shape) (mapRes Sx.ofBool (allCode (repOf mask) a axis))
      | _ => err "reduction"
    | _, _, _, _ => err "operand"
  | [.atom "maxmin", .atom name, sh, ops] =>
    -- operands already broadcast to the common shape `sh`; each is (vals mask-bits)
    match sh.nats?, ops.toList? with
    | some shape, some ops =>
      match parseOperands (fun _ => some shape) (ops.map fun o =>
          match o with | .list [v, m] => .list [.list [], v, m] | x => x) with
      | none => err "operand"
      | some arrs =>
        let f := if name == "maximum" then maximumCode else minimumCode
        if arrs.isEmpty then .atom "ValueError"
        else
          let res : Arr (Out Sx) := ⟨shape, fun i =>
            match f (arrs.map fun a => a.get i) with
            | some c => (Sx.ofInt c.v, c.m)
            | none => (Sx.ofInt 0, true)⟩
          outArr res
    | _, _ => err "operand"
  | [.atom "maxmin2", .atom name, ops, .atom units] =>
    -- operands with their own shapes: ((shape) (vals) mask); `Qube.broadcast` is in the model
    match ops.toList? with
    | some ops =>
      match parseOperands Sx.nats? ops with
      | none => err "operand"
      | some arrs =>
        match maximumArr (if name == "maximum" then maximumCode else minimumCode) arrs with
        | .error e => errSx e
        | .ok r =>
          let u : Option String := resultUnits .value (if units == "-" then none else some units)
          .list [.atom "obj", Sx.ofNats r.shape,
                 elemsSx ⟨r.shape, fun i => (Sx.ofInt (r.get i).v, (r.get i).m)⟩, .atom (u.getD "-")]
    | none => err "operand"
  | _ => err "c13-op"

end Drv.C13

def main : IO Unit := Drv.runLoop fun x =>
  match x with
  | .list (.atom "c13" :: .atom "multi" :: reqs) =>
    -- several reductions of one operand (the harness runs them on ONE object, in order)
    .list (reqs.map fun r => match r with
      | .list l => Drv.C13.handle l
      | _ => .atom "bad-op")
  | .list (.atom "c13" :: rest) => Drv.C13.handle rest
  | _ => .atom "bad-op"
