import Driver.Util
import Driver.Loop
import PMV.Model.Reduce
/- line-protocol handlers for the C13 view (reductions and ordering operations) -/
namespace Drv.C13
open PMV PMV.Reduce Drv

def parseAxis : Sx → Option Axis
  | .atom "N" => some .none
  | .list (.atom "t" :: l) => (l.mapM Sx.toInt?).map .tup
  | x => x.toInt?.map .int

def repOf : MaskRep → Rep
  | .scalar b => .scalar b
  | .array _ => .array

def errSx : Err → Sx
  | .index => .atom "IndexError"
  | .value => .atom "ValueError"
  | .type => .atom "TypeError"

def M : Sx := .atom "M"

/-- a fraction in lowest terms -/
def fracSx (p : Int × Nat) : Sx :=
  let g := Nat.gcd p.1.natAbs p.2
  if g == 0 then .list [Sx.ofInt p.1, Sx.ofNat p.2]
  else .list [Sx.ofInt (p.1 / (g : Int)), Sx.ofNat (p.2 / g)]

def outArr {β : Type} (f : β → Sx) (a : Arr (Out β)) : Sx :=
  .list [Sx.ofNats a.shape, .list (a.toList.map fun r => match obs r with | none => M | some v => f v)]

def outRes {β : Type} (f : β → Sx) : Except Err (Arr (Out β)) → Sx
  | .error e => errSx e
  | .ok a => outArr f a

def cellArr (shape : Shape) (vals : Array Int) (mask : MaskRep) : Arr (Cell Int) :=
  ⟨shape, fun i => ⟨vals[ravel shape i]!, mask.at shape i⟩⟩

def vcellArr (shape : Shape) (isz : Nat) (vals : Array Int) (mask : MaskRep) : Arr (Cell (List Int)) :=
  ⟨shape, fun i => ⟨itemAt vals shape isz i, mask.at shape i⟩⟩

def bcellArr (shape : Shape) (vals : Array Bool) (mask : MaskRep) : Arr (Cell Bool) :=
  ⟨shape, fun i => ⟨vals[ravel shape i]!, mask.at shape i⟩⟩

def vfracSx (p : List Int × Nat) : Sx := .list (p.1.map fun n => fracSx (n, p.2))

def handle : List Sx → Sx
  | [.atom "red", .atom name, sh, vs, m, ax, mn, mx] =>
    match sh.nats?, vs.ints?, parseMask m, parseAxis ax, mn.toInt?, mx.toInt? with
    | some shape, some vals, some mask, some axis, some minval, some maxval =>
      let a := cellArr shape vals.toArray mask
      match name with
      | "sum" => outRes Sx.ofInt (sumCode 1 a axis)
      | "mean" => outRes fracSx (meanCode 1 a axis)
      | "max" => outRes Sx.ofInt (maxCode minval 1 a axis)
      | "min" => outRes Sx.ofInt (minCode maxval 1 a axis)
      | "argmax" => outRes Sx.ofNat (argmaxCode minval a axis)
      | "argmin" => outRes Sx.ofNat (argminCode maxval a axis)
      | "median" => outRes Sx.ofInt (medianCode maxval 2 a axis)
      | "sort" => outRes Sx.ofInt (sortCode maxval (repOf mask) a axis)
      | _ => err "reduction"
    | _, _, _, _, _, _ => err "operand"
  | [.atom "vred", .atom name, sh, isz, vs, m, ax] =>
    match sh.nats?, isz.toNat?, vs.ints?, parseMask m, parseAxis ax with
    | some shape, some isz, some vals, some mask, some axis =>
      let a := vcellArr shape isz vals.toArray mask
      let dflt := List.replicate isz 1
      match name with
      | "sum" => outRes Sx.ofInts (vSumCode isz dflt a axis)
      | "mean" => outRes vfracSx (vMeanCode isz dflt a axis)
      | _ => err "reduction"
    | _, _, _, _, _ => err "operand"
  | [.atom "dred", .atom name, sh, vs, m, ax, ds] =>
    match sh.nats?, vs.ints?, parseMask m, parseAxis ax, ds.toList? with
    | some shape, some vals, some mask, some axis, some ds =>
      let a := cellArr shape vals.toArray mask
      let derivs : Option (List (Arr (Cell Int))) := ds.mapM fun d =>
        match d with
        | .list [dv, dm] =>
          match dv.ints?, parseMask dm with
          | some dv, some dm => some (cellArr shape dv.toArray dm)
          | _, _ => none
        | _ => none
      match derivs with
      | none => err "derivs"
      | some derivs =>
        match name with
        | "sum" =>
          match sumWithDerivs 1 a derivs axis with
          | .error e => errSx e
          | .ok (r, dr) => .list [outArr Sx.ofInt r, .list (dr.map (outRes Sx.ofInt))]
        | "mean" =>
          match meanWithDerivs 1 a derivs axis with
          | .error e => errSx e
          | .ok (r, dr) => .list [outArr fracSx r, .list (dr.map (outRes fracSx))]
        | _ => err "reduction"
    | _, _, _, _, _ => err "operand"
  | [.atom "bred", .atom name, sh, vs, m, ax] =>
    match sh.nats?, vs.bools?, parseMask m, parseAxis ax with
    | some shape, some vals, some mask, some axis =>
      let a := bcellArr shape vals.toArray mask
      match name with
      | "any" => outRes Sx.ofBool (anyCode (repOf mask) a axis)
      | "all" => outRes Sx.ofBool (allCode (repOf mask) a axis)
      | _ => err "reduction"
    | _, _, _, _ => err "operand"
  | [.atom "maxmin", .atom name, sh, ops] =>
    -- operands already broadcast to the common shape `sh`; each is (vals mask-bits)
    match sh.nats?, ops.toList? with
    | some shape, some ops =>
      let arrs : Option (List (Arr (Cell Int))) := ops.mapM fun o =>
        match o with
        | .list [v, m] =>
          match v.ints?, parseMask m with
          | some v, some m => some (cellArr shape v.toArray m)
          | _, _ => none
        | _ => none
      match arrs with
      | none => err "operand"
      | some arrs =>
        let f := if name == "maximum" then maximumCode else minimumCode
        if arrs.isEmpty then .atom "ValueError"
        else
          let res : Arr (Out Int) := ⟨shape, fun i =>
            match f (arrs.map fun a => a.get i) with
            | some c => (c.v, c.m)
            | none => (0, true)⟩
          outArr Sx.ofInt res
    | _, _ => err "operand"
  | _ => err "c13-op"

end Drv.C13

def main : IO Unit := Drv.runLoop fun x =>
  match x with
  | .list (.atom "c13" :: rest) => Drv.C13.handle rest
  | _ => .atom "bad-op"
