import Driver.Util
import Driver.Loop
import PMV.Model.Elem
/- line-protocol handlers for the C02 view (element semantics in the trap monad)

   request:  (c02 <op> (<param> …) (<opd> …))
   opd    := ((shape) isz (ints…) <mask>)     values are integers = 8 * value (exact dyadics),
                                              isz components per element; mask := T | F | (bits…)
   answer := (ok (shape) (<elem> …))  |  ValueError  |  (warn <kind>)
   elem   := m  — masked   |  <rational>  — exact value  |  u — unmasked, value not rational
             (for items: (<rational> …))
-/
namespace Drv.C02
open PMV PMV.Elem Drv

/-- exact square root where it exists; otherwise an arbitrary NON-ZERO value (never observed:
    the answer line prints `u` for values that went through libm).  Keeps `sqrt s = 0 ↔ s = 0`. -/
def qsqrt (x : Rat) : Rat :=
  if x ≤ 0 then 0
  else
    let n := x.num.toNat; let d := x.den
    let rn := Nat.sqrt n; let rd := Nat.sqrt d
    if rn * rn == n && rd * rd == d then (rn : Rat) / (rd : Rat) else 1

def fns : Fns Rat where
  sqrt := qsqrt
  log _ := 1
  exp _ := 1
  sin _ := 1
  cos _ := 1
  tan _ := 1
  asin _ := 1
  acos _ := 1
  atan _ := 1
  atan2 _ _ := 1
  powr _ _ := 1
  expMax := 709

def det2 : List Rat → Rat
  | [a, b, c, d] => a * d - b * c
  | _ => 0
def det3 : List Rat → Rat
  | [a, b, c, d, e, f, g, h, i] => a * (e * i - f * h) - b * (d * i - f * g) + c * (d * h - e * g)
  | _ => 0
def inv2 (m : List Rat) : List Rat :=
  match m with
  | [a, b, c, d] => let t := det2 m; [d / t, -b / t, -c / t, a / t]
  | _ => []
def inv3 (m : List Rat) : List Rat :=
  match m with
  | [a, b, c, d, e, f, g, h, i] =>
    let t := det3 m
    [(e * i - f * h) / t, (c * h - b * i) / t, (b * f - c * e) / t,
     (f * g - d * i) / t, (a * i - c * g) / t, (c * d - a * f) / t,
     (d * h - e * g) / t, (b * g - a * h) / t, (a * e - b * d) / t]
  | _ => []
def lapack (n : Nat) : Lapack Rat :=
  if n == 2 then ⟨det2, inv2, [1, 0, 0, 1]⟩ else ⟨det3, inv3, [1, 0, 0, 0, 1, 0, 0, 0, 1]⟩

structure Opd where
  shape : Shape
  isz : Nat
  vals : Array Int
  mask : MaskRep

def parseOpd : Sx → Option Opd
  | .list [sh, isz, vs, m] => do
    let shape ← sh.nats?
    let isz ← isz.toNat?
    let vals ← vs.ints?
    let mask ← parseMask m
    some ⟨shape, isz, vals.toArray, mask⟩
  | _ => none

def q8 (n : Int) : Rat := (n : Rat) / 8

def Opd.cells (o : Opd) : Arr (Cell Rat) :=
  ⟨o.shape, fun i => ⟨q8 o.vals[ravel o.shape i]!, o.mask.at o.shape i⟩⟩
def Opd.vcells (o : Opd) : Arr (VCell Rat) :=
  ⟨o.shape, fun i => ⟨(itemAt o.vals o.shape o.isz i).map q8, o.mask.at o.shape i⟩⟩

def ratSx (r : Rat) : Sx :=
  if r.den == 1 then .atom (toString r.num) else .atom (toString r.num ++ "/" ++ toString r.den)

def warnSx : Warn → Sx
  | .divZero => .list [.atom "warn", .atom "divZero"]
  | .invalid => .list [.atom "warn", .atom "invalid"]
  | .overflow => .list [.atom "warn", .atom "overflow"]

/-- collect an array of trapped results: the first trap in row-major order wins -/
def collect {α} (xs : List (Trap α)) : Trap (List α) :=
  xs.foldr (fun t acc => match t with
    | .ok a => (match acc with | .ok l => .ok (a :: l) | e => e)
    | .warn w => .warn w
    | .raise => .raise) (.ok [])

def cellSx (exact : Bool) (c : Cell Rat) : Sx :=
  if c.m then .atom "m" else if exact then ratSx c.v else .atom "u"
def vcellSx (exact : Bool) (c : VCell Rat) : Sx :=
  if c.m then .atom "m" else if exact then .list (c.vals.map ratSx) else .atom "u"

def outT {α} (shape : Shape) (render : α → Sx) (r : Trap (List α)) : Sx :=
  match r with
  | .ok l => .list [.atom "ok", Sx.ofNats shape, .list (l.map render)]
  | .warn w => warnSx w
  | .raise => .atom "ValueError"

def run1 (f : Cell Rat → Trap (Cell Rat)) (exact : Bool) (a : Opd) : Sx :=
  let arr := a.cells.map f
  outT arr.shape (cellSx exact) (collect arr.toList)

/-- fast paths: `tripped` = the first attempt `func(values)` trips on SOME element (masked or not) -/
def runFast (prim : Rat → Trap Rat) (f : Bool → Cell Rat → Trap (Cell Rat)) (exact : Bool) (a : Opd) : Sx :=
  let tripped := a.cells.toList.any (trips prim)
  run1 (f tripped) exact a

def run2 (f : Cell Rat → Cell Rat → Trap (Cell Rat)) (exact : Bool) (a b : Opd) : Sx :=
  match Arr.map2 f a.cells b.cells with
  | some arr => outT arr.shape (cellSx exact) (collect arr.toList)
  | none => .atom "ValueError"

/-- the exponent as a whole number when it is one -/
def intExp (e : Rat) : Option IntExp :=
  if e.den == 1 then some ⟨decide (e.num < 0), e.num.natAbs⟩ else none

/-- power: exact where the exponent is whole, `u` elsewhere -/
def runPow (zeroD : Bool) (a b : Opd) : Sx :=
  let f := fun (x e : Cell Rat) =>
    let ie := intExp e.v
    let r := if zeroD then pow0D fns 1 x e ie else powArr fns x e ie
    match r with
    | .ok c => Trap.ok (if c.m then Sx.atom "m" else if ie.isSome then ratSx c.v else Sx.atom "u")
    | .warn w => .warn w
    | .raise => .raise
  match Arr.map2 f a.cells b.cells with
  | some arr => outT arr.shape id (collect arr.toList)
  | none => .atom "ValueError"

def parseEasy : String → Option Easy
  | "0" => some .p0 | "1" => some .p1 | "2" => some .p2 | "3" => some .p3 | "4" => some .p4
  | "-1" => some .m1 | "half" => some .half | "mhalf" => some .mhalf | _ => none

def bool? : Sx → Option Bool := Sx.toBool?

def handle : List Sx → Sx
  | [.atom "div_num", .list [c], .list [a]] =>
    match c.toInt?, parseOpd a with
    | some c, some a => run1 (fun x => divByNumber x (q8 c)) true a
    | _, _ => err "operand"
  | [.atom "floordiv_num", .list [c], .list [a]] =>
    match c.toInt?, parseOpd a with
    | some c, some a => run1 (fun x => floordivByNumber x (q8 c)) true a
    | _, _ => err "operand"
  | [.atom "mod_num", .list [c], .list [a]] =>
    match c.toInt?, parseOpd a with
    | some c, some a => run1 (fun x => modByNumber x (q8 c)) true a
    | _, _ => err "operand"
  | [.atom "rdiv_num", .list [c], .list [a]] =>
    match c.toInt?, parseOpd a with
    | some c, some a => run1 (rdivNumber (q8 c)) true a
    | _, _ => err "operand"
  | [.atom "div", .list [], .list [a, b]] =>
    match parseOpd a, parseOpd b with
    | some a, some b => run2 divByScalar true a b
    | _, _ => err "operand"
  | [.atom "floordiv", .list [], .list [a, b]] =>
    match parseOpd a, parseOpd b with
    | some a, some b => run2 floordivByScalar true a b
    | _, _ => err "operand"
  | [.atom "mod", .list [], .list [a, b]] =>
    match parseOpd a, parseOpd b with
    | some a, some b => run2 modByScalar true a b
    | _, _ => err "operand"
  | [.atom "recip", .list [nz], .list [a]] =>
    match bool? nz, parseOpd a with
    | some nz, some a =>
      if nz then runFast (pdiv 1) reciprocalFast true a else run1 (reciprocal false) true a
    | _, _ => err "operand"
  | [.atom "sqrt", .list [ck], .list [a]] =>
    match bool? ck, parseOpd a with
    | some ck, some a =>
      if ck then run1 (sqrt fns true) false a else runFast (psqrt fns) (sqrtFast fns) false a
    | _, _ => err "operand"
  | [.atom "log", .list [ck], .list [a]] =>
    match bool? ck, parseOpd a with
    | some ck, some a =>
      if ck then run1 (log fns true) false a else runFast (plog fns) (logFast fns) false a
    | _, _ => err "operand"
  | [.atom "exp", .list [ck], .list [a]] =>
    match bool? ck, parseOpd a with
    | some ck, some a =>
      if ck then run1 (exp fns true) false a else runFast (pexp fns) (expFast fns) false a
    | _, _ => err "operand"
  | [.atom "arcsin", .list [ck], .list [a]] =>
    match bool? ck, parseOpd a with
    | some ck, some a =>
      if ck then run1 (arcsin fns false true) false a
      else runFast (pasin fns) (arcsinFast fns false) false a
    | _, _ => err "operand"
  | [.atom "arccos", .list [ck], .list [a]] =>
    match bool? ck, parseOpd a with
    | some ck, some a =>
      if ck then run1 (arcsin fns true true) false a
      else runFast (pacos fns) (arcsinFast fns true) false a
    | _, _ => err "operand"
  | [.atom "total1", .list [], .list [a]] =>
    match parseOpd a with
    | some a => run1 (total1 fun _ => 1) false a
    | none => err "operand"
  | [.atom "arctan2", .list [], .list [a, b]] =>
    match parseOpd a, parseOpd b with
    | some a, some b => run2 (arctan2 fns) false a b
    | _, _ => err "operand"
  | [.atom "pow0D", .list [], .list [a, b]] =>
    match parseOpd a, parseOpd b with
    | some a, some b => runPow true a b
    | _, _ => err "operand"
  | [.atom "powArr", .list [], .list [a, b]] =>
    match parseOpd a, parseOpd b with
    | some a, some b => runPow false a b
    | _, _ => err "operand"
  | [.atom "powEasy", .list [.atom k], .list [a]] =>
    match parseEasy k, parseOpd a with
    | some k, some a =>
      run1 (powEasy fns k) (match k with | .half | .mhalf => false | _ => true) a
    | _, _ => err "operand"
  | [.atom "element_div", .list [], .list [a, b]] =>
    match parseOpd a, parseOpd b with
    | some a, some b =>
      match Arr.map2 elementDiv a.vcells b.vcells with
      | some arr => outT arr.shape (vcellSx true) (collect arr.toList)
      | none => .atom "ValueError"
    | _, _ => err "operand"
  | [.atom "vdiv", .list [], .list [a, b]] =>
    match parseOpd a, parseOpd b with
    | some a, some b =>
      match Arr.map2 vdivByScalar a.vcells b.cells with
      | some arr => outT arr.shape (vcellSx true) (collect arr.toList)
      | none => .atom "ValueError"
    | _, _ => err "operand"
  | [.atom "unit", .list [], .list [a]] =>
    match parseOpd a with
    | some a =>
      let arr := a.vcells.map (unit fns)
      outT arr.shape (vcellSx false) (collect arr.toList)
    | none => err "operand"
  | [.atom "norm", .list [], .list [a]] =>
    match parseOpd a with
    | some a =>
      let arr := a.vcells.map (norm fns)
      outT arr.shape (cellSx false) (collect arr.toList)
    | none => err "operand"
  | [.atom "quat_recip", .list [], .list [a]] =>
    match parseOpd a with
    | some a =>
      let arr := a.vcells.map quatReciprocal
      outT arr.shape (vcellSx true) (collect arr.toList)
    | none => err "operand"
  | [.atom "mat_inverse", .list [nz], .list [a]] =>
    match bool? nz, parseOpd a with
    | some nz, some a =>
      let n := if a.isz == 4 then 2 else 3
      let arr := a.vcells.map (matInverse (lapack n) nz)
      outT arr.shape (vcellSx true) (collect arr.toList)
    | _, _ => err "operand"
  -- derivatives: x carries key a (dx), y carries key b (dy); answer = result, d/da, d/db
  | [.atom "div_d", .list [], .list [x, y, dx, dy]] =>
    match parseOpd x, parseOpd y, parseOpd dx, parseOpd dy with
    | some x, some y, some dx, some dy =>
      let r := run2 divByScalar true x y
      let da := run2 divDerivX true dx y
      let xy : Opd → Opd → Option (Arr (Cell Rat × Cell Rat)) := fun p q =>
        Arr.map2 (fun a b => (a, b)) p.cells q.cells
      let db := match xy dy y with
        | some dyy =>
          match Arr.map2 (fun (a : Cell Rat) (p : Cell Rat × Cell Rat) => divDerivY a p.1 p.2)
              x.cells dyy with
          | some arr => outT arr.shape (cellSx true) (collect arr.toList)
          | none => .atom "ValueError"
        | none => .atom "ValueError"
      -- (the shapeless branch of mask_where now assigns into a copy of self, so a shapeless zero
      --  divisor keeps its derivatives: no special case any more)
      .list [r, da, db]
    | _, _, _, _ => err "operand"
  -- `_div_by_number` with derivatives (qube.py): every derivative is `deriv._div_by_number(arg)`, i.e. the
  -- same guarded division of the derivative by the number
  | [.atom "div_num_d", .list [c], .list [x, dx]] =>
    match c.toInt?, parseOpd x, parseOpd dx with
    | some c, some x, some dx =>
      .list [run1 (fun a => divByNumber a (q8 c)) true x, run1 (fun a => divByNumber a (q8 c)) true dx]
    | _, _, _ => err "operand"
  | [.atom "recip_d", .list [], .list [x, dx]] =>
    match parseOpd x, parseOpd dx with
    | some x, some dx => .list [run1 (reciprocal false) true x, run2 reciprocalDeriv true dx x]
    | _, _ => err "operand"
  | [.atom "log_d", .list [], .list [x, dx]] =>
    match parseOpd x, parseOpd dx with
    | some x, some dx => .list [run1 (log fns true) false x, run2 logDeriv true dx x]
    | _, _ => err "operand"
  | [.atom "sqrt_d", .list [], .list [x, dx]] =>
    match parseOpd x, parseOpd dx with
    | some x, some dx => .list [run1 (sqrt fns true) false x, run2 (sqrtDeriv fns) false dx x]
    | _, _ => err "operand"
  | [.atom "arcsin_d", .list [ac], .list [x, dx]] =>
    match bool? ac, parseOpd x, parseOpd dx with
    | some ac, some x, some dx =>
      .list [run1 (arcsin fns ac true) false x, run2 (arcsinDeriv fns ac) false dx x]
    | _, _, _ => err "operand"
  | [.atom "pow_d", .list [e], .list [x, dx]] =>
    match e.toInt?, parseOpd x, parseOpd dx with
    | some e, some x, some dx =>
      let ev : Cell Rat := ⟨q8 e, false⟩
      let zeroD := x.shape.isEmpty
      let val := fun (c : Cell Rat) =>
        if zeroD then pow0D fns 1 c ev (intExp ev.v) else powArr fns c ev (intExp ev.v)
      .list [run1 val false x,
             run2 (fun d c => powDeriv fns zeroD 1 d c ev (intExp (ev.v - 1))) false dx x]
    | _, _, _ => err "operand"
  | [.atom "norm_d", .list [], .list [x, dx]] =>
    match parseOpd x, parseOpd dx with
    | some x, some dx =>
      let v := x.vcells.map (norm fns)
      let d := match Arr.map2 (normDeriv fns) dx.vcells x.vcells with
        | some arr => outT arr.shape (cellSx false) (collect arr.toList)
        | none => .atom "ValueError"
      .list [outT v.shape (cellSx false) (collect v.toList), d]
    | _, _ => err "operand"
  | [.atom "unit_d", .list [], .list [x, dx]] =>
    match parseOpd x, parseOpd dx with
    | some x, some dx =>
      let v := x.vcells.map (unit fns)
      let d := match Arr.map2 (unitDeriv fns) dx.vcells x.vcells with
        | some arr => outT arr.shape (vcellSx false) (collect arr.toList)
        | none => .atom "ValueError"
      .list [outT v.shape (vcellSx false) (collect v.toList), d]
    | _, _ => err "operand"
  | [.atom "qrecip_d", .list [], .list [x, dx]] =>
    match parseOpd x, parseOpd dx with
    | some x, some dx =>
      let v := x.vcells.map quatReciprocal
      let d := match Arr.map2 quatReciprocalDeriv dx.vcells x.vcells with
        | some arr => outT arr.shape (vcellSx false) (collect arr.toList)
        | none => .atom "ValueError"
      .list [outT v.shape (vcellSx true) (collect v.toList), d]
    | _, _ => err "operand"
  | _ => err "c02-op"

end Drv.C02

def main : IO Unit := Drv.runLoop fun x =>
  match x with
  | .list (.atom "c02" :: rest) => Drv.C02.handle rest
  | _ => .atom "bad-op"
