import Driver.C14
open PMV

def handle (x : Sx) : Sx :=
  match x with
  | .list (.atom "echo" :: rest) => .list rest
  | .list (.atom "c14" :: rest) => Drv.C14.handle rest
  | _ => .atom "bad-op"

partial def loop (h : IO.FS.Stream) (out : IO.FS.Stream) : IO Unit := do
  let line ← h.getLine
  if line.isEmpty then return ()
  let r := match Sx.parse line with
    | some x => handle x
    | none => Sx.atom "parse-error"
  out.putStrLn (toString r)
  loop h out

def main : IO Unit := do
  let i ← IO.getStdin
  let o ← IO.getStdout
  loop i o
