import Driver.Util
import Driver.Loop
import PMV.Model.Logic3
/- line-protocol handlers for the C14 view -/
namespace Drv.C14
open PMV PMV.Logic3 Drv

def t3Sx : T3 → Sx
  | .t => .atom "t" | .f => .atom "f" | .m => .atom "m"

def outArr (a : Arr T3) : Sx := .list [Sx.ofNats a.shape, .list (a.toList.map t3Sx)]

/-- operand: `(shape) (bits) mask` -/
structure BOpd where
  shape : Shape
  vals : Array Bool
  mask : MaskRep

def parseB : Sx → Option BOpd
  | .list [sh, vs, m] => do
    let shape ← sh.nats?
    let vals ← vs.bools?
    let mask ← parseMask m
    some ⟨shape, vals.toArray, mask⟩
  | _ => none

def BOpd.arr (o : BOpd) : Arr Cell :=
  ⟨o.shape, fun i => ⟨o.vals[ravel o.shape i]!, o.mask.at o.shape i⟩⟩

def repOf : MaskRep → Rep
  | .scalar b => .scalar b
  | .array _ => .array

structure IOpd where
  shape : Shape
  isz : Nat
  vals : Array Int
  mask : MaskRep
  item : List Nat      -- item shape (numerator and denominator axes); `[isz]` when the request does not carry it

def parseI : Sx → Option IOpd
  | .list [sh, isz, vs, m] => do
    let shape ← sh.nats?
    let isz ← isz.toNat?
    let vals ← vs.ints?
    let mask ← parseMask m
    some ⟨shape, isz, vals.toArray, mask, [isz]⟩
  | .list [sh, isz, vs, m, it] => do
    let shape ← sh.nats?
    let isz ← isz.toNat?
    let vals ← vs.ints?
    let mask ← parseMask m
    let item ← it.nats?
    some ⟨shape, isz, vals.toArray, mask, item⟩
  | _ => none

def maskAll : MaskRep → Bool
  | .scalar b => b
  | .array bits => bits.all id

def tvlCmpSx : TvlCmpRes → Sx
  | .whole c => .list [Sx.ofNats [], .list [t3Sx c.t3]]
  | .elems r => outArr (r.map Cell.t3)

def cmpSx : CmpRes → Sx
  | .whole b => .list [Sx.ofNats [], .list [t3Sx (if b then .t else .f)]]
  | .elems r => .list [Sx.ofNats r.shape, .list (r.toList.map fun b => t3Sx (if b then .t else .f))]

def IOpd.arr (o : IOpd) : Arr ICell :=
  ⟨o.shape, fun i => ⟨itemAt o.vals o.shape o.isz i, o.mask.at o.shape i⟩⟩
def IOpd.narr (o : IOpd) : Arr NCell :=
  ⟨o.shape, fun i => ⟨o.vals[ravel o.shape i]!, o.mask.at o.shape i⟩⟩

def boolArr (a : Arr Bool) : Sx :=
  .list [Sx.ofNats a.shape, .list (a.toList.map fun b => t3Sx (if b then .t else .f))]

def parseOrd : String → Option Logic3.Ord
  | "lt" => some .lt | "le" => some .le | "gt" => some .gt | "ge" => some .ge | _ => none

def handle : List Sx → Sx
  | [.atom "tvl_and", a, b] =>
    match parseB a, parseB b with
    | some a, some b =>
      match Arr.map2 (tvlAndCode a.mask.isOneFalse b.mask.isOneFalse) a.arr b.arr with
      | some r => outArr (r.map Cell.t3)
      | none => .atom "ValueError"
    | _, _ => err "operand"
  | [.atom "tvl_or", a, b] =>
    match parseB a, parseB b with
    | some a, some b =>
      match Arr.map2 (tvlOrCode a.mask.isOneFalse b.mask.isOneFalse) a.arr b.arr with
      | some r => outArr (r.map Cell.t3)
      | none => .atom "ValueError"
    | _, _ => err "operand"
  | [.atom "strict", .atom op, a, b] =>
    let f : Option (Bool → Bool → Bool) := match op with
      | "and" => some (· && ·) | "or" => some (· || ·) | "xor" => some (· ^^ ·) | _ => none
    match f, parseB a, parseB b with
    | some f, some a, some b =>
      match Arr.map2 (strictCode f) a.arr b.arr with
      | some r => outArr (r.map Cell.t3)
      | none => .atom "ValueError"
    | _, _, _ => err "operand"
  | [.atom "not", a] =>
    match parseB a with
    | some a => outArr ((a.arr.map notCode).map Cell.t3)
    | none => err "operand"
  | [.atom "red", .atom red, a, axes] =>
    -- tvl_any | tvl_all | any | all ; axes = normalised, distinct, sorted list of axes
    match parseB a, axes.nats? with
    | some a, some axes =>
      if a.shape.isEmpty then outArr (a.arr.map Cell.t3)      -- "make a copy"
      else
        let rep := repOf a.mask
        let k : Option (List Cell → Cell) := match red with
          | "tvl_any" => some (tvlAnyCode rep) | "tvl_all" => some (tvlAllCode rep)
          | "any" => some (anyCode rep) | "all" => some (allCode rep) | _ => none
        match k with
        | some k => outArr ((a.arr.reduce k axes).map Cell.t3)
        | none => err "reduction"
    | _, _ => err "operand"
  | [.atom "eq", a, b] =>
    match parseI a, parseI b with
    | some a, some b =>
      cmpSx (eqTop a.item b.item a.arr b.arr)
    | _, _ => err "operand"
  | [.atom "ne", a, b] =>
    match parseI a, parseI b with
    | some a, some b =>
      cmpSx (neTop a.item b.item a.arr b.arr)
    | _, _ => err "operand"
  | [.atom "ord", .atom o, a, b] =>
    match parseOrd o, parseI a, parseI b with
    | some o, some a, some b =>
      match Arr.map2 (ordCode o) a.narr b.narr with
      | some r => boolArr r
      | none => .atom "ValueError"
    | _, _, _ => err "operand"
  | [.atom "tvl_ord", .atom o, a, b] =>
    match parseOrd o, parseI a, parseI b with
    | some o, some a, some b =>
      match Arr.map2 (tvlOrdCode o) a.narr b.narr with
      | some r => outArr (r.map Cell.t3)
      | none => .atom "ValueError"
    | _, _, _ => err "operand"
  | [.atom "tvl_eq", a, b] =>
    match parseI a, parseI b with
    | some a, some b =>
      tvlCmpSx (tvlCmpTop true a.item b.item (maskAll a.mask) (maskAll b.mask) a.arr b.arr)
    | _, _ => err "operand"
  | [.atom "tvl_ne", a, b] =>
    match parseI a, parseI b with
    | some a, some b =>
      tvlCmpSx (tvlCmpTop false a.item b.item (maskAll a.mask) (maskAll b.mask) a.arr b.arr)
    | _, _ => err "operand"
  | [.atom "bool", tall, tany, a] =>
    match tall.toBool?, tany.toBool?, parseB a with
    | some tall, some tany, some a =>
      match boolCode tall tany a.shape.isEmpty a.arr.toList with
      | some b => Sx.ofBool b
      | none => .atom "ValueError"
    | _, _, _ => err "operand"
  | _ => err "c14-op"

end Drv.C14

def main : IO Unit := Drv.runLoop fun x =>
  match x with
  | .list (.atom "c14" :: .atom "seq" :: steps) =>
    -- a history: the model is a pure function of the operands, so every step is answered independently
    .list (steps.map fun st => match st with
      | .list l => Drv.C14.handle l
      | _ => .atom "bad-op")
  | .list (.atom "c14" :: rest) => Drv.C14.handle rest
  | _ => .atom "bad-op"
