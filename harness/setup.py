"""MANIFEST.setup_cmd: build, offline and from files on disk only, the Lean targets of every claimed property
(its property/theorem modules and its native model driver).  Properties are built one by one so that a failure in one
does not keep the others from being ready; each check rebuilds its own targets again anyway."""
import ast, json, os, subprocess, sys, time
VERIF = os.path.dirname(os.path.dirname(os.path.abspath(__file__)))
LEAN = os.path.join(VERIF, 'lean')

def lean_modules(pid):
    src = open(os.path.join(VERIF, 'harness', pid.lower() + '.py')).read()
    for node in ast.parse(src).body:
        if isinstance(node, ast.Assign) and len(node.targets) == 1 and getattr(node.targets[0], 'id', None) == 'LEAN_MODULES':
            return list(ast.literal_eval(node.value))
    return ['PMV.Props.' + pid]

def regenerate(m):
    """T2: regenerate every lean/PMV/Gen table from /repo's current source before building, exactly as each check does
    at run time (the committed copies are only a cache and may stem from another tree)."""
    sys.path.insert(0, os.path.join(VERIF, 'harness'))
    import importlib
    for c in m['checks']:
        pid = c['property_id']
        try:
            mod = importlib.import_module(pid.lower())
            if hasattr(mod, 'regen'):
                mod.regen()
        except Exception as e:            # a broken translator is reported by the check itself, not by setup
            print('setup: regen of %s failed: %s' % (pid, e))


def main():
    m = json.load(open(os.path.join(VERIF, 'MANIFEST.json')))
    bad = 0
    regenerate(m)
    targets_all = []
    for c in m['checks']:
        pid = c['property_id']
        targets_all += lean_modules(pid) + ['driver_' + pid.lower()]
    t0 = time.time()
    # one invocation first (parallel across modules); fall back to one-by-one to isolate failures
    p = subprocess.run(['lake', 'build'] + targets_all, cwd=LEAN, stdout=subprocess.PIPE, stderr=subprocess.STDOUT, text=True)
    if p.returncode != 0:
        for c in m['checks']:
            pid = c['property_id']
            q = subprocess.run(['lake', 'build'] + lean_modules(pid) + ['driver_' + pid.lower()], cwd=LEAN,
                               stdout=subprocess.PIPE, stderr=subprocess.STDOUT, text=True)
            if q.returncode != 0:
                bad += 1
                print('setup: build FAILED for', pid)
                print(q.stdout[-3000:])
    print('setup: built %d targets in %.0f s, %d properties failed' % (len(targets_all), time.time() - t0, bad))
    sys.exit(1 if bad else 0)

if __name__ == '__main__':
    main()
