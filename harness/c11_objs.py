"""C11 helpers: building polymath objects from JSON case descriptions, canonical observations of
objects and of pickled states (decoded BELOW the codecs), bit-pattern views."""
import bz2, struct
import numpy as np
import fpzip
import polymath
from polymath import Qube, Scalar, Boolean, Vector, Vector3, Pair, Matrix, Matrix3, Quaternion, Units

CLASSES = {'Scalar': Scalar, 'Boolean': Boolean, 'Vector': Vector, 'Vector3': Vector3, 'Pair': Pair,
           'Matrix': Matrix, 'Matrix3': Matrix3, 'Quaternion': Quaternion}
UNITS = [None, Units.KM, Units.DEG, Units.KM / Units.SECONDS, Units.CM]
CUTOFF = 200


# ------------------------------------------------------------------------------------------ values
def f64_from_bits(b):
    return np.asarray(b, dtype=np.uint64).view(np.float64)


def gen_floats(dist, rng, n):
    """n float64 values of the named distribution (deterministic in rng)"""
    if dist == 'normal':
        return rng.normal(size=n) * 10.
    if dist == 'const':
        return np.full(n, rng.normal() * 100.)
    if dist == 'smooth':
        return np.sin(np.linspace(0., 3., n) + rng.uniform(0, 6)) * rng.uniform(1, 50) + rng.uniform(-5, 5)
    if dist == 'offset':
        return 1.e6 + rng.uniform(0., 1., size=n)
    if dist == 'uniform':
        return rng.uniform(1., 400., size=n)
    if dist == 'moderate':
        return rng.choice([-1., 1.], size=n) * 10. ** rng.uniform(-3, 3, size=n)
    if dist == 'micro':                               # small against a numeric reference of 1: digits beyond 15.65 matter
        return 10. ** rng.uniform(-9, -6) * rng.uniform(1., 7., size=n) * rng.choice([-1., 1.])
    if dist == 'tiny':                                # span far below any numeric reference's precision
        return 10. ** rng.integers(-200, -25) * rng.uniform(1., 7., size=n)
    if dist == 'withzeros':
        a = rng.normal(size=n)
        a[rng.random(n) < 0.3] = 0.
        return a
    if dist == 'wide':
        return rng.choice([-1., 1.], size=n) * 10. ** rng.uniform(-300, 300, size=n)
    if dist == 'zeros':
        return np.zeros(n)
    if dist == 'negzero':
        return np.where(rng.random(n) < 0.5, 0., -0.)
    if dist == 'subnormal':
        b = rng.integers(1, 2 ** 52, size=n, dtype=np.uint64) | (rng.integers(0, 2, size=n, dtype=np.uint64) << np.uint64(63))
        return f64_from_bits(b).copy()
    if dist == 'inf':
        a = rng.normal(size=n)
        k = rng.random(n)
        a[k < 0.2] = np.inf
        a[k > 0.8] = -np.inf
        return a
    if dist == 'nan':
        b = rng.integers(1, 2 ** 52, size=n, dtype=np.uint64) | np.uint64(0x7FF0000000000000) \
            | (rng.integers(0, 2, size=n, dtype=np.uint64) << np.uint64(63))
        a = rng.normal(size=n)
        k = rng.random(n) < 0.4
        a[k] = f64_from_bits(b)[k]
        return a
    if dist == 'bits':
        return f64_from_bits(rng.integers(0, 2 ** 64, size=n, dtype=np.uint64)).copy()
    if dist == 'special':
        pool = np.concatenate([gen_floats(d, rng, n) for d in ('normal', 'negzero', 'subnormal', 'inf', 'nan', 'wide')])
        return pool[rng.integers(0, len(pool), size=n)]
    raise KeyError(dist)


def gen_values(dist, seed, full_shape, dtype):
    rng = np.random.default_rng(seed)
    n = int(np.prod(full_shape, dtype=int))
    final = np.dtype(dtype)
    dt = final.newbyteorder('=')                  # generate natively, store in the requested byte order
    if dt.kind == 'f':
        if dt.itemsize == 8:
            a = gen_floats(dist, rng, n)
        else:
            if dist == 'subnormal':
                a = rng.integers(1, 2 ** 23, size=n, dtype=np.uint32).view(np.float32).copy()
            elif dist in ('nan', 'bits'):
                b = rng.integers(0, 2 ** 32, size=n, dtype=np.uint32)
                b |= np.where((b & np.uint32(0x7F800000)) == np.uint32(0x7F800000), np.uint32(0x00400000), np.uint32(0))   # quiet NaNs only
                a = b.view(np.float32).copy()
            else:
                with np.errstate(over='ignore', under='ignore'):
                    a = gen_floats(dist, rng, n).astype(np.float32)
    elif dt.kind in 'iu':
        info = np.iinfo(dt)
        if dist == 'full':
            a = rng.integers(info.min, info.max, size=n, dtype=dt, endpoint=True)
        elif dist == 'small':
            a = rng.integers(max(info.min, -5), min(info.max, 100), size=n).astype(dt)
        elif dist == 'const':
            a = np.full(n, rng.integers(info.min, info.max, dtype=dt, endpoint=True), dtype=dt)
        elif dist == 'extremes':
            a = rng.choice(np.array([info.min, info.max, 0, 1], dtype=dt), size=n)
        else:
            a = np.zeros(n, dtype=dt)
    else:
        a = (rng.random(n) < {'zeros': 0., 'ones': 1.}.get(dist, 0.5))
    return np.asarray(a, dtype=dt).astype(final).reshape(full_shape)


def layout(a, how, seed):
    """the same values in a different memory layout (provenance of the operand array)"""
    if how == 'F' and a.ndim >= 2:
        return np.asfortranarray(a)
    if how == 'strided' and a.ndim >= 1 and a.shape[0] > 0:
        big = np.zeros((a.shape[0] * 2,) + a.shape[1:], dtype=a.dtype)
        big[::2] = a
        return big[::2]
    if how == 'neg' and a.ndim >= 1:                 # negative stride on the first axis
        return a[::-1].copy()[::-1]
    if how == 'perm01' and a.ndim >= 2:              # axis-permuted view: neither C- nor F-contiguous for rank >= 3
        return np.ascontiguousarray(a.swapaxes(0, 1)).swapaxes(0, 1)
    if how == 'permlast' and a.ndim >= 2:            # last axis moved in from the front
        return np.moveaxis(np.ascontiguousarray(np.moveaxis(a, -1, 0)), 0, -1)
    if how == 'inner' and a.ndim >= 1 and a.shape[-1] > 0:   # inner stride 2 elements
        big = np.zeros(a.shape[:-1] + (a.shape[-1] * 2,), dtype=a.dtype)
        big[..., ::2] = a
        return big[..., ::2]
    return a


VALUE_LAYOUTS = ['C', 'F', 'strided', 'neg', 'perm01', 'permlast', 'inner']


# ------------------------------------------------------------------------------------------ masks
def gen_mask(m, shape):
    """m: 'T' | 'F' | {'pat': name, 'seed': n, ...}; returns a bool or a bool array of `shape`"""
    if m == 'T':
        return True
    if m == 'F':
        return False
    shape = tuple(shape)
    n = int(np.prod(shape, dtype=int))
    rng = np.random.default_rng(m.get('seed', 0))
    pat = m['pat']
    if pat == 'allF':
        return np.zeros(shape, dtype=bool)
    if pat == 'allT':
        return np.ones(shape, dtype=bool)
    if pat == 'random':
        return rng.random(shape) < m.get('p', 0.4)
    if pat == 'holes':
        a = np.zeros(n, dtype=bool)
        if n:
            a[rng.integers(0, n, size=max(1, n // 20))] = True
            a[rng.integers(0, n)] = False
        return a.reshape(shape)
    if pat == 'exact':
        a = np.ones(n, dtype=bool)
        a[rng.permutation(n)[:min(n, m['k'])]] = False
        return a.reshape(shape)
    if pat == 'single':
        a = np.ones(n, dtype=bool)
        if n:
            a[rng.integers(0, n)] = False
        return a.reshape(shape)
    if pat == 'border':
        a = np.ones(shape, dtype=bool)
        sl = []
        for d in shape:
            lo = int(rng.integers(0, max(1, d // 2 + 1)))
            hi = int(rng.integers(min(d, lo + 1), d + 1)) if d else 0
            sl.append(slice(lo, hi))
        inner = rng.random(a[tuple(sl)].shape) < m.get('p', 0.15)
        a[tuple(sl)] = inner
        return a
    if pat == 'axis0':
        a = np.zeros(shape, dtype=bool)
        if shape and shape[0] > 1:
            a[:int(rng.integers(1, shape[0]))] = True
        return a
    if pat == 'bview':                      # broadcast view of a one-row mask: read-only, strides 0
        if len(shape) < 1 or n == 0:
            return np.zeros(shape, dtype=bool)
        row = rng.random((1,) + shape[1:]) < 0.4
        return np.broadcast_to(row, shape)
    raise KeyError(pat)


# ------------------------------------------------------------------------------------------ objects
def build_one(d, shape, parent_mask=None):
    cls = CLASSES[d['cls']]
    numer, denom = tuple(d['numer']), tuple(d['denom'])
    shape = tuple(shape)
    if d.get('single'):
        v = gen_values(d['vdist'], d['vseed'], (), d['dtype'])
        vals = v.item()                     # Python float / int / bool
    else:
        vshape = tuple(d.get('bshape', shape))
        vals = layout(gen_values(d['vdist'], d['vseed'], vshape + numer + denom, d['dtype']), d.get('layout', 'C'), d['vseed'])
        if vshape != shape:
            vals = np.broadcast_to(vals, shape + numer + denom)
    m = d.get('mask', 'F')
    mask = parent_mask if m == 'parent' else gen_mask(m, shape)
    if isinstance(mask, np.ndarray) and m != 'parent' and d.get('mlayout'):
        mask = layout(mask, d['mlayout'], 0)
    kw = {}
    if d.get('units'):
        kw['units'] = UNITS[d['units']]
    if denom:
        kw['drank'] = len(denom)
    if cls in (Vector, Matrix) or denom:
        kw['nrank'] = len(numer)
    if cls is Boolean:
        kw = {}
    return cls(vals, mask, **kw)


def post_op(q, t):
    """operations applied to the finished object before it is pickled (provenance of the object)"""
    rank = len(q._shape_)
    if t == 'swap' and rank >= 2:
        return q.swap_axes(0, -1)
    if t == 'move' and rank >= 2:
        return q.move_axis(0, -1)
    if t == 'slice2' and rank >= 1 and q._shape_[0] >= 2:
        return q[::2]
    if t == 'rev' and rank >= 1:
        return q[::-1]
    if t == 'tail' and rank >= 1 and q._shape_[0] >= 2:
        return q[1:]
    if t == 'reshape' and rank >= 2:
        return q.reshape((q._shape_[0] * q._shape_[1],) + q._shape_[2:])
    if t == 'warm':                                  # warm caches
        q.corners; q.antimask; q._slicer; q.wod
        for d in q._derivs_.values():
            d.antimask; d.corners
        return q
    if t == 'warmshrink' and rank >= 1 and isinstance(q._mask_, np.ndarray):
        q.shrink(q.antimask)
        return q
    return q


POST_OPS = ['swap', 'move', 'slice2', 'rev', 'tail', 'reshape', 'warm', 'warmshrink']


def build(case):
    """the object of a case (fresh arrays on every call)"""
    o = case['obj']
    q = build_one(o, o['shape'])
    if case.get('digits_first') and case.get('digits') is not None:
        q.set_pickle_digits(jsonval(case['digits']), jsonval(case['reference']))
    for d in case.get('derivs', []):
        dq = build_one(d, d.get('dshape', o['shape']), parent_mask=q._mask_)
        if d.get('readonly'):
            dq = dq.as_readonly()
        q.insert_deriv(d['key'], dq)
    for t in case.get('post', []):
        q = post_op(q, t)
    if case.get('digits') is not None and not case.get('digits_first'):
        q.set_pickle_digits(jsonval(case['digits']), jsonval(case['reference']))
    if case.get('readonly'):
        q = q.as_readonly()
    return q


def jsonval(x):
    return tuple(x) if isinstance(x, list) else x


# ------------------------------------------------------------------------------------------ bit patterns
def scalar_bits(x):
    if isinstance(x, (bool, np.bool_)):
        return int(bool(x))
    if isinstance(x, (int, np.integer)):
        return int(x) % (1 << 64)
    return struct.unpack('<Q', struct.pack('<d', float(x)))[0]


def arr_bits(a):
    """flat array of Python ints: binary64 patterns for floats (after exact widening), the
    two's-complement pattern of the array's own width for integers, 0/1 for booleans"""
    a = np.ascontiguousarray(a)
    k = a.dtype.kind
    if k == 'f':
        with np.errstate(invalid='ignore'):
            a = a.astype(np.float64)
        return a.reshape(-1).view(np.uint64)
    if k in 'iu':                                     # the numeric value first (the array may be byte-swapped)
        a = a.astype(a.dtype.newbyteorder('='))
        return a.reshape(-1).view('u%d' % a.dtype.itemsize).astype(np.uint64)
    return a.reshape(-1).astype(np.uint64)


def items_of(a, isz):
    b = arr_bits(a).tolist()
    if isz == 1:
        return [[x] for x in b]
    return [b[i:i + isz] for i in range(0, len(b), isz)]


def is_be(dt):
    """big-endian storage?"""
    import sys
    return dt.itemsize > 1 and (dt.byteorder == '>' or (dt.byteorder == '=' and sys.byteorder == 'big'))


def dtype_sx(v):
    if isinstance(v, np.ndarray):
        dt = v.dtype
        if dt.kind == 'f':
            return 'f'
        if dt.kind == 'b':
            return 'b'
        return ['i', dt.itemsize, dt.kind == 'i', is_be(dt)]
    if isinstance(v, (bool, np.bool_)):
        return 'b'
    if isinstance(v, (int, np.integer)):
        return ['i', 8, True, False]
    return 'f'


def kind_of(v):
    d = dtype_sx(v)
    return d if isinstance(d, str) else 'i'


def default_bits(q_default, isz):
    if isinstance(q_default, np.ndarray):
        return arr_bits(q_default).tolist()
    return [scalar_bits(q_default)] * 1 if isz == 1 else [scalar_bits(q_default)] * isz


def units_idx(u):
    for i, x in enumerate(UNITS):
        if (u is None and x is None) or (u is not None and x is not None and u == x):
            return i
    return 99


def digit_cls(d):
    """'double' / 'single' / a number (tagged with its value in thousandths)"""
    return 'D' if d == 'double' else 'S' if d == 'single' else ['N', int(round(float(d) * 1000))]


def vals_sx(v, isz):
    if isinstance(v, np.ndarray):
        return ['A', list(v.shape), items_of(v, isz)]
    return ['S', scalar_bits(v)]


def mask_sx(m):
    if isinstance(m, np.ndarray):
        return [bool(x) for x in m.ravel()]
    return bool(m)


def flag(a):
    return bool(a.flags.writeable) if isinstance(a, np.ndarray) else '-'


def fz_of(st):
    """did fpzip refuse the values (literal form above the cutoff)?"""
    v = None if st is None else st['_values_']
    return bool(isinstance(v, tuple) and v[0] == 'literal' and v[1].size > CUTOFF)


def obj_sx(q, with_digits, st=None):
    """wire form / canonical observation of one object (without derivatives)"""
    isz = int(np.prod(q._item_, dtype=int))
    res = [type(q).__name__, list(q._shape_), list(q._numer_), list(q._denom_), dtype_sx(q._values_),
           vals_sx(q._values_, isz), mask_sx(q._mask_), units_idx(q._units_), bool(q._readonly_),
           flag(q._values_), flag(q._mask_), default_bits(q._default_, isz)]
    if with_digits:
        d = getattr(q, '_pickle_digits', None)
        vw, mw = res[9], res[10]
        res[9] = vw if vw != '-' else True
        res[10] = mw if mw != '-' else True
        res.append('-' if d is None else [digit_cls(d[0]), digit_cls(d[1])])
        res.append(fz_of(st))
    return res


def qobj_sx(q, with_digits=False, st=None):
    """st: the real state of q (only to read off the data-dependent fpzip outcome)"""
    return [obj_sx(q, with_digits, st),
            [[k, obj_sx(d, with_digits, None if st is None else st['_derivs_'][k][1])] for k, d in q._derivs_.items()]]


# ------------------------------------------------------------------------------------------ states, decoded below the codecs
def step_sx(s):
    if s[0] == 'ALL_MASKED':
        return ['AM']
    if s[0] == 'ANTIMASKED':
        return ['ANTI']
    if s[0] == 'FLOAT':
        return ['FLOAT', digit_cls(s[1])]
    if s[0] == 'INT':
        if len(s) > 2:
            dt = np.dtype(s[2])
            return ['INT', [int(x) for x in s[1]], [dt.itemsize, dt.kind == 'i', is_be(dt)]]
        return ['INT', [int(x) for x in s[1]]]
    if s[0] == 'BOOL':
        return ['BOOL', [int(x) for x in s[1]], int(s[2])]
    if s[0] == 'CORNERS':
        return ['CORNERS', [int(x) for x in s[1][0]], [int(x) for x in s[1][1]]]
    return ['?' + str(s[0])]


def state_vals_sx(v, steps, isz):
    if v is None:
        return 'N'
    if isinstance(v, bytes):
        return ['B', list(bz2.decompress(v))]
    if isinstance(v, tuple):
        dcl = [s for s in steps if s[0] == 'FLOAT'][-1][1]
        if v[0] == 'literal':
            return ['L', list(v[1].shape), items_of(v[1], isz)]
        if v[0] == 'float64' and dcl == 'double':
            arr = fpzip.decompress(v[3]).astype(np.float64).reshape(v[1])
            return ['F64', [int(x) for x in v[1]], int(v[2]), items_of(arr, isz)]
        return ['O', [int(x) for x in v[1]]]
    if isinstance(v, np.ndarray):
        return ['A', list(v.shape), items_of(v, isz)]
    return ['S', scalar_bits(v)]


def state_mask_sx(m):
    if isinstance(m, bytes):
        return ['B', list(bz2.decompress(m))]
    return mask_sx(m)


def st_sx(st, cls):
    isz = int(np.prod(st['_item_'], dtype=int))
    return [cls.__name__, list(st['_shape_']), list(st['_numer_']), list(st['_denom_']), units_idx(st['_units_']),
            bool(st['_readonly_']), default_bits(st['_default_'], isz), kind_of(st['_default_']),
            [digit_cls(st['_pickle_digits'][0]), digit_cls(st['_pickle_digits'][1])],
            state_vals_sx(st['_values_'], st['VALS_ENCODING'], isz), state_mask_sx(st['_mask_']),
            [step_sx(s) for s in st['VALS_ENCODING']], [step_sx(s) for s in st['MASK_ENCODING']]]


def qst_sx(st, cls):
    return [st_sx(st, cls), [[k, st_sx(ds, c)] for k, (c, ds) in st['_derivs_'].items()]]


def strip_int_dtype(st):
    """the state as it was written before the dtype was recorded in the INT step"""
    st['VALS_ENCODING'] = [(s[0], s[1]) if s[0] == 'INT' else s for s in st['VALS_ENCODING']]
    for k, (c, ds) in st['_derivs_'].items():
        strip_int_dtype(ds)
    return st
