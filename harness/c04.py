"""C04 — unmasked results equal the NumPy reference; only leading axes broadcast."""
import itertools, os
import numpy as np
import common as C
import c04_ref as R
from c04_gen import gen_cases            # noqa: F401  (API)

PROP = 'C04'
LEAN_MODULES = ['PMV.Lemmas.Bcast', 'PMV.Lemmas.DispatchRules', 'PMV.Lemmas.DotFull', 'PMV.Props.C04', 'PMV.Props.C04Matrix']
PARALLEL = True
MANIFEST = {
    'text': 'Kernel-checked theorems (PMV/Lemmas/Bcast.lean, DispatchRules.lean, DotFull.lean, PMV/Props/C04.lean, C04Matrix.lean) '
            'about a code-shaped Lean model of the operator dispatch of qube.py:2879-3744 and its overrides: dispatch_spec '
            '(for every operator, every ordered pair of operand kinds and every direct / reflected / Boolean path the code-shaped '
            'dispatch equals a declarative specification on LEADING shapes), reject_iff (raises iff incompatible, with '
            'ValueError/TypeError; accepted results have the NumPy broadcast of the leading shapes and the operand item shape), '
            'value_ref for +,-,*,//,% in every alignment branch and for the matrix path (step-by-step dot = index sum over the '
            'items selected by leading-axis broadcasting), the broadcast loop = NumPy rule, item axes never broadcast, '
            'class/kind rules, reflected = direct for all operators; no bound on rank or axis lengths. Tied to /repo on every '
            'run: the same operands go to the real polymath code and to the compiled model and the canonical observations are '
            'diffed; a plain-NumPy loop reference judges the real code directly.',
    'design': 'DESIGN.md §3 C04, DESIGN.d/C04.md',
    'technique': 'Lean 4 proof (induction over shapes/indices, case analysis over the dispatch table) + model/code '
                 'correspondence + NumPy loop oracle',
    'note': 'Trusted: Lean kernel; hand-written model Model/Dispatch.lean (checked against the code by the correspondence run); '
            'IEEE rounding is not modelled (exact dyadic operands for + - * // %, tolerance 1e-12 in the oracle for / ** and '
            'the math functions). C04Matrix.lean reuses C16\'s dot_eq_einsum.',
}
RULE = ('ordered pairs of operand kinds (8 classes, Python int/float/bool, ndarray, MaskedArray, nested list) x numeric '
        'kinds x leading-shape pairs (compatible or not; quick: a table of trouble spots plus a sample, thorough: all '
        'pairs up to rank 2 with lengths 0-3 for the core cells and a stratified sample of rank 3) x item shapes x '
        'denominators x operators; non-trivial = the leading shapes differ, or an operand has a denominator, or the '
        'operand classes differ; distinct = distinct request line (or case id when the case is oracle-only)')
ASSUMPTIONS = [
    'IEEE rounding is not modelled: theorems are over the integers (exact dyadic operands scaled to integers); '
    'true division, ** and the math functions are compared with relative tolerance 1e-12 in the oracle only',
    'masks are not judged here (C01): positions masked in the result or expected to be masked are not compared',
    'quaternion products, matrix inverse (matrix / matrix), vector norm (abs of a vector) and integer powers of '
    'matrices/quaternions are judged under C16; unit rules of the math functions and unit powers under C12',
    'operand descriptors are well formed (WF): item shape consistent with the class, raw operands carry no units',
    'derivatives and result units are outside this view (C06, C12)',
]
TRUSTED_EXTRA = ['NumPy elementwise arithmetic and broadcasting (the model\'s Arr.map2 / bidx is compared with it on every run)']

TOL = 1e-12
META_ONLY = set(['pow', 'arctan2'] + R.MATHFN)


def scale_of(case):
    return R.EXACT.get(case['op'])


def expected(case):
    if '_ref' not in case:
        case['_ref'] = R.reference(case)
    return case['_ref']


def impl(case):
    blank = R.blank_for(case) if case['op'] != 'bshape' else None
    try:
        r = R.run(case)
    except Exception as e:
        # "rejected with ValueError/TypeError": either class is a rejection (subclasses such as NumPy's UFuncTypeError
        # included); anything else keeps its name and is flagged by the oracle
        return 'Rejected' if isinstance(e, (ValueError, TypeError)) else C.exc_name(e)
    # ** and the math functions: when no element is observable (every position blank) the kind is not reported
    kindless = case['op'] in META_ONLY and all(blank or [])
    return R.observe(r, scale_of(case), blank, kindless)


def sig(case, what):
    def nm(o):
        if o is None:
            return '-'
        return o['cls'] if o['src'] == 'qube' else o['src']
    def derivs(o):
        return bool(o) and bool((o.get('prov') or {}).get('derivs')) and not o.get('denom')
    tag = ':derivs' if derivs(case.get('a')) or derivs(case.get('b')) else ''
    if case['op'] in R.IOPS and not case['a']['shape'] and not case['a'].get('numer') and not case['a'].get('denom'):
        tag += ':single'              # the target holds a single Python value
    return '%s:%s:%s:%s%s' % (case['op'], nm(case.get('a')), nm(case.get('b')), what, tag)


def must_accept_inplace(case):
    """cells where the in-place form is documented to exist: same class on both sides (not Boolean), or a Scalar / Boolean
    object as the right operand of *= /= //= %="""
    a, b = case['a'], case['b']
    if a['cls'] == 'Boolean' or b['src'] != 'qube':
        return False
    if case['op'] in ('iadd', 'isub'):
        return a['cls'] == b['cls']
    if a['cls'] == 'Matrix3':         # "in-place multiplication only works for a Matrix3"
        return case['op'] == 'imul' and b['cls'] == 'Matrix3'
    return b['cls'] in ('Scalar',) or (case['op'] in ('imul',) and a['cls'] == b['cls'] and a['cls'] in ('Matrix', 'Matrix3'))


def direct_form(case):
    """the same expression with the raw operand promoted to the polymath class the operator reads it as"""
    a, b = case['a'], case.get('b')
    if b is None or (a['src'] == 'qube') == (b['src'] == 'qube'):
        return None
    raw, q = (a, b) if b['src'] == 'qube' else (b, a)
    if case['op'] in ('add', 'sub'):
        cls = 'Scalar' if q['cls'] == 'Boolean' else q['cls']
        r = len(q.get('numer', [])) + len(q.get('denom', []))
        dr = len(q.get('denom', []))
    else:
        cls, r, dr = 'Scalar', 0, 0
    full = list(raw['shape'])
    if len(full) < r:
        return None
    promoted = {'src': 'qube', 'cls': cls, 'kind': raw['kind'], 'shape': full[:len(full) - r],
                'numer': full[len(full) - r:len(full) - dr], 'denom': full[len(full) - dr:], 'vals': raw['vals'],
                'mask': 'F', 'units': None}
    if raw['src'] == 'ma' and raw.get('mask', 'F') != 'F':
        fm = np.array(R.mask_bits(raw['mask'], full), dtype=bool).reshape(full)
        lead = full[:len(full) - r]
        promoted['mask'] = [bool(x) for x in (fm.reshape(lead + [R.prod(full[len(lead):])]).any(axis=-1) if r else fm).ravel()]
    d = dict(case)
    d.pop('_ref', None)
    if b['src'] == 'qube':
        d['a'] = promoted
    else:
        d['b'] = promoted
    return d


def compare(case, ref, r):
    """None or a description of how the real result differs from the reference"""
    if not isinstance(r, R.Qube):
        return 'result is a %s, not a polymath object' % type(r).__name__
    if ref['cls'] is not None and type(r).__name__ != ref['cls']:
        return 'class %s, documented rule says %s' % (type(r).__name__, ref['cls'])
    k = R.kind_of(r._values_)
    if ref['kind'] is not None and k != ref['kind']:
        return 'numeric kind %s, rule says %s' % (k, ref['kind'])
    if list(r._shape_) != list(ref['lead']):
        return 'leading shape %s, NumPy broadcasting of the leading shapes gives %s' % (list(r._shape_), ref['lead'])
    if list(r._numer_) != list(ref['numer']) or list(r._denom_) != list(ref['denom']):
        return 'item shape %s/%s, expected %s/%s' % (list(r._numer_), list(r._denom_), ref['numer'], ref['denom'])
    item = list(ref['numer']) + list(ref['denom'])
    n, isz = R.prod(ref['lead']), R.prod(item)
    got = np.broadcast_to(np.asarray(r._values_, dtype=np.float64), tuple(list(ref['lead']) + item)).reshape(n, isz)
    exp = np.asarray(ref['vals'], dtype=np.float64).reshape(n, isz)
    m = R.expanded_mask(r).ravel() | np.array(ref['blank'], dtype=bool).reshape(n)
    exact = case['op'] in R.EXACT
    for i in range(n):
        if m[i]:
            continue
        for j in range(isz):
            g, e = got[i, j], exp[i, j]
            ok = (g == e) if exact else (abs(g - e) <= TOL * max(1.0, abs(e)))
            if not ok:
                idx = np.unravel_index(i, ref['lead']) if ref['lead'] else ()
                return 'value at leading index %s item %d is %r, NumPy reference %r' % (tuple(int(x) for x in idx), j, float(g), float(e))
    return None


def oracle(case):
    ref = R.reference(case)
    exc = None
    try:
        r = R.run(case)
    except Exception as e:
        exc = e
    if exc is not None and not isinstance(exc, (ValueError, TypeError)):
        # whatever the operands, a rejection must be a ValueError or a TypeError
        return (sig(case, 'exception:' + type(exc).__name__),
                '%s raised %s (%s); rejections must be ValueError/TypeError' % (case['op'], type(exc).__name__, str(exc)[:120]))
    if case['op'] == 'bshape':
        if ref[0] == 'reject':
            return None if exc is not None else (sig(case, 'accepted'), 'broadcasted_shape accepted incompatible shapes')
        if exc is not None or list(r) != ref[1]['shape']:
            return (sig(case, 'shape'), 'broadcasted_shape gave %s, NumPy rule %s' % (exc or list(r), ref[1]['shape']))
        return None
    mixed = case.get('b') is not None and (case['a']['src'] == 'qube') != (case['b']['src'] == 'qube')
    inplace = case['op'] in R.IOPS
    if inplace and exc is None and isinstance(r, R.Qube) and not getattr(r, '_c04_same_', True):
        return (sig(case, 'rebound'), '%s returned a new object instead of the target' % case['op'])
    if ref is not None and ref[0] == 'reject':
        if exc is None:
            return (sig(case, 'accepted-incompatible'),
                    '%s produced a result although the operands are incompatible (%s)' % (case['op'], ref[1]))
        return None
    if ref is not None and ref[0] == 'ok':
        if exc is not None:
            if mixed or (inplace and not must_accept_inplace(case)):
                return None          # "whenever both are accepted"
            return (sig(case, 'rejected-compatible:' + type(exc).__name__),
                    '%s rejected compatible operands: %s' % (case['op'], str(exc)[:120]))
        why = compare(case, ref[1], r)
        if why:
            return (sig(case, 'differs'), '%s: %s' % (case['op'], why))
    # an in-place form the reference does not specify (matrix /= matrix, quaternions ...): still "in-place = direct",
    # judged on the real code itself
    if inplace and ref is None and exc is None and isinstance(r, R.Qube):
        d = dict(case, op=R.DIRECT[case['op']])
        d.pop('_ref', None)
        try:
            rd = R.run(d)
        except Exception:
            rd = None
        if isinstance(rd, R.Qube) and rd._shape_ == r._shape_ and rd._item_ == r._item_:
            keep = ~(R.expanded_mask(r) | R.expanded_mask(rd))
            v1 = np.broadcast_to(np.asarray(r._values_, dtype=float), r._shape_ + r._item_)
            v2 = np.broadcast_to(np.asarray(rd._values_, dtype=float), rd._shape_ + rd._item_)
            if not np.allclose(v1[keep], v2[keep], rtol=1e-9, atol=1e-9):
                return (sig(case, 'inplace-vs-direct'), '%s stores values that differ from the direct form' % case['op'])
    # reflected / mixed form against the direct form, on the real code
    if mixed and not inplace and exc is None and (ref is not None or case['op'] not in ('div', 'pow')):
        d = direct_form(case)
        if d is not None:
            try:
                rd = R.run(d)
            except Exception:
                rd = None
            if rd is not None:
                o1, o2 = R.observe(r, scale_of(case)), R.observe(rd, scale_of(case))
                if isinstance(r, R.Qube) and isinstance(rd, R.Qube) and R.expanded_mask(r).all() and R.expanded_mask(rd).all():
                    o1[1] = o2[1] = '-'        # no observable element: the numeric kind is not compared
                if scale_of(case) is None and isinstance(r, R.Qube) and isinstance(rd, R.Qube) and C.sx(o1) == C.sx(o2):
                    m1, m2 = R.expanded_mask(r), R.expanded_mask(rd)
                    v1 = np.broadcast_to(np.asarray(r._values_, dtype=float), r._shape_ + r._item_)
                    v2 = np.broadcast_to(np.asarray(rd._values_, dtype=float), rd._shape_ + rd._item_)
                    keep = ~(m1 | m2)
                    same = bool(np.allclose(v1[keep], v2[keep], rtol=TOL, atol=TOL))
                    if not same:
                        return (sig(case, 'mixed-vs-direct'), 'mixed form and direct form give different values')
                elif C.sx(o1) != C.sx(o2):
                    return (sig(case, 'mixed-vs-direct'),
                            'mixed form gives %s, direct form gives %s' % (C.sx(o1)[:150], C.sx(o2)[:150]))
    return None


def neighbours(case):
    """shrunk variants: drop leading axes, zero the values"""
    out = []
    for key in ('a', 'b'):
        o = case.get(key)
        if o is None:
            continue
        if o['shape']:
            for ax in range(len(o['shape'])):
                if o['shape'][ax] > 1 and o.get('mask', 'F') in ('F', 'T'):
                    arr = np.array(o['vals']).reshape(R.full_shape(o))
                    arr = np.take(arr, [0], axis=ax)
                    n = dict(o, shape=[1 if k == ax else x for k, x in enumerate(o['shape'])], vals=[int(x) for x in arr.ravel()])
                    d = dict(case); d.pop('_ref', None); d[key] = n
                    out.append(d)
    return out
