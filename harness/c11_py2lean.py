"""C11 (T2): effect analysis of `__getstate__` and of every helper it calls, from the SOURCE of /repo.

A small abstract interpreter over the Python AST decides, for every statement that can change an
object (attribute store / delete, item store / delete, augmented assignment, mutating method call,
call of a function that is neither analysed nor on the purity list), whether the object changed
may be (reachable from) the object being pickled.  Abstract values are sets of tags

    EXT   may alias the pickled object or anything reachable from it (arrays, dicts, derivatives)
    SH    a fresh object/container whose CONTENTS may alias EXT (clone(), copies, tuples of arrays)
    NEW   fresh and not sharing

plus, for SH objects, the attributes known to hold NEW values.  Every possible write to an EXT
value becomes an event of the generated table lean/PMV/Gen/PickleEffects.lean; a `decide` theorem
(lean/PMV/Lemmas/PickleEffects.lean) states that all events are `_cache_[<constant key>] = …`
entries, and that the keys are the ones the Lean model writes.  Anything the interpreter does
not understand is an `unsupported` / `unknownCall` event, which makes that theorem fail.

Contracts (not analysed; checked dynamically by the oracle of harness/c11.py on every case):
`Qube.clone(recursive=False)` returns a new object with fresh `_derivs_` and `_cache_` and does
not change its receiver; `Qube.dtype()` is pure.
"""
import ast, os, sys

TARGET = ('pickler', '__getstate__')
EXT, SH, NEW = 'EXT', 'SH', 'NEW'

# calls through a module / builtin name that neither mutate their arguments nor keep them
PURE_GLOBALS = {
    'isinstance', 'hasattr', 'len', 'int', 'float', 'bool', 'max', 'min', 'range', 'enumerate', 'zip', 'repr', 'str',
    'type', 'abs', 'any', 'all', 'sorted', 'slice', 'ValueError', 'TypeError', 'IndexError', 'set', 'dict',
    'np.all', 'np.any', 'np.shape', 'np.min', 'np.max', 'np.abs', 'np.mean', 'np.median', 'np.log', 'np.exp', 'np.prod',
    'np.where', 'np.logical_not', 'np.packbits', 'np.dtype', 'np.log10', 'np.empty', 'np.zeros', 'np.ones', 'np.array',
    'np.isscalar', 'np.isfinite', 'np.isnan', 'np.isinf', 'np.sum', 'np.count_nonzero', 'bz2.compress', 'fpzip.compress', 'warnings.warn', 'Qube.__new__',
}
# … and these may return (a view of) an argument
ALIAS_GLOBALS = {'np.require', 'np.broadcast_to', 'np.asarray', 'np.ravel', 'np.reshape', 'np.swapaxes', 'tuple', 'list',
                 'getattr'}
MUTATORS = {'append', 'extend', 'insert', 'pop', 'remove', 'clear', 'update', 'setdefault', 'popitem', 'sort', 'reverse',
            'fill', 'resize', 'put', 'itemset', 'setflags', 'partition', 'byteswap', '__setitem__', '__delitem__',
            '__setattr__', '__delattr__', 'add', 'discard'}
ALIAS_METHODS = {'reshape', 'ravel', 'view', 'swapaxes', 'transpose', 'squeeze', 'items', 'keys', 'values', 'get'}
COPY_METHODS = {'copy', 'astype', 'tolist', 'tobytes', 'flatten', 'startswith', 'format', 'join', 'split'}
CONTRACT_METHODS = {'clone': 'clone', 'dtype': 'pure'}
CLONE_FRESH = frozenset({'_derivs_', '_cache_'})


class AV:
    __slots__ = ('tags', 'fresh')
    def __init__(self, tags, fresh=frozenset()):
        self.tags = frozenset(tags); self.fresh = frozenset(fresh)
    def join(self, o):
        return AV(self.tags | o.tags, self.fresh & o.fresh if (SH in self.tags and SH in o.tags) else
                  (self.fresh if SH in self.tags and SH not in o.tags and EXT not in o.tags else
                   o.fresh if SH in o.tags and SH not in self.tags and EXT not in self.tags else frozenset()))
    def key(self):
        return (tuple(sorted(self.tags)), tuple(sorted(self.fresh)))
    @property
    def ext(self): return EXT in self.tags
    @property
    def shares(self): return bool(self.tags & {EXT, SH})

NEWV = AV({NEW})
EXTV = AV({EXT})


def contents(av):
    """abstract value of an element / attribute loaded from a container or object"""
    return EXTV if av.shares else NEWV


class Analyzer:
    def __init__(self, root):
        self.funcs = {}          # (module, name) -> FunctionDef ; Qube methods under ('qube', name)
        self.props = set()       # names of @property methods of Qube
        for mod, rel in (('pickler', 'extensions/pickler.py'), ('qube', 'qube.py')):
            tree = ast.parse(open(os.path.join(root, rel)).read())
            for node in tree.body:
                if isinstance(node, ast.FunctionDef):
                    self.funcs[(mod, node.name)] = node
                if isinstance(node, ast.ClassDef) and node.name == 'Qube':
                    for f in node.body:
                        if isinstance(f, ast.FunctionDef):
                            self.funcs[('qube', f.name)] = f
                            if any(isinstance(d, ast.Name) and d.id == 'property' for d in f.decorator_list):
                                self.props.add(f.name)
        self.events = []         # (kind, fn, line, detail)
        self.memo = {}           # (fn key, arg keys) -> (ret AV, unfresh per param)
        self.analysed = []

    # ------------------------------------------------------------------ events
    def ev_(self, kind, fn, node, detail):
        e = (kind, fn, getattr(node, 'lineno', 0), detail)
        if e not in self.events:
            self.events.append(e)

    # ------------------------------------------------------------------ functions
    def call_function(self, fkey, args, kwargs, node, caller, star=None):
        f = self.funcs.get(fkey)
        if f is None:
            self.ev_('unknownCall', caller, node, '.'.join(fkey)); return NEWV
        params = [a.arg for a in f.args.args]
        env = {}
        for i, p in enumerate(params):
            if i < len(args):
                env[p] = args[i]
            elif p in kwargs:
                env[p] = kwargs[p]
            elif star is not None and star.shares:
                env[p] = contents(star)          # may come out of a **mapping
            else:
                env[p] = NEWV                    # default values are literals / fresh
        extra = list(args[len(params):]) + [v for k, v in kwargs.items() if k not in params]
        packed = AV({SH}) if any(a.shares for a in extra + ([star] if star else [])) else NEWV
        if f.args.vararg:
            env[f.args.vararg.arg] = packed
        if f.args.kwarg:
            env[f.args.kwarg.arg] = packed
        if extra and not (f.args.vararg or f.args.kwarg) and any(a.shares for a in extra):
            self.ev_('unsupported', caller, node, 'surplus arguments to ' + fkey[1])
        mk = (fkey, tuple((p, env[p].key()) for p in sorted(env)))
        if mk in self.memo:
            return self.memo[mk]
        self.memo[mk] = NEWV                     # recursion: the recursive activation's events are found by this one
        name = '%s.%s' % fkey
        if name not in self.analysed:
            self.analysed.append(name)
        fr = Frame(self, fkey, name, env)
        fr.block(f.body)
        ret = NEWV
        for r in fr.returns:
            ret = ret.join(r) if ret is not NEWV else r
        self.memo[mk] = ret
        return ret


class Frame:
    def __init__(self, an, fkey, name, env):
        self.an, self.fkey, self.name, self.env, self.returns = an, fkey, name, dict(env), []

    # ---------------------------------------------------------------- expressions
    def dotted(self, e):
        if isinstance(e, ast.Name):
            return e.id
        if isinstance(e, ast.Attribute):
            b = self.dotted(e.value)
            return None if b is None else b + '.' + e.attr
        return None

    def is_global(self, e):
        return isinstance(e, ast.Name) and e.id not in self.env

    def ev(self, e):
        an = self.an
        if e is None or isinstance(e, ast.Constant):
            return NEWV
        if isinstance(e, ast.Name):
            return self.env.get(e.id, NEWV)
        if isinstance(e, ast.Attribute):
            if self.dotted(e) and self.is_global(ast.parse(self.dotted(e).split('.')[0]).body[0].value):
                return NEWV                      # module attribute (np.float64, sys.float_info, …)
            base = self.ev(e.value)
            if e.attr in an.props and base.shares:
                return an.call_function(('qube', e.attr), [base], {}, e, self.name)
            if SH in base.tags and not base.ext and e.attr in base.fresh:
                return NEWV
            return contents(base)
        if isinstance(e, ast.Subscript):
            base = self.ev(e.value); self.ev(e.slice)
            return AV(base.tags) if base.ext else contents(base)
        if isinstance(e, (ast.Tuple, ast.List, ast.Set)):
            vs = [self.ev(x) for x in e.elts]
            return AV({SH}) if any(v.shares for v in vs) else NEWV
        if isinstance(e, ast.Dict):
            vs = [self.ev(x) for x in list(e.keys) + list(e.values) if x is not None]
            return AV({SH}) if any(v.shares for v in vs) else NEWV
        if isinstance(e, ast.Starred):
            return self.ev(e.value)
        if isinstance(e, ast.Slice):
            for x in (e.lower, e.upper, e.step): self.ev(x)
            return NEWV
        if isinstance(e, (ast.BinOp,)):
            self.ev(e.left); self.ev(e.right); return NEWV
        if isinstance(e, ast.UnaryOp):
            self.ev(e.operand); return NEWV
        if isinstance(e, ast.Compare):
            self.ev(e.left); [self.ev(c) for c in e.comparators]; return NEWV
        if isinstance(e, ast.BoolOp):
            r = None
            for v in e.values:
                a = self.ev(v); r = a if r is None else r.join(a)
            return r
        if isinstance(e, ast.IfExp):
            self.ev(e.test); return self.ev(e.body).join(self.ev(e.orelse))
        if isinstance(e, ast.JoinedStr):
            return NEWV
        if isinstance(e, ast.Call):
            return self.call(e)
        an.ev_('unsupported', self.name, e, type(e).__name__)
        return EXTV

    def call(self, e):
        an = self.an
        args = [self.ev(a) for a in e.args]
        kwargs = {k.arg: self.ev(k.value) for k in e.keywords if k.arg}
        star = None
        for k in e.keywords:
            if k.arg is None:
                v = self.ev(k.value)
                star = v if star is None else star.join(v)
        allargs = args + list(kwargs.values()) + ([star] if star is not None else [])
        f = e.func
        name = self.dotted(f)
        # plain function / module function / static method by name
        if name and self.is_global(ast.Name(id=name.split('.')[0])):
            if name in PURE_GLOBALS:
                return NEWV
            if name in ALIAS_GLOBALS:
                return AV({SH}) if name in ('tuple', 'list') and any(a.shares for a in allargs) else \
                    (EXTV if any(a.shares for a in allargs) else NEWV)
            if name == 'setattr' or name == 'delattr':
                self.store_attr(e.args[0], e.args[1].value if isinstance(e.args[1], ast.Constant) else '?',
                                allargs[2] if len(allargs) > 2 else NEWV, e)
                return NEWV
            if (self.fkey[0], name) in an.funcs and '.' not in name:
                return an.call_function((self.fkey[0], name), args, kwargs, e, self.name, star)
            if ('pickler', name) in an.funcs and '.' not in name:
                return an.call_function(('pickler', name), args, kwargs, e, self.name, star)
            if name.startswith('Qube.') and ('qube', name[5:]) in an.funcs:
                return an.call_function(('qube', name[5:]), args, kwargs, e, self.name, star)
            if not any(a.shares for a in allargs):
                return NEWV
            an.ev_('unknownCall', self.name, e, name)
            return EXTV
        # method call on a value
        if isinstance(f, ast.Attribute):
            recv = self.ev(f.value)
            m = f.attr
            if m in MUTATORS:
                if recv.ext:
                    self.item_event(f.value, e, 'mutatorCall', m)
                return NEWV
            if m == '__getstate__':
                return an.call_function(TARGET, [recv], {}, e, self.name)
            if m in CONTRACT_METHODS:
                return AV({SH}, CLONE_FRESH) if CONTRACT_METHODS[m] == 'clone' else NEWV
            if m in ALIAS_METHODS:
                return AV(recv.tags) if recv.shares else NEWV
            if m in COPY_METHODS:
                return AV({SH}) if recv.shares else NEWV
            if ('qube', m) in an.funcs and recv.shares:
                return an.call_function(('qube', m), [recv] + args, kwargs, e, self.name, star)
            if not recv.shares and not any(a.shares for a in allargs):
                return NEWV
            an.ev_('unknownCall', self.name, e, 'method ' + m)
            return EXTV
        an.ev_('unsupported', self.name, e, 'call of ' + type(f).__name__)
        return EXTV

    # ---------------------------------------------------------------- stores
    def item_event(self, container, node, kind, detail):
        """a write into the value of expression `container`, which may be EXT"""
        if isinstance(container, ast.Attribute) and container.attr == '_cache_':
            key = None
            tgt = node if isinstance(node, ast.Subscript) else None
            if tgt is not None and isinstance(tgt.slice, ast.Constant) and isinstance(tgt.slice.value, str):
                key = tgt.slice.value
            if key is not None:
                self.an.ev_('cacheKey', self.name, node, key); return
        self.an.ev_(kind, self.name, node, detail + ' on ' + ast.unparse(container))

    def store_attr(self, obj_expr, attr, val, node):
        obj = self.ev(obj_expr)
        if obj.ext:
            self.an.ev_('attrStore', self.name, node, '%s.%s' % (ast.unparse(obj_expr), attr))
        if isinstance(obj_expr, ast.Name) and SH in obj.tags:
            fresh = set(obj.fresh)
            (fresh.add if not val.shares else fresh.discard)(attr)
            self.env[obj_expr.id] = AV(obj.tags, fresh)

    def store(self, t, val, node):
        if isinstance(t, ast.Name):
            self.env[t.id] = val
        elif isinstance(t, (ast.Tuple, ast.List)):
            for x in t.elts:
                self.store(x, contents(val) if val.shares else NEWV, node)
        elif isinstance(t, ast.Starred):
            self.store(t.value, val, node)
        elif isinstance(t, ast.Attribute):
            self.store_attr(t.value, t.attr, val, node)
        elif isinstance(t, ast.Subscript):
            self.ev(t.slice)
            if self.ev(t.value).ext:
                self.item_event(t.value, t, 'itemStore', 'item assignment')
        else:
            self.an.ev_('unsupported', self.name, node, 'target ' + type(t).__name__)

    # ---------------------------------------------------------------- statements
    def join_env(self, a, b):
        res = {}
        for k in set(a) | set(b):
            res[k] = a[k].join(b[k]) if k in a and k in b else (a.get(k) or b.get(k))
        return res

    def block(self, body):
        for s in body:
            self.stmt(s)

    def branch(self, bodies):
        start = dict(self.env)
        out = None
        for b in bodies:
            self.env = dict(start)
            self.block(b)
            out = dict(self.env) if out is None else self.join_env(out, self.env)
        self.env = out

    def stmt(self, s):
        an = self.an
        if isinstance(s, ast.Assign):
            v = self.ev(s.value)
            for t in s.targets:
                self.store(t, v, s)
        elif isinstance(s, ast.AnnAssign):
            self.store(s.target, self.ev(s.value), s)
        elif isinstance(s, ast.AugAssign):
            self.ev(s.value)
            cur = self.ev(s.target)
            if isinstance(s.target, ast.Name):
                if cur.ext:
                    an.ev_('itemStore', self.name, s, 'augmented assignment to ' + s.target.id)
            else:
                self.store(s.target, NEWV, s)
                if cur.ext:
                    an.ev_('itemStore', self.name, s, 'augmented assignment to ' + ast.unparse(s.target))
        elif isinstance(s, ast.Delete):
            for t in s.targets:
                if isinstance(t, ast.Name):
                    self.env.pop(t.id, None)
                else:
                    self.store(t, NEWV, s)
        elif isinstance(s, ast.Expr):
            self.ev(s.value)
        elif isinstance(s, ast.If):
            self.ev(s.test)
            self.branch([s.body, s.orelse])
        elif isinstance(s, (ast.For, ast.While)):
            if isinstance(s, ast.For):
                it = self.ev(s.iter)
            else:
                self.ev(s.test)
            start = dict(self.env)
            for _ in range(2):                   # twice: values carried round the loop
                if isinstance(s, ast.For):
                    self.store(s.target, contents(it) if it.shares else NEWV, s)
                self.block(s.body)
                self.env = self.join_env(start, self.env)
            self.block(s.orelse)
        elif isinstance(s, ast.Try):
            self.block(s.body)
            after = dict(self.env)
            for h in s.handlers:
                if h.name:
                    self.env[h.name] = NEWV
                self.block(h.body)
                after = self.join_env(after, self.env)
            self.env = after
            self.block(s.orelse); self.block(s.finalbody)
        elif isinstance(s, ast.With):
            for i in s.items:
                v = self.ev(i.context_expr)
                if i.optional_vars is not None:
                    self.store(i.optional_vars, v, s)
            self.block(s.body)
        elif isinstance(s, ast.Return):
            self.returns.append(self.ev(s.value))
        elif isinstance(s, ast.Raise):
            self.ev(s.exc)
        elif isinstance(s, ast.Assert):
            self.ev(s.test)
        elif isinstance(s, ast.Global):
            for n in s.names:
                self.env.pop(n, None)            # a module global: rebinding it does not touch the object
        elif isinstance(s, (ast.Pass, ast.Break, ast.Continue, ast.Import, ast.ImportFrom)):
            pass
        else:
            an.ev_('unsupported', self.name, s, type(s).__name__)


def analyse(root):
    an = Analyzer(root)
    an.call_function(TARGET, [EXTV], {}, ast.Pass(), '<pickle>')
    return an


def lean_str(s):
    return '"' + s.replace('\\', '\\\\').replace('"', '\\"') + '"'


def render(an):
    out = ['/- GENERATED by harness/c11_py2lean.py from polymath/extensions/pickler.py and polymath/qube.py — do not edit.',
           '   Every statement of `__getstate__` and of the %d functions it reaches that may change an object' % len(an.analysed),
           '   reachable from the object being pickled. -/',
           'namespace PMV.Gen.PickleEffects', '',
           'inductive Kind where', '  | cacheKey | attrStore | itemStore | mutatorCall | unknownCall | unsupported',
           '  deriving DecidableEq, Repr', '',
           'structure Ev where', '  kind : Kind', '  fn : String', '  line : Nat', '  detail : String',
           '  deriving DecidableEq, Repr', '',
           'def events : List Ev := [']
    rows = ['  ⟨.%s, %s, %d, %s⟩' % (k, lean_str(fn), line, lean_str(d)) for k, fn, line, d in an.events]
    out.append(',\n'.join(rows))
    out += [']', '', 'def analysed : List String := [' + ', '.join(lean_str(a) for a in an.analysed) + ']', '',
            'end PMV.Gen.PickleEffects', '']
    return '\n'.join(out)


def regen():
    import polymath
    root = os.path.dirname(os.path.abspath(polymath.__file__))
    an = analyse(root)
    here = os.path.dirname(os.path.dirname(os.path.abspath(__file__)))
    path = os.path.join(here, 'lean', 'PMV', 'Gen', 'PickleEffects.lean')
    body = render(an)
    if not os.path.exists(path) or open(path).read() != body:
        open(path, 'w').write(body)
    return {'obligations': len(an.events), 'functions_analysed': len(an.analysed),
            'events': ['%s %s:%d %s' % e for e in an.events]}


if __name__ == '__main__':
    if os.environ.get('PMV_REPO'):
        sys.path.insert(0, os.environ['PMV_REPO'])
    info = regen()
    print(info['functions_analysed'], 'functions;', info['obligations'], 'events')
    for e in info['events']:
        print('  ', e)
