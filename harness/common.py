"""Shared machinery of the checks: Lean build + axiom audit, driver line protocol,
correspondence loop, failing-input search, known findings, evidence.

Exit codes of a check: 0 held on everything explored; 1 violation; 2 infrastructure failure.
"""
import hashlib, json, os, re, subprocess, sys, time, traceback

VERIF = os.path.dirname(os.path.dirname(os.path.abspath(__file__)))
LEAN = os.path.join(VERIF, 'lean')
def driver_path(prop):
    return os.path.join(LEAN, '.lake', 'build', 'bin', 'driver_' + prop.lower())
EVID = os.path.join(VERIF, 'evidence')
REPLAYS = os.path.join(EVID, 'replays')
ALLOWED_AXIOMS = {'propext', 'Classical.choice', 'Quot.sound'}
FORBIDDEN = re.compile(r'\bsorry\b|\badmit\b|^\s*axiom\s|native_decide|bv_decide|implemented_by|'
                       r'\bunsafe\s|maxHeartbeats\s+0\b', re.M)

TRUSTED_BASE = [
    'Lean 4.33.0 kernel (thorough tier: re-checked by leanchecker)',
    'axioms allowed per theorem: propext, Classical.choice, Quot.sound (audited with #print axioms on every run); '
    'no sorry/admit/own axiom/native_decide/bv_decide (source grep on every run)',
    'hand-written Lean model of the code path; tied to /repo by the correspondence check of this run '
    '(same request lines to the real code and to the compiled model; canonical outputs diffed)',
    'harness abstraction (real object -> request line) and canonicaliser (harness/*.py)',
    'NumPy, CPython, libm, LAPACK are modelled, not verified',
]


# --------------------------------------------------------------------------- s-expressions
def sx(o):
    if isinstance(o, bool):
        return 'T' if o else 'F'
    if isinstance(o, (list, tuple)):
        return '(' + ' '.join(sx(x) for x in o) + ')'
    if isinstance(o, str):
        return o
    if isinstance(o, int):
        return str(o)
    try:
        import numpy as np
        if isinstance(o, np.bool_):
            return 'T' if o else 'F'
        if isinstance(o, np.integer):
            return str(int(o))
    except ImportError:
        pass
    raise TypeError('sx: %r' % (o,))


# --------------------------------------------------------------------------- Lean side
def sh(cmd, cwd=None, timeout=3600):
    p = subprocess.run(cmd, cwd=cwd, shell=isinstance(cmd, str), stdout=subprocess.PIPE,
                       stderr=subprocess.STDOUT, text=True, timeout=timeout)
    return p.returncode, p.stdout


def strip_lean_comments(src):
    out, i, depth, n = [], 0, 0, len(src)
    while i < n:
        if src.startswith('/-', i):
            depth += 1; i += 2; continue
        if depth and src.startswith('-/', i):
            depth -= 1; i += 2; continue
        if depth:
            i += 1; continue
        if src.startswith('--', i):
            j = src.find('\n', i)
            i = n if j < 0 else j
            continue
        out.append(src[i]); i += 1
    return ''.join(out)


def lean_sources(roots=None):
    """the Lean files of the project; with `roots` (module names) only their transitive import closure"""
    if roots is None:
        res = []
        for root in ('PMV', 'Driver'):
            for d, _, fs in os.walk(os.path.join(LEAN, root)):
                for f in fs:
                    if f.endswith('.lean'):
                        res.append(os.path.join(d, f))
        return sorted(res)
    seen, todo = set(), list(roots)
    while todo:
        m = todo.pop()
        if m in seen:
            continue
        path = os.path.join(LEAN, m.replace('.', '/') + '.lean')
        if not os.path.exists(path):
            continue
        seen.add(m)
        for line in strip_lean_comments(open(path).read()).splitlines():
            mm = re.match(r'\s*(?:public\s+)?import\s+(?:all\s+)?((?:PMV|Driver)\.[\w.]+)', line)
            if mm:
                todo.append(mm.group(1))
    return sorted(os.path.join(LEAN, m.replace('.', '/') + '.lean') for m in seen)


def grep_forbidden(roots=None):
    hits = []
    for p in lean_sources(roots):
        if '/Audit/' in p:
            continue
        s = strip_lean_comments(open(p).read())
        for m in FORBIDDEN.finditer(s):
            hits.append('%s: %s' % (os.path.relpath(p, LEAN), m.group(0).strip()))
    return hits


def theorems_of(props_file):
    """(namespace-qualified) theorem names declared in a Props file"""
    src = strip_lean_comments(open(props_file).read())
    names, ns = [], []
    for line in src.splitlines():
        m = re.match(r'\s*namespace\s+(\S+)', line)
        if m:
            ns.append(m.group(1)); continue
        m = re.match(r'\s*end\s+(\S+)', line)
        if m and ns and ns[-1] == m.group(1):
            ns.pop(); continue
        m = re.match(r'\s*(?:private\s+|protected\s+)?theorem\s+([^\s:({\[]+)', line)
        if m:
            names.append('.'.join(ns + [m.group(1)]))
    return names


def write_audit(prop, modules):
    names = []
    for mod in modules:
        names += theorems_of(os.path.join(LEAN, mod.replace('.', '/') + '.lean'))
    path = os.path.join(LEAN, 'PMV', 'Audit', prop + '.lean')
    body = ''.join('import %s\n' % m for m in modules) + ''.join('#print axioms %s\n' % n for n in names)
    os.makedirs(os.path.dirname(path), exist_ok=True)
    if not os.path.exists(path) or open(path).read() != body:
        open(path, 'w').write(body)
    return path, names


def lake_build(targets):
    rc, out = sh(['lake', 'build'] + targets, cwd=LEAN)
    return rc, out


def audit(prop, modules):
    """returns (theorem names, {name: axioms}, problems)"""
    path, names = write_audit(prop, modules)
    rc, out = sh(['lake', 'env', 'lean', os.path.relpath(path, LEAN)], cwd=LEAN)
    ax, problems = {}, []
    if rc != 0:
        problems.append('audit file failed to elaborate: ' + out[-2000:])
    flat = re.sub(r'\s+', ' ', out)
    for m in re.finditer(r"'([^']+)' depends on axioms: \[([^\]]*)\]", flat):
        ax[m.group(1)] = [a.strip() for a in m.group(2).split(',') if a.strip()]
    for m in re.finditer(r"'([^']+)' does not depend on any axioms", flat):
        ax[m.group(1)] = []
    for n in names:
        if n not in ax:
            problems.append('no axiom report for ' + n)
        else:
            bad = [a for a in ax[n] if a not in ALLOWED_AXIOMS]
            if bad:
                problems.append('%s depends on %s' % (n, bad))
    return names, ax, problems


def run_driver(prop, lines):
    p = subprocess.run([driver_path(prop)], input='\n'.join(lines) + '\n', stdout=subprocess.PIPE,
                       stderr=subprocess.PIPE, text=True)
    if p.returncode != 0:
        raise RuntimeError('driver failed: ' + p.stderr[-2000:])
    out = p.stdout.split('\n')
    if out and out[-1] == '':
        out.pop()
    if len(out) != len(lines):
        raise RuntimeError('driver returned %d lines for %d requests' % (len(out), len(lines)))
    return out


# --------------------------------------------------------------------------- exceptions
def exc_name(e):
    if isinstance(e, Warning):
        return 'Warn:' + type(e).__name__
    for t in (IndexError, TypeError, ValueError):       # IndexError first (subclass of LookupError)
        if type(e) is t:
            return t.__name__
    return 'Other:' + type(e).__name__


# --------------------------------------------------------------------------- known findings
def load_known():
    """known_findings.json (the consolidated, committed file); while it is not marked consolidated, the per-property
    fragments known_findings.d/*.json are read as well (development)"""
    res, consolidated = [], False
    p = os.path.join(VERIF, 'known_findings.json')
    if os.path.exists(p):
        doc = json.load(open(p))
        res += doc.get('findings', [])
        consolidated = bool(doc.get('consolidated'))
    d = os.path.join(VERIF, 'known_findings.d')
    if os.path.isdir(d) and not (consolidated and not os.environ.get('PMV_FRAGMENTS')):
        for f in sorted(os.listdir(d)):
            if f.endswith('.json'):
                res += json.load(open(os.path.join(d, f))).get('findings', [])
    return res


def match_known(prop, sig, known):
    for k in known:
        if k.get('property') == prop and k.get('status') == 'open' and re.fullmatch(k['signature'], sig or ''):
            return k
    return None


# --------------------------------------------------------------------------- replay files
def write_replay(prop, payload):
    os.makedirs(REPLAYS, exist_ok=True)
    blob = json.dumps(payload, sort_keys=True, default=str)
    h = hashlib.sha1(blob.encode()).hexdigest()[:12]
    path = os.path.join(REPLAYS, '%s-%s.json' % (prop, h))
    with open(path, 'w') as f:
        json.dump(payload, f, indent=1, sort_keys=True, default=str)
    return os.path.relpath(path, VERIF)


def write_evidence(prop, ev):
    os.makedirs(EVID, exist_ok=True)
    with open(os.path.join(EVID, prop + '.json'), 'w') as f:
        json.dump(ev, f, indent=1, default=str)
