"""C05 — one-step correspondence for the modelled primitives (constructor, insert_deriv, clone, setters, pickling ...).

A primitive program is a list of start descriptors and a list of ops; each op is executed on the real pool, and
for each step the model is asked to perform the same op on the DUMPS of the real pool before the step; the object
produced / replaced must have the dump the model predicts (or both must fail)."""
import pickle, warnings
import numpy as np
from polymath import Qube, Scalar, Units
import c05_sweep as S
import c05_dump as D

KNP = {'float': np.float64, 'int': np.int64, 'bool': np.bool_, 'other': np.complex128}


def mk_val(v):
    """['val', isArr, shape, kind, writable] -> Python scalar or ndarray"""
    _, is_arr, shape, kind, writable = v
    if not is_arr:
        return {'float': 1.5, 'int': 2, 'bool': True, 'other': 1j}[kind]
    a = np.ones(tuple(shape), dtype=KNP[kind])
    if not writable:
        a.flags.writeable = False
    return a


def mk_rawmask(m):
    if m == 'bad':
        return 'zz'
    if m[0] == 'bool':
        return m[1]
    _, shape, is_bool, writable = m
    a = np.zeros(tuple(shape), dtype=np.bool_ if is_bool else np.int64)
    if a.size:
        a.ravel()[0] = 1
    if not writable:
        a.flags.writeable = False
    return a


def mk_maskd(m):
    if m == 'none':
        return None
    if m[0] == 'S':
        return m[1]
    if m[0] == 'N':
        return np.bool_(m[1])
    if m[0] == 'A':
        return mk_rawmask(['arr', m[1], m[2], m[3]])
    return 'zz'


def apply_op(pool, op):
    """perform `op` on the real pool.  Returns ('set', i) | ('push', obj) | 'error'"""
    name = op[0]
    try:
        with warnings.catch_warnings():
            warnings.simplefilter('ignore')
            if name == 'ctor':
                _, cls, arg, mask, derivs, units, nrank, drank, ex, dflt = op
                if arg == 'bad':
                    a = 'zz'
                elif arg[0] == 'obj':
                    a = pool[arg[1]]
                else:
                    a = mk_val(arg)
                kw = {}
                kw['mask'] = mk_rawmask(mask)
                kw['derivs'] = None if derivs == 'none' else {k[2:]: pool[i] for k, i in derivs}
                kw['units'] = {'none': None, 'false': False, 'some': Units.KM}[units]
                if nrank != 'none': kw['nrank'] = nrank
                if drank != 'none': kw['drank'] = drank
                if ex != 'none': kw['example'] = pool[ex]
                if dflt != 'none':
                    kw['default'] = mk_val(['val', bool(dflt[0]), dflt[0], dflt[1], True]) if dflt[0] else \
                        {'float': 1.5, 'int': 2, 'bool': True, 'other': 'abc'}[dflt[1]]
                return ('push', S.CLS[cls](a, **kw))
            p = pool[op[1]]
            if name == 'insert_deriv':
                p.insert_deriv(op[2][2:], pool[op[3]], op[4]); return ('set', op[1])
            if name == 'delete_deriv':
                p.delete_deriv(op[2][2:], op[3]); return ('set', op[1])
            if name == 'delete_derivs':
                p.delete_derivs(op[2]); return ('set', op[1])
            if name == 'as_readonly':
                p.as_readonly(); return ('set', op[1])
            if name == 'set_values':
                p._set_values_(mk_val(op[2]), mk_maskd(op[3])); return ('set', op[1])
            if name == 'set_mask':
                p._set_mask_(mk_rawmask(op[2])); return ('set', op[1])
            if name == 'clone':
                return ('push', p.clone(recursive=op[2], preserve=[k[2:] for k in op[3]]))
            if name == 'wod':
                return ('push', p.wod)
            if name == 'without_deriv':
                return ('push', p.without_deriv(op[2][2:]))
            if name == 'copy':
                return ('push', p.copy(recursive=op[2], readonly=op[3]))
            if name == 'as_float':
                return ('push', p.as_float())
            if name == 'broadcast_to':
                return ('push', p.broadcast_to(tuple(op[2])))
            if name == 'pickle':
                return ('push', pickle.loads(pickle.dumps(p)))
            if name == 'deriv':
                return ('push', p._derivs_[op[2][2:]])
    except Exception:
        return 'error'
    raise KeyError(name)


def run_prim(prog, upto=None):
    """execute starts and ops[:upto]; returns (pool, list of results per op)"""
    pool = []
    for s in prog['starts']:
        pool.append(S.mk_start(s))
    results = []
    try:
        for op in prog['ops'][:upto]:
            r = apply_op(pool, op)
            if r != 'error' and r[0] == 'push':
                pool.append(r[1])
            if r != 'error':
                r = (r[0], r[1], D.dump(r[1] if r[0] == 'push' else pool[r[1]]))     # the dump BEFORE str()/repr()
                # observe exactly as gen_prim did: str() of an object with derivatives goes through into_units() ->
                # clone()._set_values_(), which can freeze a mask array shared with the object (no WF matter, but it
                # must happen in the replay too, or the WRITEABLE flags of later dumps differ)
                S.printable(r[1] if r[0] == 'push' else pool[r[1]])
            results.append(r)
    finally:
        S.restore_globals()
    return pool, results


# ------------------------------------------------------------------------------------------------- generation
def rand_val(rng, shape, kind=None, arr=None):
    kind = kind or rng.choice(['float', 'float', 'int', 'bool', 'float', 'other'] if rng.random() < 0.15 else ['float', 'float', 'int', 'bool'])
    is_arr = (rng.random() < 0.8 or bool(shape)) if arr is None else arr
    if not is_arr:
        shape = []
    return ['val', is_arr, list(shape), kind, rng.random() < 0.8 if is_arr else True]


def rand_rawmask(rng, shape):
    r = rng.random()
    if r < 0.35:
        return ['bool', rng.random() < 0.3]
    if r < 0.75 and shape:
        return ['arr', list(shape), rng.random() < 0.85, rng.random() < 0.8]
    if r < 0.85 and shape:
        return ['arr', [1 if i == 0 else s for i, s in enumerate(shape)], True, True]     # broadcastable
    if r < 0.95:
        shp = rng.choice(S.SHAPES)
        # a 0-d non-bool array is turned into a numpy.bool_ by `arg != 0` (its CONTENT decides): only bool 0-d arrays
        return ['arr', shp, rng.random() < 0.85 or not shp, True]
    return 'bad'


def gen_op(rng, pool_dumps):
    """one op on a pool described by its dumps"""
    n = len(pool_dumps)
    p = rng.randrange(n)
    b = pool_dumps[p]
    shape, numer, denom, vshape = b[6], b[7], b[8], b[3]
    key = lambda: D.key_sx(rng.choice(S.KEYS))
    r = rng.random()
    if r < 0.3:
        cls = rng.choice(D.CLASS_NAMES)
        item = S.item_for(rng, cls)
        drank = rng.choice([None, None, None, 0, 1, 2, -1])
        dn = [[], [2], [2, 3]][drank] if drank in (1, 2) else []
        shp = rng.choice(S.SHAPES)
        ra = rng.random()
        if ra < 0.55:
            arg = rand_val(rng, shp + item + dn)
        elif ra < 0.9:
            arg = ['obj', p]
            shp = shape
        elif ra < 0.95:
            arg = rand_val(rng, rng.choice(S.SHAPES))
        else:
            arg = 'bad'
        derivs = 'none'
        if rng.random() < 0.3:
            derivs = [[D.key_sx(k), rng.randrange(n)] for k in rng.sample(S.KEYS, rng.choice([0, 1, 2]))]
        units = rng.choice(['none', 'none', 'none', 'false', 'some'])
        nrank = rng.choice(['none', 'none', 'none', 'none', 0, 1, 2, len(item), -1])
        ex = rng.choice(['none', 'none', rng.randrange(n)])
        dflt = 'none'
        if rng.random() < 0.2:
            dflt = [rng.choice([item + dn, item, [], [2]]), rng.choice(['float', 'int', 'bool', 'other'])]
            if dflt[0] and dflt[1] == 'other':
                dflt[1] = 'float'
        return ['ctor', cls, arg, rand_rawmask(rng, shp), derivs, units, nrank, 'none' if drank is None else drank, ex, dflt]
    if r < 0.45:
        return ['insert_deriv', p, key(), rng.randrange(n), rng.random() < 0.7]
    if r < 0.5:
        return ['delete_deriv', p, key(), rng.random() < 0.5]
    if r < 0.53:
        return ['delete_derivs', p, rng.random() < 0.5]
    if r < 0.58:
        return ['as_readonly', p]
    if r < 0.66:
        # callers' obligations (`setterGuard` of the model): a kind the class permits; read-only values only for an
        # object whose derivatives are read-only already
        c = S.CLS[b[0]]
        ok = [k for k, f in (('float', c.FLOATS_OK), ('int', c.INTS_OK), ('bool', c.BOOLS_OK)) if f]
        kind = b[1] if rng.random() < 0.6 and b[1] in ok else rng.choice(ok)
        may_ro = all(d[20] for _, d in b[22]) and not (b[5][0] == 'A' and not b[5][1])      # (0-d mask arrays stay writable)
        v = ['val', True, vshape, kind, rng.random() < 0.8 or not may_ro] if rng.random() < 0.85 or vshape else ['val', False, [], kind, True]
        if rng.random() < 0.1:
            v = rand_val(rng, rng.choice(S.SHAPES), kind)
            if not may_ro:
                v[4] = True
        rm = rng.random()
        m = 'none' if rm < 0.4 else ['S', rng.random() < 0.3] if rm < 0.55 or not shape else \
            ['A', shape if rng.random() < 0.8 else rng.choice(S.SHAPES[2:]), True, rng.random() < 0.8]
        return ['set_values', p, v, m]
    if r < 0.72:
        return ['set_mask', p, rand_rawmask(rng, shape)]
    if r < 0.78:
        return ['clone', p, rng.random() < 0.5, [D.key_sx(k) for k in rng.sample(S.KEYS, rng.choice([0, 0, 1, 2]))]]
    if r < 0.81:
        return ['wod', p]
    if r < 0.85:
        return ['without_deriv', p, key()]
    if r < 0.9:
        return ['copy', p, rng.random() < 0.6, rng.random() < 0.4]
    if r < 0.93:
        return ['as_float', p]
    if r < 0.96:
        tgt = rng.choice([[2] + shape, [3] + shape, shape, [], rng.choice(S.SHAPES),
                          [2 if s == 1 else s for s in shape]])
        return ['broadcast_to', p, tgt]
    if r < 0.99:
        return ['pickle', p, 'keep', []]          # the collapse parameters are filled in by gen_prim from the contents
    return ['deriv', p, key()]


def collapse_of(o):
    """what __getstate__ will do to the mask, judged from the mask's content"""
    import numbers
    if isinstance(o._values_, (numbers.Real, np.bool_)):
        return 'keep'
    if np.all(o._mask_):
        return True
    if not np.any(o._mask_):
        return False
    return 'keep'


def first_mask_bit_matters(op, pool):
    """broadcast_to(()) turns an array mask into bool(mask.ravel()[0]): which bool is decided by the CONTENT of the
    mask, which the dump-level model does not see (it answers False); such steps are not generated"""
    def bit(o):
        m = o._mask_
        return isinstance(m, np.ndarray) and m.size > 0 and bool(m.ravel()[0])
    if op[0] == 'broadcast_to' and not op[2]:
        o = pool[op[1]]
        return bit(o) or any(bit(d) for d in o._derivs_.values())
    if op[0] == 'insert_deriv':
        return pool[op[1]]._shape_ == () and bit(pool[op[3]])
    if op[0] == 'ctor' and op[4] != 'none':
        return any(bit(pool[i]) for _, i in op[4])
    return False


def stale_cached_wod(op, pool):
    """insert_deriv uses `deriv.wod`, which for an object WITH derivatives is a cached twin; earlier calls may have
    changed that twin (broadcast_to freezes it) without changing the object.  The model has no cache (C18)."""
    def stale(o):
        w = o._cache_.get('wod')
        return w is not None and w is not o and o._derivs_ and D.dump(w)[:22] != D.dump(o)[:22]
    if op[0] == 'insert_deriv':
        return stale(pool[op[3]])
    if op[0] == 'wod':
        return stale(pool[op[1]])
    if op[0] == 'ctor':
        ds = [pool[i] for _, i in op[4]] if op[4] != 'none' else []
        if op[2] != 'bad' and op[2][0] == 'obj':
            ds += list(pool[op[2][1]]._derivs_.values())
        return any(stale(d) for d in ds)
    return False


def mutates_handed_out_derivative(op, pool):
    """in-place operations on an object that IS the derivative of another pool object (obtained with the `deriv`
    op) change that parent behind its back: recorded finding KF-C05-5, exercised by the sweep, not by these programs"""
    if op[0] not in ('insert_deriv', 'delete_deriv', 'delete_derivs', 'as_readonly', 'set_values', 'set_mask'):
        return False
    t = pool[op[1]]
    return any(t is dv for o in pool for dv in o._derivs_.values())


def pickle_shares_arrays(op, pool):
    """pickle keeps the identity of an ndarray object that occurs twice (parent and derivative holding the very same
    array): freezing the read-only one then freezes the other.  Array identity is not part of the dumps."""
    if op[0] != 'pickle':
        return False
    o = pool[op[1]]
    objs = [o] + list(o._derivs_.values())
    arrs = [a for x in objs for a in (x._values_, x._mask_) if isinstance(a, np.ndarray)]
    return len({id(a) for a in arrs}) < len(arrs)


def uses_boolean_as_float(op, dumps):
    """Boolean overrides as_float (returns a Scalar); the model is of Qube.as_float"""
    isb = lambda i: dumps[i][0] == 'Boolean'
    if op[0] == 'as_float':
        return isb(op[1])
    if op[0] == 'insert_deriv':
        return isb(op[3])
    if op[0] == 'ctor':
        return op[4] != 'none' and any(isb(i) for _, i in op[4])
    return False


def gen_prim(rng, nops, table):
    """generate a primitive program by running it (ops are chosen looking at the live dumps).  Returns
    (prog, list of (pool dumps before the step, op, result dump or 'error'))"""
    starts = [S.gen_start(rng, plain=False) for _ in range(rng.choice([1, 2, 2, 3]))]
    starts = [s for s in starts if 'const' not in s] or [S.gen_start(rng, plain=True)]
    prog = {'starts': starts, 'ops': []}
    pool = [S.mk_start(s) for s in starts]
    trace = []
    try:
        for _ in range(nops):
            dumps = [D.dump(o) for o in pool]
            op = gen_op(rng, dumps)
            for _ in range(20):
                if not uses_boolean_as_float(op, dumps) and not first_mask_bit_matters(op, pool) \
                        and not stale_cached_wod(op, pool) and not mutates_handed_out_derivative(op, pool) \
                        and not pickle_shares_arrays(op, pool):
                    break
                op = gen_op(rng, dumps)
            if op[0] == 'pickle':
                o = pool[op[1]]
                op = ['pickle', op[1], collapse_of(o), [[D.key_sx(k), collapse_of(dv)] for k, dv in sorted(o._derivs_.items())]]
            r = apply_op(pool, op)
            prog['ops'].append(op)
            if r == 'error':
                after = [D.dump(o) for o in pool]
                trace.append((dumps, op, 'error', after == dumps))
                if after != dumps:
                    break               # a rejected call changed an operand (C19's business): stop this program here
            else:
                obj = r[1] if r[0] == 'push' else pool[r[1]]
                if r[0] == 'push':
                    pool.append(obj)
                d = D.dump(obj)
                trace.append((dumps, op, d, True))
                if not all(D.clauses(d, table)) or S.printable(obj):
                    break               # an ill-formed result is reported by this step's case; do not build on it
    finally:
        S.restore_globals()
    return prog, trace
