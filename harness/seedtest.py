"""Development tool (not a registered check): apply a seeded mutant to /repo, run the named checks, undo it.
    python3 harness/seedtest.py seeded/C14-a [C14 C03 …] [--tier quick]
Prints, per check, whether the mutant was reported (exit 1 + VIOLATION line)."""
import json, os, subprocess, sys
VERIF = os.path.dirname(os.path.dirname(os.path.abspath(__file__)))

def main():
    args = [a for a in sys.argv[1:] if not a.startswith('--')]
    tier = 'thorough' if '--tier=thorough' in sys.argv else 'quick'
    d = args[0] if os.path.isabs(args[0]) else os.path.join(VERIF, args[0])
    patch = os.path.join(d, 'patch.diff')
    meta = json.load(open(os.path.join(d, 'meta.json')))
    props = args[1:] or [meta['property']]
    # --worktree=<dir>: development mode, apply to a scratch worktree and point the harness at it (PMV_REPO);
    # default: apply to /repo itself (the confirmation mode the brief asks for) and undo straight afterwards
    wt = [a.split('=', 1)[1] for a in sys.argv if a.startswith('--worktree=')]
    repo = wt[0] if wt else '/repo'
    env = dict(os.environ, PMV_REPO=repo) if wt else dict(os.environ)
    if wt:
        subprocess.run(['git', '-C', repo, 'reset', '-q', '--hard', 'main'], check=True)
    assert subprocess.run(['git', '-C', repo, 'status', '--porcelain', '--untracked-files=no'], capture_output=True, text=True).stdout == '', repo + ' is dirty'
    subprocess.run(['git', '-C', repo, 'apply', patch], check=True)
    res = {}
    try:
        for p in props:
            r = subprocess.run([os.path.join(VERIF, 'check'), p, '--tier', tier], cwd=VERIF, capture_output=True, text=True, env=env)
            viol = [l for l in r.stdout.splitlines() if l.startswith('VIOLATION')]
            res[p] = {'exit': r.returncode, 'violations': viol[:5], 'tail': r.stdout.splitlines()[-1:] }
            print(p, 'exit', r.returncode, 'CAUGHT' if r.returncode == 1 and viol else 'MISSED', viol[:3], r.stdout.splitlines()[-1:])
    finally:
        subprocess.run(['git', '-C', repo, 'checkout', '--', '.'], check=True)
    return res

if __name__ == '__main__':
    main()
