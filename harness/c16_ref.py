"""C16 helpers: operand building, canonical observation, request lines, NumPy references and residual oracles.

The direct oracle never mentions the Lean model: expected values come from np.einsum / np.cross / np.linalg.inv on the
expanded operands, identities are residuals evaluated on the real result objects (tolerance TOL), masks are compared
expanded against OR(operand masks) | (positions where the operation is undefined).
"""
import math, string, warnings
from fractions import Fraction
import numpy as np
from absn import *
import common as C
from polymath import Qube

TOL = 1e-10
HALF = Fraction(1, 2)
AXES = ['sxyz', 'sxyx', 'sxzy', 'sxzx', 'syzx', 'syzy', 'syxz', 'syxy', 'szxy', 'szxz', 'szyx', 'szyz',
        'rzyx', 'rxyx', 'ryzx', 'rxzx', 'rxzy', 'ryzy', 'rzxy', 'ryxy', 'ryxz', 'rzxz', 'rxyz', 'rzyz']


# ------------------------------------------------------------------ operands
def full_shape(o):
    return tuple(o['shape']) + tuple(o['numer']) + tuple(o['denom'])

def vals_of(o):
    return np.array(o['vals'], dtype=float).reshape(full_shape(o))

def mbits(o):
    return np.array(mask_bits(o['mask'], o['shape']), dtype=bool).reshape(tuple(o['shape']))

def mk(o):
    """the real polymath object of a wire operand"""
    cls = CLASSES[o['cls']]
    arr = vals_of(o)
    dt = o.get('dtype', 'float')
    if dt == 'int':
        arr = arr.astype(np.int64)           # the generator only marks integer-valued operands
    elif dt == 'bool':
        arr = arr.astype(bool)               # ... and 0/1-valued ones
    if arr.ndim == 0:
        arr = arr.item()
    kw = {'drank': len(o['denom'])} if o['denom'] else {}
    return cls(arr, mk_mask(o['mask'], o['shape']), **kw)

def ratstr(v):
    return str(Fraction(float(v)))

def fmt(x, mode):
    x = float(x)
    if not math.isfinite(x):
        return 'nonfinite'
    if mode == 'q':
        return int(math.floor(Fraction(x) * 65536 + HALF))
    if mode == 'm':
        return '.'                      # shapes and mask only: the values are judged by the oracle with a scaled tolerance
    return ratstr(x)

def opd_sx(o):
    return [list(o['shape']), list(o['numer']), list(o['denom']), [ratstr(v) for v in o['vals']], mask_sx(o['mask'], o['shape'])]

def obs(r, mode='x'):
    """canonical observation of a result object: (shape numer denom values mask), masked elements print '_'"""
    if not isinstance(r, Qube):
        r = Scalar(r)
    shape, numer, denom = tuple(r._shape_), tuple(r._numer_), tuple(r._denom_)
    m = expanded_mask(r).ravel()
    isz = int(np.prod(numer + denom, dtype=int))
    v = np.broadcast_to(np.asarray(r._values_, dtype=float), shape + numer + denom).reshape(len(m), isz)
    out = []
    for row, mk_ in zip(v, m):
        out += ['_'] * isz if mk_ else [fmt(x, mode) for x in row]
    return [list(shape), list(numer), list(denom), out, [bool(x) for x in m]]

def scal(o):
    """Scalar operand of an angle / number"""
    return mk(o)

def sc_opd(o, half=False):
    """wire operand (numer [2]) of (sin, cos) of an angle operand, as libm returns them"""
    a = vals_of(o)
    if half:
        a = 0.5 * a
    s, c = np.sin(a), np.cos(a)
    vals = np.stack([s, c], axis=-1).ravel()
    return [list(o['shape']), [2], [], [ratstr(v) for v in vals], mask_sx(o['mask'], o['shape'])]


# ------------------------------------------------------------------ running the real code
def call(case):
    op = case['op']
    with warnings.catch_warnings():
        warnings.simplefilter('error')
        return _call(case, op)

def _call(case, op):
    via = case.get('via', 'qube')
    if op == 'dot':
        a, b = mk(case['a']), mk(case['b'])
        if via == 'vdot': return a.dot(b)
        if via == 'matmul': return a * b
        if via == 'imatmul':
            a *= b                       # in-place matrix product: judged like a * b, on the object that was updated
            return a
        if via == 'rotate': return a.rotate(b)
        if via == 'unrotate': return a.unrotate(b)
        return Qube.dot(a, b, case['ax1'], case['ax2'])
    if op == 'cross':
        a, b = mk(case['a']), mk(case['b'])
        if via == 'vcross': return a.cross(b)
        return Qube.cross(a, b, case['ax1'], case['ax2'])
    if op == 'outer':
        a, b = mk(case['a']), mk(case['b'])
        if via == 'vouter': return a.outer(b)
        return Qube.outer(a, b)
    if op == 'emul':
        return mk(case['a']).element_mul(mk(case['b']))
    if op == 'ediv':
        return mk(case['a']).element_div(mk(case['b']))
    if op == 'transpose':
        a = mk(case['a'])
        if via == 'transpose': return a.transpose()
        if via == 'T': return a.T
        return a.transpose_numer(case['ax1'], case['ax2'])
    if op == 'normsq':
        a = mk(case['a'])
        if via == 'method': return a.norm_sq()
        return Qube.norm_sq(a, case['ax1'])
    if op == 'norm':
        a = mk(case['a'])
        if via == 'method': return a.norm()
        return Qube.norm(a, case['ax1'])
    if op == 'qmul':
        return mk(case['a']) * mk(case['b'])
    if op == 'qdiv':
        return mk(case['a']) / mk(case['b'])
    if op == 'qconj':
        return mk(case['a']).conj()
    if op == 'qrecip':
        return mk(case['a']).reciprocal()
    if op == 'qtomat':
        return mk(case['a']).to_matrix3()
    if op == 'fromparts':
        return Quaternion.from_parts(mk(case['a']), mk(case['b']))
    if op == 'toparts':
        return mk(case['a']).to_parts()
    if op == 'unit':
        return mk(case['a']).unit()
    if op in ('perp', 'proj', 'sep', 'ucross'):
        return getattr(mk(case['a']), op)(mk(case['b']))
    if op == 'with_norm':
        return mk(case['a']).with_norm(case['n'])
    if op == 'rot':
        ang = mk(case['a'])
        if via == 'x': return Matrix3.x_rotation(ang)
        if via == 'y': return Matrix3.y_rotation(ang)
        if via == 'z': return Matrix3.z_rotation(ang)
        return Matrix3.axis_rotation(ang, case['axis'])
    if op == 'pole':
        return Matrix3.pole_rotation(mk(case['a']), mk(case['b']))
    if op == 'euler':
        return Matrix3.from_euler(mk(case['ai']), mk(case['aj']), mk(case['ak']), case['axes'])
    if op == 'qeuler':
        return Quaternion.from_euler(mk(case['ai']), mk(case['aj']), mk(case['ak']), case['axes'])
    if op == 'inverse':
        a = mk(case['a'])
        if via == 'reciprocal': return a.reciprocal()
        if via == 'rtruediv': return 1.0 / a
        return a.inverse(nozeros=True) if case.get('nozeros') else a.inverse()
    if op == 'mdiv':
        if via == 'idiv':
            a = mk(case['a'])
            a /= mk(case['b'])
            return a
        return mk(case['a']) / mk(case['b'])
    if op == 'mscal':
        a, b = mk(case['a']), mk(case['b'])
        if via == 'mul': return a * b
        if via == 'rmul': return b * a
        if via == 'imul':
            a *= b
            return a
        if via == 'div': return a / b
        if via == 'idiv':
            a /= b
            return a
        raise KeyError(via)
    if op == 'twovec':
        return Matrix3.twovec(mk(case['a']), case['axis1'], mk(case['b']), case['axis2'])
    if op == 'spin':
        return mk(case['a']).spin(mk(case['b']), mk(case['c']))
    if op == 'unitary':
        return mk(case['a']).unitary()
    if op == 'qrot':
        return Quaternion.from_rotation(mk(case['a']), mk(case['b']))
    if op == 'rotinv':
        R = Matrix3.from_euler(mk(case['ai']), mk(case['aj']), mk(case['ak']), case['axes'])
        v = mk(case['b'])
        return R.rotate(R.unrotate(v)) if case.get('rev') else R.unrotate(R.rotate(v))
    if op == 'qm_hom':
        return (mk(case['a']) * mk(case['b'])).to_matrix3()
    if op == 'm2q2m':
        R = Matrix3.from_euler(mk(case['ai']), mk(case['aj']), mk(case['ak']), case['axes'])
        return Quaternion.from_matrix3(R).to_matrix3()
    if op == 'q2m2q':
        return Quaternion.from_matrix3(mk(case['a']).to_matrix3())
    if op == 'm2q':
        return Quaternion.from_matrix3(mk(case['a']))
    if op == 'toeuler':
        m3 = mk(case['a'])
        angs = m3.to_euler(case['axes'])
        # observed as (sin, cos) of the three returned angles: a [3, 2] item per element, mask of the angles
        vals = np.stack([np.stack([np.sin(a._values_), np.cos(a._values_)], axis=-1) for a in angs], axis=-2)
        mask = angs[0]._mask_
        for a in angs[1:]:
            mask = mask | a._mask_
        return Matrix(vals, mask)
    raise KeyError(op)


# ------------------------------------------------------------------ request lines for the model
def request(case):
    op, mode = case['op'], case.get('mode', 'x')
    if op in ('dot', 'cross'):
        ax1, ax2 = case.get('ax1'), case.get('ax2')
        via = case.get('via', 'qube')
        if via in ('vdot', 'vcross'): ax1, ax2 = 0, 0
        if via in ('matmul', 'imatmul', 'rotate'): ax1, ax2 = -1, 0
        if via == 'unrotate': ax1, ax2 = -2, 0
        return ['c16', mode, op, opd_sx(case['a']), opd_sx(case['b']), ax1, ax2]
    if op in ('outer', 'emul', 'ediv', 'qmul', 'fromparts'):
        return ['c16', mode, op, opd_sx(case['a']), opd_sx(case['b'])]
    if op == 'transpose':
        ax1, ax2 = (0, 1) if case.get('via') in ('transpose', 'T') else (case['ax1'], case['ax2'])
        return ['c16', mode, op, opd_sx(case['a']), ax1, ax2]
    if op == 'normsq':
        return ['c16', mode, op, opd_sx(case['a']), 0 if case.get('via') == 'method' else case['ax1']]
    if op in ('qconj', 'qrecip', 'toparts'):
        return ['c16', mode, op, opd_sx(case['a'])]
    if op == 'qtomat':
        p = vals_of(case['a'])
        pn = np.sqrt(np.sum(p ** 2, axis=-1))
        return ['c16', mode, op, opd_sx(case['a']), ratstr(np.sqrt(2)), [ratstr(x) for x in np.ravel(pn)]]
    if op == 'unit':
        v = vals_of(case['a'])
        n = np.sqrt(np.sum(v ** 2, axis=-1))
        return ['c16', mode, op, opd_sx(case['a']), [ratstr(x) for x in np.ravel(n)]]
    if op in ('perp', 'proj'):
        v = vals_of(case['b'])
        n = np.sqrt(np.sum(v ** 2, axis=-1))
        return ['c16', mode, op, opd_sx(case['a']), opd_sx(case['b']), [ratstr(x) for x in np.ravel(n)]]
    if op == 'rot':
        axis = {'x': 0, 'y': 1, 'z': 2}.get(case.get('via'), None)
        if axis is None:
            axis = case['axis'] % 3
        return ['c16', mode, op, axis, sc_opd(case['a'])]
    if op in ('euler', 'qeuler'):
        h = op == 'qeuler'
        return ['c16', mode, op, case['axes'], sc_opd(case['ai'], h), sc_opd(case['aj'], h), sc_opd(case['ak'], h)]
    if op == 'inverse':
        return ['c16', mode, op, opd_sx(case['a']), bool(case.get('nozeros'))]
    if op == 'toeuler':
        return ['c16', mode, op, case['axes'], opd_sx(case['a'])]
    if op == 'pole':
        return ['c16', mode, op, sc_opd(case['a']), sc_opd(case['b'])]
    if op == 'qrot':
        v = vals_of(case['b'])
        n = np.sqrt(np.sum(v ** 2, axis=-1))
        return ['c16', mode, op, sc_opd(case['a'], True), opd_sx(case['b']), [ratstr(x) for x in np.ravel(n)]]
    if op == 'twovec':
        if twovec_ambiguous(case).any():
            return None                   # (nearly) parallel vectors: float rounding decides between "masked" and an arbitrary frame
        return ['c16', mode, op, opd_sx(case['a']), case['axis1'], opd_sx(case['b']), case['axis2']]
    if op == 'm2q':
        Q = vals_of(case['a'])
        diags = Q.reshape(Q.shape[:-2] + (9,))[..., ::4]
        with np.errstate(all='ignore'):
            r = np.sqrt(1 + 2 * np.max(diags, axis=-1) - np.sum(diags, axis=-1))
        if not np.isfinite(r).all():
            return None
        return ['c16', mode, op, opd_sx(case['a']), [ratstr(x) for x in np.ravel(r)]]
    return None


# ------------------------------------------------------------------ references
def bshape(*shapes):
    try:
        return tuple(np.broadcast_shapes(*[tuple(s) for s in shapes]))
    except ValueError:
        return None

def or_masks(out, *ops):
    m = np.zeros(out, dtype=bool)
    for o in ops:
        m = m | np.broadcast_to(mbits(o), out)
    return m

def norm_ax(ax, nrank):
    a = ax if ax >= 0 else ax + nrank
    return a if 0 <= a < nrank else None

LET = string.ascii_letters

def ref_bilinear(kind, a, b, ax1=0, ax2=0):
    """einsum reference of dot / cross / outer; returns (numer, denom, values) or None when the operation is not defined"""
    A, B = vals_of(a), vals_of(b)
    nr1, nr2, dr1, dr2 = len(a['numer']), len(b['numer']), len(a['denom']), len(b['denom'])
    if dr1 and dr2:
        return None
    if bshape(a['shape'], b['shape']) is None:
        return None
    # NumPy's einsum broadcasts '...' only if the ranks are padded by itself; pad leading shapes explicitly
    out = bshape(a['shape'], b['shape'])
    A = np.broadcast_to(A.reshape((1,) * (len(out) - len(a['shape'])) + A.shape), out + A.shape[len(a['shape']):])
    B = np.broadcast_to(B.reshape((1,) * (len(out) - len(b['shape'])) + B.shape), out + B.shape[len(b['shape']):])
    n1 = list(LET[0:nr1]); n2 = list(LET[10:10 + nr2]); d1 = list(LET[20:20 + dr1]); d2 = list(LET[30:30 + dr2])
    if kind == 'outer':
        spec = '...%s,...%s->...%s' % (''.join(n1 + d1), ''.join(n2 + d2), ''.join(n1 + n2 + d1 + d2))
        vals = np.einsum(spec, A, B)
        return list(a['numer']) + list(b['numer']), list(a['denom']) + list(b['denom']), vals
    a1, a2 = norm_ax(ax1, nr1), norm_ax(ax2, nr2)
    if a1 is None or a2 is None or a['numer'][a1] != b['numer'][a2]:
        return None
    n = a['numer'][a1]
    o1 = [x for k, x in enumerate(n1) if k != a1]; o2 = [x for k, x in enumerate(n2) if k != a2]
    s1 = [x for k, x in enumerate(a['numer']) if k != a1]; s2 = [x for k, x in enumerate(b['numer']) if k != a2]
    if kind == 'dot':
        n2[a2] = n1[a1]
        spec = '...%s,...%s->...%s' % (''.join(n1 + d1), ''.join(n2 + d2), ''.join(o1 + o2 + d1 + d2))
        return s1 + s2, list(a['denom']) + list(b['denom']), np.einsum(spec, A, B)
    if kind == 'cross':
        if n == 3:
            eps = np.zeros((3, 3, 3))
            for i, j, k in ((0, 1, 2), (1, 2, 0), (2, 0, 1)):
                eps[i, j, k] = 1.; eps[i, k, j] = -1.
            o1n = list(n1); o1n[a1] = 'Z'
            spec = 'Z%s%s,...%s,...%s->...%s' % (n1[a1], n2[a2], ''.join(n1 + d1), ''.join(n2 + d2), ''.join(o1n + o2 + d1 + d2))
            return list(a['numer']) + s2, list(a['denom']) + list(b['denom']), np.einsum(spec, eps, A, B)
        if n == 2:
            eps = np.array([[0., 1.], [-1., 0.]])
            spec = '%s%s,...%s,...%s->...%s' % (n1[a1], n2[a2], ''.join(n1 + d1), ''.join(n2 + d2), ''.join(o1 + o2 + d1 + d2))
            return s1 + s2, list(a['denom']) + list(b['denom']), np.einsum(spec, eps, A, B)
        return None
    raise KeyError(kind)


def check(r, case, what, shape, numer, denom, vals, mask, tol=TOL, scale=None):
    """compare a real result with the reference at unmasked elements; returns None or (signature, text)"""
    sig = signature(case)
    if not isinstance(r, Qube):
        return (sig + ':type', '%s: result is %s, not a polymath object' % (what, type(r).__name__))
    got = (tuple(r._shape_), tuple(r._numer_), tuple(r._denom_))
    exp = (tuple(shape), tuple(numer), tuple(denom))
    if got != exp:
        return (sig + ':shape', '%s: result shapes (shape, numer, denom) = %s, reference %s' % (what, got, exp))
    rm = expanded_mask(r)
    mask = np.broadcast_to(mask, tuple(shape))
    if (rm != mask).any():
        idx = tuple(int(x) for x in np.argwhere(rm != mask)[0])
        kind = 'mask-dropped' if mask[idx] else 'mask-extra'
        return (sig + ':' + kind, '%s: result mask at %s is %s, operands/undefinedness say %s' % (what, idx, bool(rm[idx]), bool(mask[idx])))
    rv = np.broadcast_to(np.asarray(r._values_, dtype=float), exp[0] + exp[1] + exp[2])
    vals = np.broadcast_to(vals, exp[0] + exp[1] + exp[2])
    keep = ~mask.reshape(mask.shape + (1,) * (len(numer) + len(denom)))
    keep = np.broadcast_to(keep, rv.shape)
    if keep.any():
        sc = 1.0 if scale is None else scale
        with np.errstate(all='ignore'):
            diff = np.abs(rv - vals)
        bad = keep & ~(diff <= tol * np.maximum(1.0, sc))
        if bad.any():
            idx = tuple(int(x) for x in np.argwhere(bad)[0])
            return (sig + ':value', '%s: result%s = %r, NumPy reference %r' % (what, list(idx), float(rv[idx]), float(vals[idx])))
    return None


def signature(case):
    s = case['op']
    if case.get('via'):
        s += '/' + str(case['via'])
    if case.get('axes'):
        s += '/' + case['axes']
    return s


def unmasked_items(r):
    """(values of unmasked elements as array [n, item...], their flat positions)"""
    m = expanded_mask(r).ravel()
    full = tuple(r._shape_) + tuple(r._numer_) + tuple(r._denom_)
    v = np.broadcast_to(np.asarray(r._values_, dtype=float), full).reshape((len(m),) + tuple(r._numer_) + tuple(r._denom_))
    return v[~m], np.nonzero(~m)[0]


def rot_residual(r, case, what):
    """orthonormality and det = +1 of every unmasked 3x3 element"""
    sig = signature(case)
    v, pos = unmasked_items(r)
    if tuple(r._numer_) != (3, 3):
        return (sig + ':shape', '%s: item shape %s is not (3,3)' % (what, r._numer_))
    for m, p in zip(v, pos):
        if not np.isfinite(m).all():
            return (sig + ':nonfinite', '%s: element %d has non-finite entries at an unmasked position' % (what, p))
        e = np.abs(m @ m.T - np.eye(3)).max()
        if not e <= TOL:
            return (sig + ':orthonormal', '%s: element %d: |M M^T - I| = %.3g' % (what, p, e))
        d = np.linalg.det(m)
        if not abs(d - 1.0) <= TOL:
            return (sig + ':det', '%s: element %d: det = %r' % (what, p, float(d)))
    return None


def mask_carry(r, case, what, out, *ops, extra=None):
    sig = signature(case)
    if tuple(r._shape_) != tuple(out):
        return (sig + ':shape', '%s: leading shape %s, expected %s' % (what, r._shape_, tuple(out)))
    exp = or_masks(out, *ops)
    if extra is not None:
        exp = exp | extra
    rm = expanded_mask(r)
    if (rm != exp).any():
        idx = tuple(int(x) for x in np.argwhere(rm != exp)[0])
        kind = 'mask-dropped' if exp[idx] else 'mask-extra'
        return (sig + ':' + kind, '%s: result mask at %s is %s, masks of the operands say %s' % (what, idx, bool(rm[idx]), bool(exp[idx])))
    return None


def bc(x, o, out, item):
    """operand values broadcast to out + item"""
    x = x.reshape((1,) * (len(out) - len(o['shape'])) + x.shape)
    return np.broadcast_to(x, tuple(out) + tuple(item))


# ------------------------------------------------------------------ the judge
def judge(case):
    op = case['op']
    if case.get('reject'):
        return None                       # malformed operands: the property says nothing (correspondence only)
    try:
        r = call(case)
    except Exception as e:
        if case.get('may_raise'):
            return None
        return (signature(case) + ':raised:' + C.exc_name(e), '%s raised %s: %s' % (op, type(e).__name__, str(e)[:200]))
    f = globals().get('j_' + op)
    return f(case, r) if f else None


def j_dot(case, r, kind='dot'):
    a, b = case['a'], case['b']
    via = case.get('via', 'qube')
    ax = {'vdot': (0, 0), 'vcross': (0, 0), 'matmul': (-1, 0), 'imatmul': (-1, 0), 'rotate': (-1, 0), 'unrotate': (-2, 0)}.get(via)
    ax1, ax2 = ax if ax else (case.get('ax1', 0), case.get('ax2', 0))
    ref = ref_bilinear(kind, a, b, ax1, ax2)
    if ref is None:
        return None
    numer, denom, vals = ref
    out = bshape(a['shape'], b['shape'])
    sc = np.abs(vals).max() if vals.size else 1.0
    res = check(r, case, kind, out, numer, denom, vals, or_masks(out, a, b), scale=sc)
    if res is None and kind == 'cross' and a['numer'] == [3] and not a['denom'] and not b['denom'] and len(a['numer']) == 1 and len(b['numer']) == 1:
        A = bc(vals_of(a), a, out, a['numer']); B = bc(vals_of(b), b, out, b['numer'])
        res = check(r, case, 'np.cross', out, numer, denom, np.cross(A, B) if A.size else vals, or_masks(out, a, b), scale=sc)
    return res

def j_cross(case, r):
    return j_dot(case, r, 'cross')

def j_outer(case, r):
    return j_dot(case, r, 'outer')

def j_emul(case, r):
    a, b = case['a'], case['b']
    out = bshape(a['shape'], b['shape'])
    if out is None or a['numer'] != b['numer'] or (a['denom'] and b['denom']):
        return None
    A = bc(vals_of(a), a, out, a['numer'] + a['denom']); B = bc(vals_of(b), b, out, b['numer'] + b['denom'])
    A = A.reshape(A.shape + (1,) * len(b['denom']))
    B = B.reshape(B.shape[:len(out) + len(b['numer'])] + (1,) * len(a['denom']) + B.shape[len(out) + len(b['numer']):])
    return check(r, case, 'element_mul', out, a['numer'], a['denom'] + b['denom'], A * B, or_masks(out, a, b))

def j_ediv(case, r):
    a, b = case['a'], case['b']
    out = bshape(a['shape'], b['shape'])
    if out is None or a['numer'] != b['numer'] or b['denom'] or a['denom']:
        return None
    A = bc(vals_of(a), a, out, a['numer']); B = bc(vals_of(b), b, out, b['numer'])
    zero = (B == 0).any(axis=-1)
    with np.errstate(all='ignore'):
        q = A / np.where(B == 0, 1.0, B)
    return check(r, case, 'element_div', out, a['numer'], [], q, or_masks(out, a, b) | zero)

def j_transpose(case, r):
    a = case['a']
    nr = len(a['numer'])
    ax1, ax2 = (0, 1) if case.get('via') in ('transpose', 'T') else (case['ax1'], case['ax2'])
    a1, a2 = norm_ax(ax1, nr), norm_ax(ax2, nr)
    if a1 is None or a2 is None:
        return None
    ls = len(a['shape'])
    v = np.swapaxes(vals_of(a), ls + a1, ls + a2)
    numer = list(a['numer']); numer[a1], numer[a2] = numer[a2], numer[a1]
    return check(r, case, 'transpose', a['shape'], numer, a['denom'], v, mbits(a))

def j_normsq(case, r, root=False):
    a = case['a']
    nr = len(a['numer'])
    a1 = norm_ax(0 if case.get('via') == 'method' else case['ax1'], nr)
    if a1 is None or a['denom']:
        return None
    v = np.sum(vals_of(a) ** 2, axis=len(a['shape']) + a1)
    numer = [x for k, x in enumerate(a['numer']) if k != a1]
    if root:
        v = np.sqrt(v)
    return check(r, case, 'norm' if root else 'norm_sq', a['shape'], numer, [], v, mbits(a), scale=np.abs(v).max() if v.size else 1.)

def j_norm(case, r):
    return j_normsq(case, r, True)

def qmul_ref(A, B):
    s = A[..., 0] * B[..., 0] - np.sum(A[..., 1:] * B[..., 1:], axis=-1)
    v = A[..., :1] * B[..., 1:] + B[..., :1] * A[..., 1:] + np.cross(A[..., 1:], B[..., 1:])
    return np.concatenate([s[..., None], v], axis=-1)

def j_qmul(case, r):
    a, b = case['a'], case['b']
    out = bshape(a['shape'], b['shape'])
    if out is None or a['denom'] or b['denom']:
        return None
    A = bc(vals_of(a), a, out, [4]); B = bc(vals_of(b), b, out, [4])
    v = qmul_ref(A, B) if A.size else np.zeros(out + (4,))
    return check(r, case, 'quaternion product', out, [4], [], v, or_masks(out, a, b), scale=np.abs(v).max() if v.size else 1.)

def j_qconj(case, r):
    a = case['a']
    v = vals_of(a) * np.array([1., -1., -1., -1.])
    return check(r, case, 'conj', a['shape'], [4], [], v, mbits(a))

def j_qrecip(case, r):
    a = case['a']
    A = vals_of(a)
    n = np.sum(A ** 2, axis=-1)
    with np.errstate(all='ignore'):
        v = A * np.array([1., -1., -1., -1.]) / np.where(n == 0, 1., n)[..., None]
    res = check(r, case, 'reciprocal', a['shape'], [4], [], v, mbits(a) | (n == 0))
    if res:
        return res
    # identity: q * recip(q) = 1 wherever unmasked
    q = mk(a)
    prod = q * r
    pv, _ = unmasked_items(prod)
    if pv.size and not (np.abs(pv - np.array([1., 0, 0, 0])).max() <= TOL):
        return (signature(case) + ':identity', 'q * q.reciprocal() differs from 1 by %.3g' % np.abs(pv - np.array([1., 0, 0, 0])).max())
    return None

def j_qdiv(case, r):
    a, b = case['a'], case['b']
    out = bshape(a['shape'], b['shape'])
    if out is None:
        return None
    A = bc(vals_of(a), a, out, [4]); B = bc(vals_of(b), b, out, [4])
    n = np.sum(B ** 2, axis=-1)
    with np.errstate(all='ignore'):
        Bi = B * np.array([1., -1., -1., -1.]) / np.where(n == 0, 1., n)[..., None]
    v = qmul_ref(A, Bi) if A.size else np.zeros(out + (4,))
    return check(r, case, 'quaternion division', out, [4], [], v, or_masks(out, a, b) | (n == 0), scale=np.abs(v).max() if v.size else 1.)

def q2m_ref(p):
    """textbook rotation matrix of the normalised quaternion (independent of polymath's sqrt(2) trick)"""
    n = np.sqrt(np.sum(p ** 2, axis=-1))
    with np.errstate(all='ignore'):
        q = p / np.where(n == 0, 1., n)[..., None]
    s, x, y, z = q[..., 0], q[..., 1], q[..., 2], q[..., 3]
    m = np.empty(p.shape[:-1] + (3, 3))
    m[..., 0, 0] = 1 - 2 * (y * y + z * z); m[..., 0, 1] = 2 * (x * y - s * z); m[..., 0, 2] = 2 * (x * z + s * y)
    m[..., 1, 0] = 2 * (x * y + s * z); m[..., 1, 1] = 1 - 2 * (x * x + z * z); m[..., 1, 2] = 2 * (y * z - s * x)
    m[..., 2, 0] = 2 * (x * z - s * y); m[..., 2, 1] = 2 * (y * z + s * x); m[..., 2, 2] = 1 - 2 * (x * x + y * y)
    return m, n == 0

def j_qtomat(case, r):
    a = case['a']
    m, zero = q2m_ref(vals_of(a))
    res = check(r, case, 'to_matrix3', a['shape'], [3, 3], [], m, mbits(a) | zero)
    return res or rot_residual(r, case, 'to_matrix3')

def j_fromparts(case, r):
    a, b = case['a'], case['b']
    out = bshape(a['shape'], b['shape'])
    if out is None:
        return None
    S = bc(vals_of(a), a, out, []); V = bc(vals_of(b), b, out, [3])
    return check(r, case, 'from_parts', out, [4], [], np.concatenate([S[..., None], V], axis=-1), or_masks(out, a, b))

def j_toparts(case, r):
    a = case['a']
    A = vals_of(a)
    return (check(r[0], case, 'to_parts[0]', a['shape'], [], [], A[..., 0], mbits(a))
            or check(r[1], case, 'to_parts[1]', a['shape'], [3], [], A[..., 1:], mbits(a)))

def j_unit(case, r):
    a = case['a']
    A = vals_of(a)
    n = np.sqrt(np.sum(A ** 2, axis=-1))
    with np.errstate(all='ignore'):
        u = A / np.where(n == 0, 1., n)[..., None]
    res = check(r, case, 'unit', a['shape'], a['numer'], [], u, mbits(a) | (n == 0))
    if res:
        return res
    v, pos = unmasked_items(r)
    if v.size:
        e = np.abs(np.sqrt(np.sum(v ** 2, axis=-1)) - 1).max()
        if not e <= TOL:
            return (signature(case) + ':identity', 'unit(): | |u| - 1 | = %.3g' % e)
    return None

def j_perp(case, r, which='perp'):
    a, b = case['a'], case['b']
    out = bshape(a['shape'], b['shape'])
    if out is None or a['numer'] != b['numer']:
        return None
    V = bc(vals_of(a), a, out, a['numer']); W = bc(vals_of(b), b, out, b['numer'])
    n2 = np.sum(W * W, axis=-1)
    with np.errstate(all='ignore'):
        p = W * (np.sum(V * W, axis=-1) / np.where(n2 == 0, 1., n2))[..., None]
    exp = p if which == 'proj' else V - p
    sc = max(1.0, np.abs(V).max() if V.size else 1.0)
    res = check(r, case, which, out, a['numer'], [], exp, or_masks(out, a, b) | (n2 == 0), scale=sc)
    if res:
        return res
    # identities on the real objects
    va, wb = mk(a), mk(b)
    other = getattr(va, 'proj' if which == 'perp' else 'perp')(wb)
    tot = r + other
    res = check(tot, case, 'perp + proj', out, a['numer'], [], V, or_masks(out, a, b) | (n2 == 0), scale=sc)
    if res:
        return (signature(case) + ':identity', res[1])
    pr = r if which == 'perp' else other
    d = pr.dot(wb)
    dv, _ = unmasked_items(d)
    if dv.size and not (np.abs(dv).max() <= TOL * sc * max(1.0, np.abs(W).max())):
        return (signature(case) + ':identity', 'perp(v,a).dot(a) = %.3g' % np.abs(dv).max())
    return None

def j_proj(case, r):
    return j_perp(case, r, 'proj')

def j_sep(case, r):
    a, b = case['a'], case['b']
    out = bshape(a['shape'], b['shape'])
    if out is None or a['numer'] != b['numer']:
        return None
    V = bc(vals_of(a), a, out, a['numer']); W = bc(vals_of(b), b, out, b['numer'])
    nv, nw = np.sqrt(np.sum(V * V, axis=-1)), np.sqrt(np.sum(W * W, axis=-1))
    with np.errstate(all='ignore'):
        u = V / np.where(nv == 0, 1., nv)[..., None]; w = W / np.where(nw == 0, 1., nw)[..., None]
        ang = 2 * np.arctan2(np.sqrt(np.sum((u - w) ** 2, axis=-1)), np.sqrt(np.sum((u + w) ** 2, axis=-1)))
    return check(r, case, 'sep', out, [], [], ang, or_masks(out, a, b) | (nv == 0) | (nw == 0))

def j_ucross(case, r):
    a, b = case['a'], case['b']
    out = bshape(a['shape'], b['shape'])
    V = bc(vals_of(a), a, out, [3]); W = bc(vals_of(b), b, out, [3])
    c = np.cross(V, W) if V.size else np.zeros(out + (3,))
    n = np.sqrt(np.sum(c * c, axis=-1))
    with np.errstate(all='ignore'):
        u = c / np.where(n == 0, 1., n)[..., None]
    return check(r, case, 'ucross', out, [3], [], u, or_masks(out, a, b) | (n == 0))

def j_with_norm(case, r):
    a = case['a']
    A = vals_of(a)
    n = np.sqrt(np.sum(A ** 2, axis=-1))
    with np.errstate(all='ignore'):
        u = A * (case['n'] / np.where(n == 0, 1., n))[..., None]
    return check(r, case, 'with_norm', a['shape'], a['numer'], [], u, mbits(a) | (n == 0), scale=abs(case['n']))

def j_rot(case, r):
    a = case['a']
    res = mask_carry(r, case, 'rotation constructor', a['shape'], a)
    if res:
        return res
    res = rot_residual(r, case, 'rotation constructor')
    if res:
        return res
    # the named axis is fixed and the rotation angle is the given one (trace = 1 + 2 cos)
    axis = {'x': 0, 'y': 1, 'z': 2}.get(case.get('via'))
    if axis is None:
        axis = case['axis'] % 3
    v, pos = unmasked_items(r)
    ang = np.broadcast_to(vals_of(a), tuple(a['shape'])).ravel()[pos] if v.size else np.zeros(0)
    for m, t in zip(v, ang):
        e = np.zeros(3); e[axis] = 1.
        if not (np.abs(m @ e - e).max() <= TOL and abs(np.trace(m) - 1 - 2 * math.cos(t)) <= TOL):
            return (signature(case) + ':value', 'rotation about axis %d by %r: axis not fixed or trace != 1+2cos' % (axis, float(t)))
    # sense of rotation promised by the docstrings: "rotates a vector counterclockwise about the axis by the specified angle"
    b, c = (axis + 1) % 3, (axis + 2) % 3
    for m, t in zip(v, ang):
        if not abs(m[c, b] - math.sin(t)) <= TOL:
            return (signature(case) + ':sense-' + 'xyz'[axis],
                    '%s_rotation(%r) turns the %s axis towards -%s: clockwise, the docstring says counterclockwise'
                    % ('xyz'[axis], float(t), 'xyz'[b], 'xyz'[c]))
    return None

def j_pole(case, r):
    a, b = case['a'], case['b']
    out = bshape(a['shape'], b['shape'])
    return mask_carry(r, case, 'pole_rotation', out, a, b) or rot_residual(r, case, 'pole_rotation')

def axis_mat(ax, t):
    """textbook counter-clockwise rotation about a principal axis"""
    c, s = math.cos(t), math.sin(t)
    if ax == 0: return np.array([[1, 0, 0], [0, c, -s], [0, s, c]])
    if ax == 1: return np.array([[c, 0, s], [0, 1, 0], [-s, 0, c]])
    return np.array([[c, -s, 0], [s, c, 0], [0, 0, 1]])

def euler_ref(axes, ai, aj, ak):
    """composition of three textbook axis rotations (transformations.py semantics): static frame 's' applies the
    rotations about fixed axes in the order given, so M = R(ak) R(aj) R(ai); rotating frame 'r' is the reverse order"""
    ax = ['xyz'.index(ch) for ch in axes[1:]]
    if axes[0] == 's':
        return axis_mat(ax[2], ak) @ axis_mat(ax[1], aj) @ axis_mat(ax[0], ai)
    return axis_mat(ax[0], ai) @ axis_mat(ax[1], aj) @ axis_mat(ax[2], ak)

def j_euler(case, r, quat=False):
    ai, aj, ak = case['ai'], case['aj'], case['ak']
    out = bshape(ai['shape'], aj['shape'], ak['shape'])
    if out is None:
        return None
    what = ('Quaternion' if quat else 'Matrix3') + '.from_euler(%s)' % case['axes']
    res = mask_carry(r, case, what, out, ai, aj, ak)
    if res:
        return res
    I, J, K = (np.broadcast_to(vals_of(o).reshape((1,) * (len(out) - len(o['shape'])) + tuple(o['shape'])), out).ravel() for o in (ai, aj, ak))
    m3 = r.to_matrix3() if quat else r
    if quat:
        v, pos = unmasked_items(r)
        if v.size and not (np.abs(np.sum(v * v, axis=-1) - 1).max() <= TOL):
            return (signature(case) + ':unit', what + ': quaternion is not a unit quaternion')
    res = rot_residual(m3, case, what)
    if res:
        return res
    v, pos = unmasked_items(m3)
    for m, p in zip(v, pos):
        ref = euler_ref(case['axes'], I[p], J[p], K[p])
        if not np.abs(m - ref).max() <= TOL:
            return (signature(case) + ':value', '%s with angles (%r, %r, %r): differs from the product of the three axis rotations by %.3g'
                    % (what, float(I[p]), float(J[p]), float(K[p]), np.abs(m - ref).max()))
    # round trip: to_euler of the result rebuilds the same rotation
    try:
        with warnings.catch_warnings():
            warnings.simplefilter('error')
            angs = r.to_euler(case['axes'])
            back = (Quaternion if quat else Matrix3).from_euler(*angs, axes=case['axes'])
    except Exception as e:
        return (signature(case) + ':roundtrip:raised:' + C.exc_name(e), '%s .to_euler(%s) raised %s: %s' % (what, case['axes'], type(e).__name__, str(e)[:160]))
    for k, ang in enumerate(angs):
        res = mask_carry(ang, case, 'to_euler angle %d' % k, out, ai, aj, ak)
        if res:
            return res
    b3 = back.to_matrix3() if quat else back
    bv, _ = unmasked_items(b3)
    if bv.shape == v.shape and v.size and not np.abs(bv - v).max() <= 1e-7:
        k = int(np.argmax(np.abs(bv - v).reshape(len(v), -1).max(axis=1)))
        return (signature(case) + ':roundtrip', '%s -> to_euler -> from_euler differs by %.3g for angles (%r, %r, %r)'
                % (what, np.abs(bv - v).max(), float(I[pos[k]]), float(J[pos[k]]), float(K[pos[k]])))
    return None

def j_qeuler(case, r):
    return j_euler(case, r, True)

def j_inverse(case, r):
    a = case['a']
    n = a['numer'][0]
    if a['numer'] != [n, n] or a['denom']:
        return None
    A = vals_of(a)
    det = np.linalg.det(A) if A.size else np.zeros(tuple(a['shape']))
    sing = np.zeros(tuple(a['shape']), dtype=bool) if case.get('nozeros') else (det == 0)
    with np.errstate(all='ignore'):
        ref = np.linalg.inv(np.where(sing[..., None, None], np.eye(n), A)) if A.size else A
    res = check(r, case, 'inverse', a['shape'], [n, n], [], ref, mbits(a) | sing, tol=1e-9, scale=np.abs(ref).max() if ref.size else 1.)
    if res:
        return res
    v, pos = unmasked_items(r)
    if v.size:
        src = A.reshape((-1, n, n))[pos]
        e = np.abs(src @ v - np.eye(n)).max()
        if not e <= 1e-9 * max(1.0, np.abs(v).max() * np.abs(src).max()):
            return (signature(case) + ':identity', 'M * M.inverse() differs from the identity by %.3g at an unmasked element' % e)
    # the operand must be untouched (the identity is about M, not about a modified M)
    m = mk(a)
    before = np.array(m._values_, copy=True)
    m.inverse(nozeros=True) if case.get('nozeros') else m.inverse()
    if not np.array_equal(before, np.asarray(m._values_)):
        return ('inverse:operand-modified', 'Matrix.inverse() changed the values of its operand')
    return None

def j_mscal(case, r):
    """matrix / vector times or divided by a Scalar, out of place and in place: element-wise reference, mask union,
    zero divisors masked"""
    a, b = case['a'], case['b']
    out = bshape(a['shape'], b['shape'])
    if out is None:
        return None
    item = a['numer'] + a['denom']
    A = bc(vals_of(a), a, out, item)
    B = bc(vals_of(b), b, out, []).reshape(out + (1,) * len(item))
    mask = or_masks(out, a, b)
    if case['via'] in ('div', 'idiv'):
        zero = np.broadcast_to(B == 0, A.shape).reshape(out + (-1,)).any(axis=-1) if A.size else np.zeros(out, dtype=bool)
        with np.errstate(all='ignore'):
            ref = A / np.where(B == 0, 1.0, B)
        mask = mask | zero
    else:
        ref = A * B
    return check(r, case, 'matrix %s scalar' % case['via'], out, a['numer'], a['denom'], ref, mask,
                 scale=np.abs(ref[np.isfinite(ref)]).max() if np.isfinite(ref).any() else 1.)

def j_mdiv(case, r):
    a, b = case['a'], case['b']
    out = bshape(a['shape'], b['shape'])
    n = b['numer'][0]
    A = bc(vals_of(a), a, out, a['numer']); B = bc(vals_of(b), b, out, b['numer'])
    det = np.linalg.det(B) if B.size else np.zeros(out)
    sing = det == 0
    ref = A @ np.linalg.inv(np.where(sing[..., None, None], np.eye(n), B)) if B.size else np.zeros(out + tuple(a['numer']))
    return check(r, case, 'matrix / matrix', out, a['numer'], [], ref, or_masks(out, a, b) | sing, tol=1e-9, scale=np.abs(ref).max() if ref.size else 1.)

def twovec_ambiguous(case):
    """elements whose two vectors are non-zero and parallel up to 1e-6: the property does not say whether they are masked"""
    a, b = case['a'], case['b']
    out = bshape(a['shape'], b['shape'])
    if out is None:
        return np.zeros((), dtype=bool)
    V = bc(vals_of(a), a, out, [3]); W = bc(vals_of(b), b, out, [3])
    c = np.cross(V, W) if V.size else np.zeros(out + (3,))
    nv, nw, nc = (np.sqrt(np.sum(x * x, axis=-1)) for x in (V, W, c))
    return (nv > 0) & (nw > 0) & (nc <= 1e-6 * nv * nw)

def j_twovec(case, r):
    a, b = case['a'], case['b']
    out = bshape(a['shape'], b['shape'])
    V = bc(vals_of(a), a, out, [3]); W = bc(vals_of(b), b, out, [3])
    zero = (np.sum(V * V, axis=-1) == 0) | (np.sum(W * W, axis=-1) == 0)
    amb = twovec_ambiguous(case)
    if tuple(r._shape_) != tuple(out):
        return (signature(case) + ':shape', 'twovec: leading shape %s, expected %s' % (r._shape_, tuple(out)))
    exp = or_masks(out, a, b) | zero
    rm = expanded_mask(r)
    bad = (rm != exp) & ~amb
    if bad.any():
        idx = tuple(int(x) for x in np.argwhere(bad)[0])
        kind = 'mask-dropped' if exp[idx] else 'mask-extra'
        return (signature(case) + ':' + kind, 'twovec: result mask at %s is %s, operands / zero vectors say %s' % (idx, bool(rm[idx]), bool(exp[idx])))
    v, pos = unmasked_items(r)
    Vf, Wf, af = V.reshape(-1, 3), W.reshape(-1, 3), amb.ravel()
    for m, p in zip(v, pos):
        e = np.abs(m @ m.T - np.eye(3)).max() if np.isfinite(m).all() else np.inf
        d = abs(np.linalg.det(m) - 1.0) if np.isfinite(m).all() else np.inf
        if not (e <= TOL and d <= TOL):
            if af[p]:
                return (signature(case) + ':near-parallel:orthonormal',
                        'twovec(%s, %d, %s, %d): the vectors are parallel up to rounding, the result is unmasked and |M M^T - I| = %.3g'
                        % (Vf[p].tolist(), case['axis1'], Wf[p].tolist(), case['axis2'], e))
            return (signature(case) + ':orthonormal', 'twovec: element %d: |M M^T - I| = %.3g, |det - 1| = %.3g' % (p, e, d))
    a1, a2 = case['axis1'], case['axis2']
    for m, p in zip(v, pos):
        u1 = Vf[p] / np.linalg.norm(Vf[p])
        if not np.abs(m[a1] - u1).max() <= TOL:
            return (signature(case) + ':value', 'twovec: row axis1 is not unit(vector1)')
        if af[p]:
            continue
        w = m @ Wf[p] / np.linalg.norm(Wf[p])
        a3 = 3 - a1 - a2
        if not (abs(w[a3]) <= 1e-9 and w[a2] > 0):
            return (signature(case) + ':value', 'twovec: vector2 is not in the (axis1, axis2>0) half plane')
    return None

def rodrigues(v, k, t):
    k = k / np.linalg.norm(k)
    return v * math.cos(t) + np.cross(k, v) * math.sin(t) + k * np.dot(k, v) * (1 - math.cos(t))

def j_spin(case, r):
    a, b, c = case['a'], case['b'], case['c']
    out = bshape(a['shape'], b['shape'], c['shape'])
    V = bc(vals_of(a), a, out, [3]).reshape(-1, 3); P = bc(vals_of(b), b, out, [3]).reshape(-1, 3)
    T = bc(vals_of(c), c, out, []).ravel()
    pz = np.sum(P * P, axis=-1) == 0
    ref = np.array([rodrigues(v, p, t) if not z else v for v, p, t, z in zip(V, P, T, pz)]).reshape(out + (3,)) if len(V) else np.zeros(out + (3,))
    # the property is silent on a zero pole with a non-zero angle; such elements are not generated
    return check(r, case, 'spin', out, [3], [], ref, or_masks(out, a, b, c), tol=1e-9, scale=np.abs(ref).max() if ref.size else 1.)

def j_qrot(case, r):
    a, b = case['a'], case['b']
    out = bshape(a['shape'], b['shape'])
    T = bc(vals_of(a), a, out, []); V = bc(vals_of(b), b, out, [3])
    n = np.sqrt(np.sum(V * V, axis=-1))
    res = mask_carry(r, case, 'from_rotation', out, a, b, extra=(n == 0))
    if res:
        return res
    m3 = r.to_matrix3()
    res = rot_residual(m3, case, 'from_rotation(...).to_matrix3()')
    if res:
        return res
    v, pos = unmasked_items(m3)
    Tf, Vf = T.ravel(), V.reshape(-1, 3)
    for m, p in zip(v, pos):
        x = np.array([0.3, -0.7, 0.5])
        if not np.abs(m @ x - rodrigues(x, Vf[p], Tf[p])).max() <= 1e-9:
            return (signature(case) + ':value', 'from_rotation(angle, axis).to_matrix3() is not the rotation by angle about axis')
    return None

def j_rotinv(case, r):
    ai, aj, ak, b = case['ai'], case['aj'], case['ak'], case['b']
    out = bshape(ai['shape'], aj['shape'], ak['shape'], b['shape'])
    if out is None:
        return None
    V = bc(vals_of(b), b, out, b['numer'])
    return check(r, case, 'unrotate(rotate(v))', out, b['numer'], [], V, or_masks(out, ai, aj, ak, b), scale=np.abs(V).max() if V.size else 1.)

def j_qm_hom(case, r):
    a, b = case['a'], case['b']
    out = bshape(a['shape'], b['shape'])
    A = bc(vals_of(a), a, out, [4]); B = bc(vals_of(b), b, out, [4])
    ma, za = q2m_ref(A); mb, zb = q2m_ref(B)
    res = check(r, case, 'to_matrix3(p*q) vs M(p) M(q)', out, [3, 3], [], ma @ mb, or_masks(out, a, b) | za | zb)
    if res:
        return res
    real = mk(a).to_matrix3() * mk(b).to_matrix3()
    rv, _ = unmasked_items(real); v, _ = unmasked_items(r)
    if rv.shape != v.shape or (v.size and not np.abs(rv - v).max() <= TOL):
        return (signature(case) + ':identity', 'to_matrix3(p*q) differs from to_matrix3(p) * to_matrix3(q)')
    return None

def j_m2q2m(case, r):
    ai, aj, ak = case['ai'], case['aj'], case['ak']
    out = bshape(ai['shape'], aj['shape'], ak['shape'])
    R = Matrix3.from_euler(mk(ai), mk(aj), mk(ak), case['axes'])
    full = np.broadcast_to(np.asarray(R._values_, dtype=float), out + (3, 3))
    return check(r, case, 'Matrix3 -> Quaternion -> Matrix3', out, [3, 3], [], full, or_masks(out, ai, aj, ak), tol=1e-9)

def j_toeuler(case, r):
    """to_euler of a rotation matrix: the angles rebuild the matrix, masks carry"""
    a = case['a']
    res = mask_carry(r, case, 'to_euler', a['shape'], a)
    if res:
        return res
    m3 = mk(a)
    back = Matrix3.from_euler(*m3.to_euler(case['axes']), axes=case['axes'])
    return check(back, case, 'from_euler(to_euler(M))', a['shape'], [3, 3], [], vals_of(a), mbits(a), tol=1e-7)

def j_m2q(case, r):
    """Quaternion.from_matrix3 of a rotation matrix: unit quaternion whose matrix is the operand"""
    a = case['a']
    A = vals_of(a)
    res = mask_carry(r, case, 'from_matrix3', a['shape'], a)
    if res:
        return res
    v, pos = unmasked_items(r)
    src = A.reshape(-1, 3, 3)[pos] if v.size else v
    for q, m in zip(v, src):
        back, _ = q2m_ref(q)
        if not (abs(np.sum(q * q) - 1) <= 1e-9 and np.abs(back - m).max() <= 1e-9):
            return (signature(case) + ':value', 'from_matrix3(%s) = %s is not a unit quaternion of that rotation' % (m.tolist(), q.tolist()))
    return None

def j_q2m2q(case, r):
    a = case['a']
    A = vals_of(a)
    n = np.sqrt(np.sum(A * A, axis=-1))
    res = mask_carry(r, case, 'Quaternion -> Matrix3 -> Quaternion', a['shape'], a, extra=(n == 0))
    if res:
        return res
    v, pos = unmasked_items(r)
    src = (A / np.where(n == 0, 1., n)[..., None]).reshape(-1, 4)[pos] if v.size else v
    for x, y in zip(v, src):
        if not min(np.abs(x - y).max(), np.abs(x + y).max()) <= 1e-9:
            return (signature(case) + ':value', 'Quaternion -> Matrix3 -> Quaternion: %s became %s' % (list(map(float, y)), list(map(float, x))))
    return None

def j_unitary(case, r):
    """Matrix.unitary of a slightly perturbed rotation: wherever unmasked the result is a rotation matrix close to the
    operand; masked operands stay masked"""
    a = case['a']
    if tuple(r._shape_) != tuple(a['shape']):
        return (signature(case) + ':shape', 'unitary: leading shape %s, expected %s' % (r._shape_, tuple(a['shape'])))
    rm = expanded_mask(r)
    om = mbits(a)
    if (om & ~rm).any():
        idx = tuple(int(x) for x in np.argwhere(om & ~rm)[0])
        return (signature(case) + ':mask-dropped', 'unitary: operand element %s is masked, the result is not' % (idx,))
    res = rot_residual(r, case, 'unitary')
    if res:
        return res
    v, pos = unmasked_items(r)
    src = vals_of(a).reshape(-1, 3, 3)[pos] if v.size else v
    if v.size and not np.abs(v - src).max() <= 0.1:
        return (signature(case) + ':value', 'unitary: result is not close to the operand')
    return None
