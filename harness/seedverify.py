"""Development tool: confirm a seeded mutant produced by an independent sub-agent, in a scratch worktree of /repo:
patch applies to HEAD, the 93-test suite passes with it, the demonstration fails with it and passes without it.
On success copy it to /verif/seeded/<id>/ (patch.diff, demo.py, meta.json + what was run).
    python3 harness/seedverify.py /tmp/seed/C13/a C13-a
"""
import json, os, shutil, subprocess, sys, tempfile
VERIF = os.path.dirname(os.path.dirname(os.path.abspath(__file__)))

def run(cmd, cwd, timeout=1800):
    p = subprocess.run(cmd, cwd=cwd, shell=True, capture_output=True, text=True, timeout=timeout,
                       env=dict(os.environ, PYTHONPATH=cwd))
    return p.returncode, (p.stdout + p.stderr)[-1500:]

def main():
    src, sid = sys.argv[1], sys.argv[2]
    wt = tempfile.mkdtemp(prefix='seedverify-', dir='/tmp')
    os.rmdir(wt)
    br = 'seedverify-' + sid
    subprocess.run(['git', '-C', '/repo', 'worktree', 'add', '-q', wt, '-b', br], check=True)
    log = []
    ok = False
    try:
        head = subprocess.run(['git', '-C', wt, 'rev-parse', '--short', 'HEAD'], capture_output=True, text=True).stdout.strip()
        rc, out = run('git apply %s/patch.diff' % src, wt); log.append(('git apply on %s' % head, rc))
        if rc != 0:
            print('patch does not apply:', out); return 1
        rc_t, out_t = run('/venv/bin/python -m pytest -q -p no:cacheprovider --timeout=900 tests 2>&1 | tail -3', wt)
        passed = '93 passed' in out_t
        log.append(('pytest with mutant: ' + out_t.strip().splitlines()[-1], rc_t))
        rc_m, out_m = run('/venv/bin/python %s/demo.py' % src, wt); log.append(('demo with mutant', rc_m))
        run('git checkout -q -- .', wt)
        rc_c, out_c = run('/venv/bin/python %s/demo.py' % src, wt); log.append(('demo on clean tree', rc_c))
        ok = passed and rc_m != 0 and rc_c == 0
        print(sid, 'tests_pass=%s demo_with=%d demo_without=%d -> %s' % (passed, rc_m, rc_c, 'CONFIRMED' if ok else 'REJECTED'))
        if not ok:
            print(out_t[-400:], out_m[-400:], out_c[-400:])
        else:
            dst = os.path.join(VERIF, 'seeded', sid)
            os.makedirs(dst, exist_ok=True)
            for f in ('patch.diff', 'demo.py'):
                shutil.copy(os.path.join(src, f), os.path.join(dst, f))
            meta = json.load(open(os.path.join(src, 'meta.json')))
            meta['id'] = sid
            meta['breaks_property'] = meta.get('property')
            meta['confirmed_by_coordinator'] = {'base_commit': head, 'steps': log,
                                                'demo_output_with_mutant': out_m[-600:]}
            json.dump(meta, open(os.path.join(dst, 'meta.json'), 'w'), indent=1)
    finally:
        subprocess.run(['git', '-C', '/repo', 'worktree', 'remove', '--force', wt])
        subprocess.run(['git', '-C', '/repo', 'branch', '-D', '-q', br])
    return 0 if ok else 1

if __name__ == '__main__':
    sys.exit(main())
