"""./check Cnn --tier quick|thorough [--replay file]"""
import argparse, collections, importlib, json, os, random, sys, time, traceback
sys.path.insert(0, os.path.dirname(os.path.abspath(__file__)))
if os.environ.get('PMV_REPO'):
    # development only: run the harness against a scratch worktree of the repository instead of /repo
    sys.path.insert(0, os.environ['PMV_REPO'])
import common as C


def main():
    ap = argparse.ArgumentParser()
    ap.add_argument('prop')
    ap.add_argument('--tier', default=os.environ.get('VERIF_TIER', 'quick'), choices=['quick', 'thorough'])
    ap.add_argument('--replay')
    ap.add_argument('--no-build', action='store_true')
    a = ap.parse_args()
    prop = a.prop.upper()
    seed = int(os.environ.get('VERIF_SEED', '0') or 0)
    try:
        mod = importlib.import_module(prop.lower())
    except ImportError:
        print('no check module for', prop); traceback.print_exc(); sys.exit(2)
    if a.replay:
        sys.exit(replay(mod, prop, a.replay))
    try:
        rc = run(mod, prop, a.tier, seed, a.no_build)
    except Exception:
        traceback.print_exc()
        print('INFRASTRUCTURE-ERROR property=%s' % prop)
        rc = 2
    sys.exit(rc)


def replay(mod, prop, path):
    if not os.path.isabs(path) and not os.path.exists(path):
        path = os.path.join(C.VERIF, path)
    r = json.load(open(path))
    case = r.get('case')
    if case is None:
        print('replay names a broken obligation, not an input:', r.get('broken')); return 1
    got = safe_impl(mod, case)
    print('case:', json.dumps(case))
    print('implementation:', got)
    try:
        model = C.run_driver(prop, [C.sx(case['req'])])[0] if case.get('req') is not None else None
    except Exception as e:
        model = 'driver-unavailable: %s' % e
    print('model         :', model)
    o = safe_oracle(mod, case)
    print('oracle        :', o)
    return 1 if o else 0


def safe_impl(mod, case):
    try:
        return C.sx(mod.impl(case))
    except Exception as e:
        return 'harness-exception:' + type(e).__name__ + ':' + str(e)[:200]


def safe_oracle(mod, case):
    try:
        return mod.oracle(case)
    except Exception as e:
        return ('oracle-crash:' + type(e).__name__, 'oracle crashed: %s' % (traceback.format_exc()[-800:]))


def _work(args):
    modname, case = args
    mod = importlib.import_module(modname)
    return safe_impl(mod, case), safe_oracle(mod, case)


def evaluate(mod, cases):
    """(impl_out, oracle_result) per case; parallel when the module asks for it"""
    par = getattr(mod, 'PARALLEL', False)
    if par and len(cases) > 200:
        import multiprocessing as mp
        with mp.get_context('fork').Pool(int(os.environ.get('PMV_JOBS') or min(16, os.cpu_count() or 1))) as pool:
            return pool.map(_work, [(mod.__name__, c) for c in cases], chunksize=50)
    return [(safe_impl(mod, c), safe_oracle(mod, c)) for c in cases]


def run(mod, prop, tier, seed, no_build):
    t0 = time.time()
    rng = random.Random(seed * 1000003 + hash(prop) % 1000 if False else seed * 1000003 + int(prop[1:]))
    notes, broken = [], []

    # 1. regenerate translator tables (T2)
    gen_info = None
    if hasattr(mod, 'regen'):
        gen_info = mod.regen()

    # 2. build
    modules = list(mod.LEAN_MODULES)
    build_ok = True
    if not no_build:
        rc, out = C.lake_build(modules + ['driver_' + prop.lower()])
        if rc != 0:
            build_ok = False
            broken.append({'kind': 'lean-build', 'detail': out[-3000:]})
    # 3. audit
    hits = C.grep_forbidden(modules + ['Driver.' + prop])
    if hits:
        print('forbidden tokens in Lean sources:', hits); return 2
    names, axioms, problems = ([], {}, [])
    if build_ok:
        names, axioms, problems = C.audit(prop, modules)
        if problems:
            broken.append({'kind': 'axiom-audit', 'detail': problems})
    if not build_ok and not gen_info:
        # nothing regenerated from /repo can have broken the build: infrastructure problem
        print(broken[0]['detail']); print('Lean build failed with no regenerated input'); return 2
    obligations = len(names) + (gen_info or {}).get('obligations', 0)
    discharged = obligations if (build_ok and not problems) else 0
    leanchecker = None
    if tier == 'thorough' and build_ok:
        rc, out = C.sh(['lake', 'env', 'leanchecker'] + modules, cwd=C.LEAN, timeout=3000)
        leanchecker = 'ok' if rc == 0 else 'FAILED: ' + out[-1500:]
        if rc != 0:
            print(out[-3000:]); print('leanchecker rejected the compiled proofs'); return 2

    # 4. correspondence + direct oracle
    corpus = load_corpus(prop)
    cases = corpus + list(mod.gen_cases(rng, tier))
    results = evaluate(mod, cases)
    reqs = [(i, C.sx(c['req'])) for i, c in enumerate(cases) if c.get('req') is not None]
    model_out = {}
    driver_ok = os.path.exists(C.driver_path(prop))
    if reqs and driver_ok:
        outs = C.run_driver(prop, [r for _, r in reqs])
        model_out = {i: o for (i, _), o in zip(reqs, outs)}
    elif reqs:
        broken.append({'kind': 'driver-missing', 'detail': C.driver_path(prop)})
    mismatches, failures = [], []
    hist = collections.Counter()
    distinct = set()
    for i, c in enumerate(cases):
        got, orc = results[i]
        hist[c.get('kind', '?')] += 1
        if c.get('nontrivial', True):
            distinct.add(json.dumps(c.get('req', c.get('id')), sort_keys=True, default=str))
        if got.startswith('harness-exception') and not orc:
            # the observer itself raised while reading what the implementation handed back (e.g. a values array whose
            # shape contradicts the object's shape): the case is a concrete failing input, not an infrastructure problem
            orc = ('observer-exception:' + got.split(':')[1],
                   'the result of the implementation could not be observed: ' + got[:300])
        if i in model_out and model_out[i] != got:
            mismatches.append((c, got, model_out[i]))
        if orc:
            failures.append((c, orc[0], orc[1], got))
    # 5. classify
    known = C.load_known()
    violations, known_hit = [], {}
    for c, sig, what, got in failures:
        k = C.match_known(prop, sig, known)
        if k:
            known_hit.setdefault(k['id'], (k, 0))
            known_hit[k['id']] = (k, known_hit[k['id']][1] + 1)
        else:
            violations.append({'case': c, 'sig': sig, 'what': what, 'implementation': got})
    failed_ids = {id(c) for c, *_ in failures}
    unexplained = [(c, g, m) for c, g, m in mismatches if id(c) not in failed_ids]
    searched = 0
    if unexplained or broken:
        # failing-input search: neighbours of the mismatching cases, judged by the direct oracle
        for c, g, m in unexplained[:20]:
            for nb in list(getattr(mod, 'neighbours', lambda c: [])(c))[:200]:
                searched += 1
                o = safe_oracle(mod, nb)
                if o and not C.match_known(prop, o[0], known):
                    violations.append({'case': nb, 'sig': o[0], 'what': o[1], 'found_by': 'search near a correspondence mismatch'})
                    break
    out_lines = []
    for kid, (k, n) in sorted(known_hit.items()):
        out_lines.append('KNOWN-FINDING: property=%s %s (%d cases; %s)' % (prop, k['what'], n, kid))
    nviol = 0
    seen_sig = set()
    for v in violations:
        if v['sig'] in seen_sig:
            continue
        seen_sig.add(v['sig'])
        path = C.write_replay(prop, {'property': prop, 'case': v['case'], 'signature': v['sig'], 'what': v['what'],
                                     'implementation': v.get('implementation'),
                                     'reproduce': './check %s --replay <this file>' % prop})
        out_lines.append('VIOLATION property=%s replay=%s' % (prop, path))
        nviol += 1
    if not violations and (unexplained or broken):
        payload = {'property': prop, 'case': None,
                   'broken': {'obligations': broken,
                              'correspondence': [{'case': c, 'implementation': g, 'model': m} for c, g, m in unexplained[:10]]},
                   'note': 'the theorem or the model/code correspondence named here no longer checks; '
                           'the direct oracle found no failing input among %d cases and %d neighbours' % (len(cases), searched)}
        path = C.write_replay(prop, payload)
        out_lines.append('VIOLATION property=%s replay=%s no-failing-input-found' % (prop, path))
        nviol += 1
    # 6. evidence
    nt_rule = getattr(mod, 'RULE', 'cases are distinct by request line; non-trivial per module flag')
    samples = [{'req': C.sx(c['req']) if c.get('req') is not None else c.get('id'), 'implementation': results[i][0],
                'model': model_out.get(i)} for i, c in list(enumerate(cases))[:: max(1, len(cases) // 5)][:6]]
    ev = {
        'property_id': prop, 'tier': tier, 'seed': seed, 'level': 'proof',
        'coverage': {
            'obligations': obligations, 'discharged': discharged,
            'checker_cmd': 'cd lean && lake build %s && lake env lean PMV/Audit/%s.lean' % (' '.join(modules), prop)
                           + (' && lake env leanchecker ' + ' '.join(modules) if tier == 'thorough' else ''),
            'trusted_base': C.TRUSTED_BASE + list(getattr(mod, 'TRUSTED_EXTRA', [])),
            'theorems': names,
            'axioms_used': sorted({a for v in axioms.values() for a in v}),
            'leanchecker': leanchecker,
            'generated_tables': gen_info,
            'evaluations': len(cases),
            'distinct_nontrivial': len(distinct),
            'rule': nt_rule,
            'samples': samples,
            'input_distribution': dict(hist),
            'correspondence_cases': len(reqs), 'correspondence_mismatches': len(mismatches),
            'disagreements_checked': len(mismatches) + len(failures),
            'oracle_failures': len(failures), 'known_findings_hit': sorted(known_hit),
            'corpus_cases': len(corpus), 'search_neighbours_tried': searched,
        },
        'assumptions': list(getattr(mod, 'ASSUMPTIONS', [])),
        'wall_s': round(time.time() - t0, 2),
        'violations': nviol,
    }
    C.write_evidence(prop, ev)
    for l in out_lines:
        print(l)
    print('%s tier=%s seed=%d: %d theorems (%d discharged), %d cases (%d via model), %d mismatches, '
          '%d oracle failures, %d known, %d violations, %.1fs'
          % (prop, tier, seed, obligations, discharged, len(cases), len(reqs), len(mismatches), len(failures),
             len(known_hit), nviol, time.time() - t0))
    return 1 if nviol else 0


def load_corpus(prop):
    d = os.path.join(C.VERIF, 'corpus', prop)
    res = []
    if os.path.isdir(d):
        for f in sorted(os.listdir(d)):
            if f.endswith('.json'):
                c = json.load(open(os.path.join(d, f)))
                c['kind'] = 'corpus'
                res.append(c)
    return res


if __name__ == '__main__':
    main()
