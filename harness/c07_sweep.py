"""C07 helpers: API introspection, operand construction from JSON descriptors, deep snapshots,
module-level constants, aliasing classification (np.shares_memory)."""
import inspect, warnings
import numpy as np
import polymath
from polymath import (Qube, Scalar, Boolean, Vector, Vector3, Pair, Matrix, Matrix3, Quaternion,
                      Polynomial, Units)

CLASSES = {c.__name__: c for c in (Qube, Scalar, Boolean, Vector, Vector3, Pair, Matrix, Matrix3,
                                   Quaternion, Polynomial, Units)}
QCLASSES = [c for c in CLASSES.values() if c is not Units and c is not Qube]

# ------------------------------------------------------------------------------------------------
# the in-place API: documented as modifying the receiver (never flagged)
INPLACE = {'__setitem__', '__setstate__', '__init__', '__new__', 'set_units', 'insert_deriv', 'insert_derivs',
           'delete_deriv', 'delete_derivs', 'as_readonly', 'match_readonly', 'set_pickle_digits',
           'set_default_pickle_digits', 'set_name', 'require_writable', '__setattr__', '__delattr__'}
# match_readonly: "Sets the read-only status of this object"; set_pickle_digits/set_default_pickle_digits: "Set the
# desired number of digits ..."; Units.set_name: "Sets the name"; require_writable: documented as internal helper of
# the modifying methods.
SKIP = {'__class__', '__dict__', '__weakref__', '__doc__', '__module__', '__hash__', '__init_subclass__',
        '__subclasshook__', '__getattribute__', '__dir__', '__reduce__', '__reduce_ex__', '__sizeof__', '__format__',
        '__getstate__',      # pickling is C11's; encodes large arrays
        'pickle'}


def is_inplace(name):
    if name in INPLACE:
        return True
    return name.startswith('__i') and name.endswith('__') and name not in ('__invert__', '__iter__', '__init__',
                                                                            '__int__', '__index__')


def is_public(name):
    if name in SKIP:
        return False
    if name.startswith('__') and name.endswith('__'):
        return True
    return not name.startswith('_')


def api_table():
    """[(class name, member name, how, defining class name)] for every public non-mutating callable/property that a
    receiver of the class answers to (own and inherited), found by introspection.  how = method|static|class|prop"""
    rows = []
    for cname, cls in CLASSES.items():
        for name in sorted(dir(cls)):
            if not is_public(name) or is_inplace(name):
                continue
            raw, owner = None, None
            for k in cls.__mro__:
                if name in vars(k):
                    raw, owner = vars(k)[name], k
                    break
            if raw is None or owner is object:
                continue
            if isinstance(raw, staticmethod):
                how = 'static'
            elif isinstance(raw, classmethod):
                how = 'class'
            elif isinstance(raw, property):
                how = 'prop'
            elif inspect.isfunction(raw):
                how = 'method'
            else:
                continue        # class constants, modules
            rows.append((cname, name, how, owner.__name__))
    return rows


def signature_of(cname, name):
    cls = CLASSES[cname]
    raw = inspect.getattr_static(cls, name)
    f = raw.__func__ if isinstance(raw, (staticmethod, classmethod)) else raw
    try:
        ps = list(inspect.signature(f).parameters.values())
    except (TypeError, ValueError):
        return []
    if ps and ps[0].name in ('self', 'cls') and not isinstance(raw, staticmethod):
        ps = ps[1:]
    return ps


# ------------------------------------------------------------------------------------------------
# module-level shared constants, found by introspection
def constants():
    """{path: object} for every class attribute that is a Qube or a Units (and the Units registries)"""
    res = {}
    for cname, cls in CLASSES.items():
        for name, v in vars(cls).items():
            if isinstance(v, (Qube, Units)):
                res['%s.%s' % (cname, name)] = v
            elif cname == 'Units' and isinstance(v, (list, tuple)):
                for i, x in enumerate(v):
                    if isinstance(x, Units):
                        res['Units.%s[%d]' % (name, i)] = x
            elif cname == 'Units' and isinstance(v, dict):
                for k, x in v.items():
                    if isinstance(x, Units):
                        res['Units.%s[%r]' % (name, k)] = x
            elif isinstance(v, np.ndarray):
                res['%s.%s' % (cname, name)] = v
            elif isinstance(v, tuple) and v and all(isinstance(x, Qube) for x in v):
                for i, x in enumerate(v):
                    res['%s.%s[%d]' % (cname, name, i)] = x
    return res


CONSTS = constants()


# ------------------------------------------------------------------------------------------------
# deep snapshots.  A snapshot is a flat dict  (root, objpath, field) -> hashable  so that a difference names
# what changed.  field in: values, values.writeable, mask, mask.writeable, units.identity, units.<attr>, readonly,
# derivs.keys, derivs.identity, value (plain Python things), len
def snap_array(a, root, path, field, out):
    if isinstance(a, np.ndarray):
        out[(root, path, field)] = (a.dtype.str, a.shape, a.tobytes())
        out[(root, path, field + '.writeable')] = bool(a.flags.writeable)
        out[(root, path, field + '.__id__')] = id(a)
    else:
        out[(root, path, field)] = (type(a).__name__, repr(a))


def snap_units(u, root, path, out):
    if u is None:
        out[(root, path, 'units.identity')] = None
        return
    out[(root, path, 'units.identity')] = id(u)
    if isinstance(u, Units):
        for k, v in sorted(vars(u).items()):
            out[(root, path, 'units.' + k)] = repr(v)


def snap(o, root, out, path='', depth=0):
    """record everything the property names: values, mask, units (all fields of the Units object), the set and the
    contents of the derivatives, the read-only marks"""
    if isinstance(o, Qube):
        d = o.__dict__
        out[(root, path, '__id__')] = id(o)
        snap_array(d.get('_values_'), root, path, 'values', out)
        snap_array(d.get('_mask_'), root, path, 'mask', out)
        snap_units(d.get('_units_'), root, path, out)
        out[(root, path, 'readonly')] = bool(d.get('_readonly_'))
        derivs = d.get('_derivs_', {})
        out[(root, path, 'derivs.keys')] = tuple(sorted(derivs))
        out[(root, path, 'derivs.identity')] = tuple(id(derivs[k]) for k in sorted(derivs))
        if depth < 3:
            for k in sorted(derivs):
                snap(derivs[k], root, out, path + '.d_d' + k, depth + 1)
    elif isinstance(o, Units):
        snap_units(o, root, path, out)
    elif isinstance(o, np.ndarray):
        snap_array(o, root, path, 'values', out)
    elif isinstance(o, (list, tuple)):
        out[(root, path, 'len')] = len(o)
        if depth < 4:
            for i, x in enumerate(o):
                snap(x, root, out, '%s[%d]' % (path, i), depth + 1)
    elif isinstance(o, dict):
        out[(root, path, 'len')] = tuple(sorted(map(repr, o)))
        if depth < 4:
            for k in o:
                snap(o[k], root, out, '%s[%r]' % (path, k), depth + 1)
    else:
        out[(root, path, 'value')] = (type(o).__name__, repr(o) if isinstance(
            o, (int, float, str, bool, type(None), complex, slice, type(Ellipsis))) else '')
    return out


def snap_consts():
    out = {}
    for p, o in CONSTS.items():
        snap(o, 'const:' + p, out)
    return out


class Pristine:
    """deep copies of the constants, to put them back after a defect has damaged one (keeps cases independent)"""
    def __init__(self):
        self.units = {p: dict(vars(o)) for p, o in CONSTS.items() if isinstance(o, Units)}
        self.arrays = {}
        for p, o in CONSTS.items():
            if isinstance(o, Qube):
                self.arrays[p] = self._qube_state(o)
            elif isinstance(o, np.ndarray):
                self.arrays[p] = (o.copy(), bool(o.flags.writeable))

    @staticmethod
    def _qube_state(o):
        d = o.__dict__
        st = {}
        for k in ('_values_', '_mask_'):
            v = d[k]
            st[k] = (v.copy(), bool(v.flags.writeable)) if isinstance(v, np.ndarray) else v
        st['_units_'] = d['_units_']
        st['_readonly_'] = d['_readonly_']
        st['_derivs_'] = dict(d['_derivs_'])
        st['derivs'] = {k: Pristine._qube_state(v) for k, v in d['_derivs_'].items()}
        return st

    @staticmethod
    def _restore_array(cur, saved):
        if isinstance(saved, tuple) and isinstance(saved[0], np.ndarray):
            arr, wr = saved
            if isinstance(cur, np.ndarray) and cur.shape == arr.shape and cur.dtype == arr.dtype:
                try:
                    cur.flags.writeable = True
                    cur[...] = arr
                    cur.flags.writeable = wr
                    return cur
                except ValueError:
                    pass
            new = arr.copy()
            new.flags.writeable = wr
            return new
        return saved

    def _restore_qube(self, o, st):
        d = o.__dict__
        for k in ('_values_', '_mask_'):
            d[k] = self._restore_array(d.get(k), st[k])
        d['_units_'] = st['_units_']
        d['_readonly_'] = st['_readonly_']
        for k in list(d):
            if k.startswith('d_d'):
                del d[k]
        d['_derivs_'] = dict(st['_derivs_'])
        for k, v in st['_derivs_'].items():
            d['d_d' + k] = v
            self._restore_qube(v, st['derivs'][k])
        d['_cache_'] = {}

    def restore(self):
        for p, st in self.units.items():
            CONSTS[p].__dict__.clear()
            CONSTS[p].__dict__.update(st)
        for p, st in self.arrays.items():
            o = CONSTS[p]
            if isinstance(o, Qube):
                self._restore_qube(o, st)
            else:
                self._restore_array(o, st)


PRISTINE = Pristine()
CONST_SNAP0 = snap_consts()


# ------------------------------------------------------------------------------------------------
# operands from JSON descriptors
ITEMS = {'Scalar': [[]], 'Boolean': [[]], 'Vector': [[2], [3], [4]], 'Vector3': [[3]], 'Pair': [[2]],
         'Matrix': [[2, 2], [3, 3], [2, 3]], 'Matrix3': [[3, 3]], 'Quaternion': [[4]], 'Polynomial': [[2], [3], [4]]}


def _values(seed, shape, dtype, style=None):
    r = np.random.RandomState(seed % (2 ** 31))
    n = int(np.prod(shape, dtype=int))
    if dtype == 'bool':
        return (r.randint(0, 2, size=n) > 0).reshape(shape)
    if dtype == 'int':
        return r.randint(-3, 4, size=n).reshape(shape).astype('int64')
    v = r.randint(-16, 17, size=n).astype('float64') / 8.0
    if style == 'unit':              # angles / small magnitudes
        v = v / 4.0
    if style == 'pos':               # positive (fractional powers stay real)
        v = np.abs(v) + 0.5
    return v.reshape(shape)


def mk_qube(d):
    cls = CLASSES[d['cls']]
    shape, numer, denom = list(d['shape']), list(d.get('numer', [])), list(d.get('denom', []))
    full = shape + numer + denom
    dtype = d.get('dtype', 'float')
    seed = d.get('seed', 0)
    vals = _values(seed, full, dtype, d.get('style'))
    if d.get('style') == 'one':
        vals = np.ones(full, dtype=vals.dtype)
    if d['cls'] == 'Matrix3' and d.get('style') == 'rot':
        # proper rotation matrices about z
        ang = _values(seed, shape, 'float')
        vals = np.zeros(full)
        vals[..., 0, 0] = np.cos(ang); vals[..., 0, 1] = np.sin(ang)
        vals[..., 1, 0] = -np.sin(ang); vals[..., 1, 1] = np.cos(ang); vals[..., 2, 2] = 1.
    if d.get('zrow') and vals.size:
        # an all-zero item (e.g. an all-zero coefficient row of a Polynomial) at chosen positions of the leading shape
        isz = int(np.prod(numer + denom, dtype=int)) or 1
        flat = vals.reshape(-1, isz)
        for pos in d['zrow']:
            flat[pos % flat.shape[0]] = 0
    if d.get('put') and vals.size:
        # boundary values placed at the ends (e.g. the `top` of Scalar.int) 
        flat = vals.reshape(-1)
        flat[0] = d['put']
        flat[-1] = d['put']
    if d.get('singular') and len(numer) == 2 and vals.size:
        vals.reshape((-1,) + tuple(numer + denom))[0] = 0.
    if d.get('pyscalar') and full == []:
        vals = vals.item()
    m = d.get('mask', 'F')
    if m == 'F':
        mask = False
    elif m == 'T':
        mask = True
    elif isinstance(m, list):
        mask = np.array(m, dtype=bool).reshape(shape)
    else:
        bits = _values(seed + 17, shape, 'bool') if shape else np.array(False)
        if m == 'V' and len(shape) >= 1 and shape[0] > 1:
            mask = np.broadcast_to(bits[:1], tuple(shape))
        elif m == 'Z':
            mask = np.zeros(shape, dtype=bool) if shape else False
        else:
            mask = bits if shape else bool(bits)
    kw = {}
    if denom:
        kw['drank'] = len(denom)
    if cls in (Vector, Polynomial, Matrix) and 'numer' in d and cls is Matrix and len(numer) != 2:
        kw['nrank'] = len(numer)
    u = d.get('units')
    if u:
        kw['units'] = getattr(Units, u)
    q = cls(vals, mask, **kw)
    for k, dd in sorted(d.get('derivs', {}).items()):
        q.insert_deriv(k, mk_qube(dd))
    if d.get('ro'):
        q.as_readonly()
    return q


def build(desc, built):
    """descriptor -> real object; `built` = objects built so far (operand 0 = receiver), for aliasing"""
    if not isinstance(desc, dict):
        return desc
    k = desc['k']
    if k == 'q':
        return mk_qube(desc)
    if k == 'ref':                      # the very same object
        return built[desc['i']]
    if k == 'clone':                    # a different object sharing all arrays
        return built[desc['i']].clone()
    if k == 'wod':
        return built[desc['i']].wod
    if k == 'view':                     # a different object on views of the same memory
        b = built[desc['i']]
        v = b._values_
        if isinstance(v, np.ndarray):
            v = v[...]
        return type(b)(v, b._mask_[...] if isinstance(b._mask_, np.ndarray) else b._mask_, example=b)
    if k == 'vals':                     # the bare values array of an operand
        return built[desc['i']]._values_
    if k == 'maskof':
        return built[desc['i']]._mask_
    if k == 'const':
        return CONSTS[desc['path']]
    if k == 'py':
        return desc['v']
    if k == 'npf':
        return np.float64(desc['v'])
    if k == 'tuple':
        return tuple(build(x, built) for x in desc['v'])
    if k == 'list':
        return [build(x, built) for x in desc['v']]
    if k == 'dict':
        return {kk: build(x, built) for kk, x in desc['v'].items()}
    if k == 'nd':
        return _values(desc.get('seed', 0), desc['shape'], desc.get('dtype', 'float'))
    if k == 'slice':
        return slice(*desc['v'])
    if k == 'ellipsis':
        return Ellipsis
    if k == 'units':
        return getattr(Units, desc['name'])
    if k == 'newunits':
        return Units(tuple(desc['expo']), tuple(desc['triple']), desc.get('name'))
    if k == 'class':
        return CLASSES[desc['name']]
    if k == 'classes':
        return tuple(CLASSES[n] for n in desc['v'])
    raise KeyError(k)


# ------------------------------------------------------------------------------------------------
# aliasing classification of a result w.r.t. the operands
def arrays_of(o, path, out, depth=0):
    """[(path, ndarray)] for every array reachable from a Qube / container"""
    if isinstance(o, Qube):
        for nm in ('values', 'mask'):
            a = o.__dict__.get('_%s_' % nm)
            if isinstance(a, np.ndarray):
                out.append((path + '.' + nm, a))
        if depth < 2:
            for k in sorted(o._derivs_):
                arrays_of(o._derivs_[k], path + '.d_d' + k, out, depth + 1)
    elif isinstance(o, np.ndarray):
        out.append((path, o))
    elif isinstance(o, (list, tuple)) and depth < 3:
        for i, x in enumerate(o):
            arrays_of(x, '%s[%d]' % (path, i), out, depth + 1)
    return out


def shares(a, b):
    if a.size == 0 or b.size == 0:
        return False
    try:
        return bool(np.shares_memory(a, b))
    except Exception:
        return bool(np.may_share_memory(a, b))


# ------------------------------------------------------------------------------------------------
# observation hook (harness side only): which objects were broadcast to a different shape during a call
BROADCAST_LOG = set()
_orig_broadcast_to = Qube.broadcast_to


def _logging_broadcast_to(self, shape, *a, **k):
    try:
        if tuple(shape) != self._shape_:
            BROADCAST_LOG.add(id(self))
            BROADCAST_LOG.add(id(self._values_))
            BROADCAST_LOG.add(id(self._mask_))
    except Exception:
        pass
    return _orig_broadcast_to(self, shape, *a, **k)


_logging_broadcast_to.__doc__ = _orig_broadcast_to.__doc__
_logging_broadcast_to.__wrapped__ = _orig_broadcast_to
Qube.broadcast_to = _logging_broadcast_to
