"""C12 — units behave as dimensional algebra over values held in standard units."""
import itertools, math, numbers
from fractions import Fraction as Fr
import numpy as np
from absn import *
import common as C
import c12_ref as R
from c12_ops import *

PROP = 'C12'
LEAN_MODULES = ['PMV.Props.C12', 'PMV.Props.C12Print']
PARALLEL = True
MANIFEST = {
    'text': 'Kernel-checked theorems (PMV/Props/C12.lean) about an exact, code-shaped Lean model of polymath/units.py '
            '(exponent triple, integer numerator/denominator reduced by the gcd loop of __init__, explicit power of pi): '
            'canonical form, commutativity, associativity, (a*b)/b = a, a/a = 1, power laws, sqrt(a*a) = a, exact '
            'conversion and its round trip, into_units/from_units mutually inverse on values and derivatives over Q*pi^k, '
            'set/remove units leaves stored values alone, unit changes reach the cached derivative-free view after histories '
            'of any length, the units rule of every object operation (match required / exponents combine / angle or pure '
            'number required), the rule that a result\'s derivative carries result units / denominator units (x / ** sqrt '
            'norm reciprocal), and printability: with the module tables intact str(u) succeeds for every exponent and factor '
            'triple and every name the name algebra can produce (create_name / name_to_str modelled, dictionary -> string). Tied to /repo on every run: the same operands go to the '
            'real code and to the compiled model (all pairs of the named units, generated products/quotients/powers with '
            'exponents -3..3, every unit-aware operation on every class), canonical outputs are diffed, and an independent '
            'fractions.Fraction reference with an explicit pi exponent judges every result, its printability and the '
            'integrity of the shared Units constants.',
    'design': 'DESIGN.md §3 C12, DESIGN.d/C12.md',
    'technique': 'Lean 4 proof (rational-number semantics of the normal form, Mathlib Nat.gcd/Nat.sqrt/Rat) + '
                 'model/code correspondence + exact rational oracle',
    'note': 'Trusted: Lean kernel; hand-written model Model/Units.lean (checked against the code by the correspondence run); '
            'float triples (sqrt of non-squares, odd powers of pi, non-dyadic float coefficients) are outside the exact '
            'model and judged by the oracle with a tolerance only; the name parser is exercised, not modelled.',
}
RULE = ('Units level: all ordered pairs of the named Units constants (quick) and all triples of the distinct named values '
        '(thorough) under * / and the algebraic laws, every named unit under ** k/2 (k=-6..6), sqrt, number scaling, the '
        'static helpers with None operands and explicit names, the compatibility tests and convert(); plus generated '
        'products/quotients/powers of one distance, one time and one angle unit with exponents -3..3. Object level: every '
        'unit-aware operation (+ - += -= * / *= /= ** sqrt reciprocal norm norm_sq dot cross outer element_mul/div == != '
        '< <= > >= stack from_scalars arctan2 sin cos tan exp arcsin arccos arctan int frac log inverse rotations) on every '
        'class that allows units with operand units drawn from {None, named, generated}, and constructor/set_units on the '
        'classes that disallow units; into_units/from_units/set_units/without_units with derivatives; histories: object '
        'with derivatives, cached views touched (.wod, antimask, product, norm), units changed by set_units / '
        'without_units / into_units / from_units / on a clone() or copy(), then the operation catalogue on the object '
        'and on its .wod; n-ary combiners (from_scalars of every class, stack) with 2-5 components, exhaustive over '
        '{None, KM, M, S}^n for n <= 4. A case is '
        'non-trivial when at least one operand has units other than None/UNITLESS; distinct = distinct request line.')
ASSUMPTIONS = ['numerators and denominators are positive integers (the constructor is not modelled for zero or negative '
               'coefficients); float triples are outside the exact model (answer "inexact")',
               'the float tests `factor == 1.` of into_units/from_units are read exactly (numer == denom and pi exponent 0)',
               '"mutually inverse" is proved exactly in the model and compared within 4 ulp on the code (DESIGN.md §8.4)',
               'printing: the registry tables are a parameter of the theorem (stdReg = the module tables); the digits of a '
               'float coefficient and the string parser name_to_dict are not modelled',
               'Scalar ** p for p neither integer nor half-integer is specified only for pure numbers (accepted); '
               'Scalar.log of a distance/time is judged a defect (KF-C12-1, recorded, model faithful)',
               'the history model is purely functional: sharing of caches between an object and its clone/copy is tied '
               'by execution only']
TRUSTED_EXTRA = ['math.isqrt (CPython) returns the floor of the exact square root (modelled by Nat.sqrt)',
                 'independent table of the physical definitions of the named units (harness/c12_ref.py)']


# ------------------------------------------------------------------ implementation side
_LAST = [None, None]


def _run_once(case):
    """check.py calls impl(case) and then oracle(case) on the same object: run the real code once for both"""
    if _LAST[0] is not case:
        _LAST[0], _LAST[1] = case, run(case)
    return _LAST[1]


def impl(case):
    obs, _ = _run_once(case)
    return obs


def oracle(case):
    obs, info = _run_once(case)
    return judge(case, obs, info)


# ------------------------------------------------------------------ generation
def names_all():
    return list(R.NAMES)

def names_distinct():
    seen, out = set(), []
    for n in R.NAMES:
        k = R.ref_of(n)
        if k not in seen:
            seen.add(k); out.append(n)
    return out

DIST = ['KM', 'M', 'CM', 'MM', 'MICRON', 'KILOMETERS', 'METERS']
TIME = ['S', 'D', 'H', 'MIN', 'MSEC', 'SECOND', 'HOURS']
ANGLE = ['RAD', 'MRAD', 'DEG', 'ARCSEC', 'ARCMIN', 'ARCHOUR', 'CYCLES', 'STER', 'REV', 'DEGREES']

def gen_unit(rng):
    """product/quotient of powers of one distance, one time and one angle unit, exponents -3..3"""
    spec = None
    parts = [(rng.choice(DIST), rng.randint(-3, 3)), (rng.choice(TIME), rng.randint(-3, 3)),
             (rng.choice(ANGLE), rng.randint(-3, 3))]
    rng.shuffle(parts)
    for name, k in parts:
        if k == 0 and rng.random() < 0.6:
            continue
        form = rng.random()
        if k < 0 and form < 0.5 and spec is not None:
            term = ['**', name, -k]; spec = ['/', spec, term]; continue
        term = name if (k == 1 and form < 0.7) else ['**', name, k]
        spec = term if spec is None else ['*', spec, term]
    return spec if spec is not None else 'UNITLESS'

def nontrivial_spec(*specs):
    for s in specs:
        if s is not None and s != 'UNITLESS':
            return True
    return False

def mk(case):
    case['req'] = request(case)
    case['kind'] = kind_of(case)
    case['nontrivial'] = nontrivial_spec(*([case.get(k) for k in ('a', 'b', 'c', 'u', 'cur', 'new')] + list(case.get('us', []))))
    return case

def gen_cases(rng, tier):
    thorough = tier == 'thorough'
    cases = []
    allnames, distinct = names_all(), names_distinct()
    add = lambda **kw: cases.append(mk(kw))

    # ---- Units level: every ordered pair of the named constants
    for a in allnames:
        for b in allnames:
            add(op='mul', a=a, b=b)
            add(op='div', a=a, b=b)
            add(op='names', fn='mul', a=a, b=b)
            add(op='names', fn='div', a=a, b=b)
        for k in range(-3, 4):
            add(op='names', fn='pow', a=a, k=k)
        add(op='names', fn='sqrt', a=['*', a, a])
        add(op='names', fn='sqrt', a=['*', ['*', a, 'M'], ['*', 'M', a]])
        add(op='names', fn='sqrt', a=['*', ['*', a, a], ['**', 'S', 0]])
    for a in ('STER', ['*', 'M', 'KM'], ['*', 'DEG', 'RAD'], ['**', 'MICRON', 6]):
        add(op='names', fn='sqrt', a=a)
    for a in distinct:
        for b in distinct:
            for law in ('comm', 'cancel', 'cancel2', 'sqrtmul'):
                add(op='law', law=law, a=a, b=b)
            add(op='convert', a=a, b=b, value=rng.choice([1.0, 0.5, 3.0, 2.75, -1.25]))
            for fn in ('can_match', 'do_match', 'eq', 'ne'):
                add(op='test', fn=fn, a=a, b=b)
            for fn in ('mul_units', 'div_units'):
                add(op='static', fn=fn, a=a, b=b, name=None)
    # equal rational coefficient, different power of pi (REV/2 against RAD, 180*DEG against RAD, …): the "factor is unity"
    # shortcut of Units.convert must look at the pi exponent too (seeded change C12v-a)
    for a in distinct:
        for b in distinct:
            ra, rb = R.ref_of(a), R.ref_of(b)
            if ra[0] == rb[0] and ra[2] != rb[2]:
                q = ra[1] / rb[1]
                b2 = ['num*', b, q.numerator, q.denominator]
                add(op='convert', a=a, b=b2, value=rng.choice([1.0, 0.5, 3.0, 2.75, -1.25]))
                add(op='convert', a=b2, b=a, value=rng.choice([1.0, 0.5, 3.0, 2.75, -1.25]))
    for a in allnames:
        add(op='law', law='divself', a=a)
        add(op='law', law='sqrtsq', a=a)
        add(op='sqrt', a=a)
        add(op='sqrt', a=['*', a, a])
        for k2 in range(-6, 7):
            add(op='powr', a=a, p=k2)
            add(op='static', fn='units_power', a=a, p=k2, name=None)
        add(op='powr', a=a, p='other')
        for k in (1, 2, 3, 7, 10, 60, 256, 1000):
            add(op='mulnat', a=a, k=k); add(op='divnat', a=a, k=k); add(op='rdivnat', a=a, k=k)
        for (n, d) in ((5, 2), (1, 8), (3, 256), (1, 10)):
            add(op='mulnum', a=a, n=n, d=d)
        for fn in ('is_angle', 'is_unitless'):
            add(op='test', fn=fn, a=a, b=None)
        add(op='test', fn='is_angle', a=['*', a, a], b=None)
        for fn in ('mul_units', 'div_units'):
            for nm in (None, 'xyz'):
                add(op='static', fn=fn, a=a, b=None, name=nm)
                add(op='static', fn=fn, a=None, b=a, name=nm)
        for nm in (None, 'xyz'):
            add(op='static', fn='sqrt_units', a=['*', a, a], name=nm)
            add(op='static', fn='units_power', a=a, p=4, name=nm)
        add(op='static', fn='sqrt_units', a=a, name=None)
        for (p, q) in ((2, 3), (-1, 3), (-2, -1), (0, 2), (3, -3)):
            add(op='law', law='powadd', a=a, p=p, q=q)
        for p in (1, 2, 3):
            add(op='law', law='powneg', a=a, p=p)
    for fn in ('mul_units', 'div_units'):
        add(op='static', fn=fn, a=None, b=None, name=None)
    for fn in ('can_match', 'do_match', 'is_angle', 'is_unitless'):
        add(op='test', fn=fn, a=None, b=None)
        for a in distinct:
            add(op='test', fn=fn, a=a, b=None); add(op='test', fn=fn, a=None, b=a)
    add(op='static', fn='sqrt_units', a=None, name=None)
    add(op='static', fn='units_power', a=None, p=4, name=None)
    # constructor on unreduced integer triples
    for _ in range(200 if thorough else 60):
        add(op='mk', e=[rng.randint(-3, 3) for _ in range(3)], n=rng.choice([1, 2, 6, 60, 180, 256, 1000, 3600, 10**12]),
            d=rng.choice([1, 2, 4, 12, 180, 512, 1000, 86400, 10**15]), p=rng.randint(-3, 3))

    # ---- printing: str(u) of every named constant, of all pairwise products/quotients (with the name the
    #      algebra gives them, without a name, through the static helpers), of powers, and with one registered unit
    #      deliberately stripped of its name (the damage of defect 13: the model must fail exactly where the code does)
    for a in allnames:
        add(op='str', a=a)
        add(op='str', a=a, how='noname')
        for k in range(-4, 5):
            add(op='str', a=['**', a, k]); add(op='str', a=a, how='power', k=k)
        for (n, d) in ((5, 2), (7, 1), (1, 8)):
            add(op='str', a=['num*', a, n, d])
    for a in (allnames if thorough else distinct):
        for b in (allnames if thorough else distinct):
            add(op='str', a=['*', a, b]); add(op='str', a=['/', a, b])
            add(op='str', a=['*', a, b], how='noname'); add(op='str', a=['/', a, b], how='noname')
            add(op='str', a=a, b=b, how='helper')
    for dmg in ('KM', 'S', 'RAD', 'DEG', 'M'):
        for a in ['KM', 'M', 'S', 'DEG', 'RAD', 'STER', ['*', 'KM', 'S'], ['/', 'M', 'S'], ['*', 'DEG', 'MIN'], ['**', 'KM', 2]]:
            add(op='str', a=a, damage=dmg); add(op='str', a=a, how='noname', damage=dmg)
    # ---- zero coefficients: rejected cleanly
    for a in distinct:
        for fn in ('mul0', 'mulf0', 'div0', 'rdiv0', 'ctor0', 'ctor0d'):
            add(op='zero', fn=fn, a=a)
    # ---- negative coefficients (outside the exact model, which keeps numerators in N: judged by the oracle only;
    #      zero coefficients raise ZeroDivisionError in the constructor and are not specified by the property)
    negs = [(-2, 1), (-5, 2), (-1, 8), (-3, 1)]
    for a in distinct:
        for (n, d) in negs:
            na = ['num*', a, n, d]
            b = rng.choice(distinct)
            nb = ['num*', b, *rng.choice(negs)]
            for other in (b, nb):
                add(op='mul', a=na, b=other); add(op='div', a=na, b=other); add(op='div', a=other, b=na)
                for law in ('comm', 'cancel', 'cancel2'):
                    add(op='law', law=law, a=na, b=other)
            add(op='law', law='assoc', a=na, b=nb, c=rng.choice(distinct))
            add(op='law', law='divself', a=na)
            for p in (-6, -4, -2, 0, 2, 4, 6):
                add(op='powr', a=na, p=p)
            add(op='law', law='powadd', a=na, p=rng.randint(-3, 3), q=rng.randint(-3, 3))
            add(op='static', fn=rng.choice(['mul_units', 'div_units']), a=na, b=rng.choice([None, nb]), name=None)
    # ---- triples
    trip = list(itertools.product(distinct, repeat=3)) if thorough else \
        [tuple(rng.choice(distinct) for _ in range(3)) for _ in range(1500)]
    for (a, b, c) in trip:
        add(op='law', law='assoc', a=a, b=b, c=c)
        if thorough or rng.random() < 0.3:
            add(op='law', law='muldiv', a=a, b=b, c=c)

    # ---- generated units
    ngen = 4000 if thorough else 700
    for _ in range(ngen):
        a, b, c = gen_unit(rng), gen_unit(rng), gen_unit(rng)
        add(op='mul', a=a, b=b); add(op='div', a=a, b=b)
        add(op='str', a=a); add(op='str', a=a, how='noname'); add(op='str', a=['*', a, b], how='noname')
        add(op='str', a=a, b=rng.choice([b, None]), how='helper'); add(op='str', a=a, how='power', k=rng.randint(-3, 3))
        add(op='names', fn='mul', a=a, b=b); add(op='names', fn='div', a=a, b=b)
        add(op='names', fn='pow', a=a, k=rng.randint(-3, 3))
        add(op='names', fn='sqrt', a=['*', a, a]); add(op='names', fn='sqrt', a=['*', ['*', a, b], ['*', b, a]])
        for law in ('comm', 'cancel', 'cancel2', 'sqrtmul'):
            add(op='law', law=law, a=a, b=b)
        add(op='law', law='assoc', a=a, b=b, c=c)
        add(op='law', law='muldiv', a=a, b=b, c=c)
        add(op='law', law='divself', a=a)
        add(op='law', law='sqrtsq', a=a)
        add(op='sqrt', a=a); add(op='sqrt', a=['*', a, a]); add(op='sqrt', a=['*', a, b])
        add(op='powr', a=a, p=rng.randint(-6, 6))
        add(op='law', law='powadd', a=a, p=rng.randint(-3, 3), q=rng.randint(-3, 3))
        add(op='law', law='powneg', a=a, p=rng.randint(0, 3))
        add(op='static', fn=rng.choice(['mul_units', 'div_units']), a=a, b=rng.choice([None, b]), name=rng.choice([None, 'xyz']))
        add(op='static', fn=rng.choice(['mul_units', 'div_units']), a=None, b=b, name=None)
        add(op='static', fn='units_power', a=a, p=rng.randint(-6, 6), name=None)
        add(op='static', fn='sqrt_units', a=['*', a, a], name=None)
        same = ['*', a, ['/', rng.choice(DIST), rng.choice(DIST)]]         # same dimension, other factor
        add(op='convert', a=a, b=same, value=rng.choice([1.0, 0.5, 3.0, 2.75]))
        add(op='convert', a=a, b=b, value=1.0)
        add(op='test', fn=rng.choice(['can_match', 'do_match']), a=a, b=rng.choice([b, same, None]))
        add(op='test', fn=rng.choice(['eq', 'ne']), a=a, b=rng.choice([b, same, a, ['/', ['*', a, b], b]]))
        add(op='test', fn=rng.choice(['is_angle', 'is_unitless']), a=a, b=None)

    # ---- object level
    def units_pool(n):
        pool = [None, 'UNITLESS', 'KM', 'M', 'S', 'MIN', 'RAD', 'DEG', 'STER', 'ARCSEC', 'MICRON', 'CYCLES',
                ['*', 'M', 'M'], ['/', 'KM', 'S'], ['*', 'DEG', 'DEG'], ['**', 'MICRON', 3], ['*', 'M', 'KM'],
                ['*', ['**', 'MICRON', 3], ['**', 'MICRON', 3]], ['/', 'M', 'M'], ['*', 'DEG', 'RAD'],
                ['/', 'M', 'KM'], ['/', 'DEG', 'RAD'], ['/', 'MIN', 'S']]
        return pool + [gen_unit(rng) for _ in range(n)]
    pool = units_pool(30 if thorough else 6)
    small = [None, 'UNITLESS', 'KM', 'M', 'S', 'DEG', ['*', 'M', 'M'], ['/', 'KM', 'S'], 'STER'] + \
        [gen_unit(rng) for _ in range(10 if thorough else 2)]
    for (oname, spec) in OBJ_OPS.items():
        if spec.get('poly'):
            continue
        for cls in spec['classes']:
            for shape in spec.get('shapes', [[], [2]]):
                if spec['arity'] == 2:
                    pairs = [(a, b) for a in small for b in small]
                    pairs += [(rng.choice(pool), rng.choice(pool)) for _ in range(60 if thorough else 10)]
                else:
                    pairs = [(a, None) for a in pool]
                for (ua, ub) in pairs:
                    for p in spec.get('powers', [None]):
                        add(op='rule', oname=oname, cls=cls, shape=shape, a=ua, b=ub, p=p)
    # ---- histories: build an object with derivatives, touch its cached views, change its units, then operate on
    #      the object and on its .wod (the unit-aware catalogue, judged on the units the history gave it)
    hist_ops = [o for o in OBJ_OPS if o not in ('from_scalars', 'arctan2') and not OBJ_OPS[o].get('poly')]
    same_dim = {'KM': ['M', 'MICRON', 'KM'], 'M': ['KM', 'CM'], 'S': ['MIN', 'MSEC'], 'DEG': ['RAD', 'ARCSEC', 'CYCLES'],
                'RAD': ['DEG'], 'UNITLESS': ['UNITLESS']}
    nhist = 40000 if thorough else 9000
    for i in range(nhist):
        oname = hist_ops[i % len(hist_ops)]
        spec = OBJ_OPS[oname]
        cls = rng.choice(spec['classes'])
        shape = rng.choice(spec.get('shapes', [[], [2]]))
        change = rng.choice(HIST_CHANGES)
        if oname in ('eq', 'ne') and change in ('into', 'from'):
            change = 'set_units'            # == compares stored values: the scaled copy differs by construction
        new = rng.choice(['KM', 'M', 'S', 'DEG', 'RAD', 'UNITLESS', ['*', 'M', 'M'], ['/', 'KM', 'S'], 'STER', gen_unit(rng)])
        if change in ('into', 'from', 'without', 'set_none'):
            cur, new = new, None
        else:
            cur = rng.choice([None, None, rng.choice(same_dim[new])]) if isinstance(new, str) and new in same_dim \
                else rng.choice([None, new])
        eff = hist_effective(change, cur, new)
        if spec['arity'] == 2:
            b = rng.choice([eff, eff, None, 'S', 'KM', 'DEG', ['/', 'KM', 'S'], rng.choice(small)])
        else:
            b = None
        nder = rng.choice([1, 1, 2, 0])
        touch = rng.sample(HIST_TOUCHES, rng.randint(0, 3))
        if rng.random() < 0.5 and 'wod' not in touch:
            touch.insert(0, 'wod')
        both = eff is not None and b is not None
        add(op='hist', oname=oname, cls=cls, shape=shape, cur=cur, new=new, change=change, touch=touch,
            target=rng.choice(['obj', 'wod']), nderivs=nder, dunits=bool(eff is not None and (both or spec['arity'] == 1)),
            a=eff, b=b, bderiv=bool(both and spec['arity'] == 2 and nder and rng.random() < 0.6),
            p=rng.choice(spec['powers']) if 'powers' in spec else None)
    # ---- units of the derivatives of results: operands with derivatives d/dT whose units are operand/T (and some
    #      that are not), through every operation that builds derivatives
    ndr = 12000 if thorough else 3500
    dnames = list(DOPS)
    for i in range(ndr):
        oname = dnames[i % len(dnames)]
        spec = OBJ_OPS[oname]
        cls = rng.choice(spec['classes'])
        shape = rng.choice([[], [2]])
        t = rng.choice(['S', 'S', 'MIN', 'DEG', 'KM', gen_unit(rng)])
        a = rng.choice(['KM', 'M', 'S', 'DEG', ['*', 'M', 'M'], ['/', 'KM', 'S'], 'STER', 'UNITLESS', ['**', 'MICRON', 4],
                        gen_unit(rng), None])
        b = rng.choice(['S', 'M', 'KM', 'DEG', ['/', 'KM', 'S'], gen_unit(rng), None]) if spec['arity'] == 2 else None
        def dchoice(u):
            x = rng.random()
            if x < 0.25:
                return '-'
            if x < 0.85 and u is not None:
                return ['/', u, t]
            return rng.choice([None, 'KM', ['/', 'KM', 'S'], 'UNITLESS'])
        da = dchoice(a)
        db = dchoice(b) if spec['arity'] == 2 else '-'
        add(op='drule', oname=oname, cls=cls, shape=shape, a=a, b=b, da=da, db=db, t=t,
            p=rng.choice([-6, -4, -3, -2, -1, 0, 1, 2, 3, 4, 5, 6, 8, 10, 'other']) if 'powers' in spec else None)
    # ---- n-ary combiners: from_scalars of every class and stack with 2..5 components; components without units at
    #      EVERY position (first, middle, last), conflicts between ANY pair (first/later, later/later):
    #      exhaustive over {None, KM, M, S}^n for n <= 4 (n = 3 for the fixed-arity builders), random beyond
    alphabet = [None, 'KM', 'M', 'S']
    def dtypes(fn, n):
        dt = [rng.choice('ifb') for _ in range(n)]
        if fn == 'Matrix.from_scalars' and 'f' not in dt:
            dt[rng.randrange(n)] = 'f'          # a Matrix needs floating-point data (TypeError otherwise, not a units matter)
        return ''.join(dt)
    for fn in NARY:
        arities = NARY_ARITY.get(fn, [2, 3, 4])
        for n in arities:
            for us in itertools.product(alphabet, repeat=n):
                if n == 4 and not thorough and fn not in ('Vector.from_scalars', 'Matrix.from_scalars', 'stack:Scalar') \
                        and rng.random() < 0.6:
                    continue
                add(op='nary', fn=fn, us=list(us), shape=rng.choice([[], [2]]),
                    plain=[rng.random() < 0.5 for _ in us], dt=dtypes(fn, n))
        for _ in range(120 if thorough else 25):
            n = rng.choice(arities) if fn in NARY_ARITY else rng.randint(3, 5)
            base = gen_unit(rng)
            pool_n = [None, None, base, ['*', base, ['/', 'M', 'KM']], ['/', ['*', base, 'KM'], 'M'], gen_unit(rng), 'DEG']
            add(op='nary', fn=fn, us=[rng.choice(pool_n) for _ in range(n)], shape=rng.choice([[], [2]]),
                plain=[rng.random() < 0.5 for _ in range(n)], dt=dtypes(fn, n))
    # component data types drawn independently, in EVERY order: exhaustive over units x {int, float, bool}^n, n <= 3
    for fn in ('stack:Scalar', 'Vector.from_scalars', 'stack:Pair'):
        for n in (2, 3):
            for us in itertools.product(alphabet, repeat=n):
                for dt in itertools.product('ifb' if fn != 'stack:Pair' else 'if', repeat=n):
                    add(op='nary', fn=fn, us=list(us), shape=rng.choice([[], [2]]),
                        plain=[rng.random() < 0.3 for _ in us], dt=''.join(dt))
    # ---- Polynomial (a Vector subclass that allows units): operands of DIFFERENT order, units on either operand;
    #      at_least_order / set_order / deriv keep the units
    punits = [None, 'UNITLESS', 'KM', 'M', 'S', 'DEG', ['/', 'KM', 'S'], ['/', 'KM', 'M']] + [gen_unit(rng) for _ in range(2)]
    for (oname, spec) in OBJ_OPS.items():
        if not spec.get('poly'):
            continue
        for (na, nb) in ((1, 1), (1, 2), (2, 1), (1, 3), (3, 1), (2, 3), (3, 2)):
            for ua in punits:
                for ub in (punits if spec['arity'] == 2 else [None]):
                    if spec['arity'] == 1 and oname != 'poly_deriv' and nb < na:
                        continue
                    if spec.get('inplace') and nb > na:
                        continue            # the order of a Polynomial cannot grow in place (ValueError, not a units matter)
                    add(op='rule', oname=oname, cls='Polynomial', shape=rng.choice([[], [2]]), a=ua, b=ub, p=None, na=na, nb=nb)
    # classes that disallow units: in-place operators by a Scalar whose units are None / UNITLESS / a dimensionless
    # ratio with or without a factor / ordinary
    for cls in NO_UNITS:
        for u in [None, 'UNITLESS', ['/', 'KM', 'KM'], ['/', 'KM', 'M'], ['/', 'DEG', 'RAD'], ['/', 'S', 'MIN'], 'KM', 'DEG',
                  ['/', 'KM', 'S']]:
            for how in INPLACE_NO_UNITS:
                add(op='set', how=how, cls=cls, shape=rng.choice([[], [2]]), cur=None, new=u)
    # classes that disallow units
    for cls in NO_UNITS:
        for u in [None, 'UNITLESS', 'KM', 'DEG', ['/', 'KM', 'S']]:
            for how in ('ctor', 'set_units', 'mul_scalar'):
                add(op='set', how=how, cls=cls, shape=[], cur=None, new=u)
    # attaching / changing / removing units; into / from
    for cls in UNIT_CLASSES:
        for shape in ([], [2]):
            for cur in small:
                for new in small + [rng.choice(pool)]:
                    for how in ('ctor', 'set_units', 'set_units_str'):
                        if how == 'ctor' and cur is not None:
                            continue
                        if how == 'set_units_str' and not (isinstance(new, str) and cls == 'Scalar'):
                            continue
                        add(op='set', how=how, cls=cls, shape=shape, cur=cur, new=new, derivs=[rng.choice(small)])
                add(op='set', how='without', cls=cls, shape=shape, cur=cur, new=None, derivs=[rng.choice(small), None])
            for u in pool + allnames[:: (1 if thorough else 3)]:
                for d in ('into', 'from', 'round', 'round2'):
                    derivs = [] if rng.random() < 0.3 else [rng.choice(pool) for _ in range(rng.randint(1, 2))]
                    add(op='scale', dir=d, cls=cls, shape=shape, u=u, derivs=derivs)
    return cases


def neighbours(case):
    """nearby cases: the same operation on simpler units"""
    out = []
    for key in ('a', 'b', 'c', 'u', 'cur', 'new'):
        if isinstance(case.get(key), list):
            for simple in ('KM', 'M', 'S', 'DEG', 'STER', None):
                if simple is None and case['op'] not in ('rule', 'static', 'set', 'scale'):
                    continue
                out.append(mk(dict(case, **{key: simple})))
    return out
