"""C07 — non-in-place operations never modify their operands or shared constants; copy() shares no writable storage."""
import copy as _copy, json, os, warnings
import numpy as np
import common as C
import c07_sweep as S
import c07_gen as G
import c07_model as M
from c07_sweep import Qube, Units, CLASSES

PROP = 'C07'
LEAN_MODULES = ['PMV.Props.C07']
PARALLEL = True
MANIFEST = {
    'text': 'Kernel-checked frame theorem over a heap model of NumPy aliasing (PMV/Model/Heap.lean: buffers, ndarray '
            'objects with WRITEABLE flags, Qube objects, Units objects; an effect language for method bodies): every '
            'effect summary accepted by the static check `safe` leaves every cell allocated before the call unchanged, '
            'for all heaps and argument tuples including aliased ones, on normal and exceptional exit, the only allowed '
            'effect being the read-only marking done by broadcasting; copy() returns fresh storage and no list of '
            'mutators applied to either object shows in the other (induction). Tied to /repo on every run by (T2) a '
            'translator that regenerates the table of write sites of every public non-mutating method from the source '
            '(definite taint from parameters through view-producing expressions; closed by `decide`) and (T1) an '
            'introspection sweep that brackets every public non-mutating call with a deep snapshot of arguments and of '
            'all module-level constants, plus model/code comparison of the view/fresh classification '
            '(np.shares_memory) and copy/mutate/observe sequences.',
    'design': 'DESIGN.md §3 C07, DESIGN.d/C07.md',
    'technique': 'Lean 4 proof (soundness of a freshness analysis over an effect language, induction over programs and '
                 'mutation histories) + regenerated write-site table + snapshot sweep and model/code correspondence',
    'note': 'Trusted: Lean kernel; the effect summaries of the catalogued methods (checked against the code by the '
            'correspondence run); the write-site translator harness/c07_py2lean.py; NumPy view semantics.',
}
RULE = ('one case = one call of a public non-mutating member (found by introspection over the 11 classes, own and '
        'inherited) with generated receiver and arguments (shapes (), (1,), (3,), (2,3), (0,), (2,1); scalar/array/'
        'broadcast-view masks; units; derivatives; read-only; Python-scalar values; aliased arguments: same object, '
        'clone, view, bare array, shared constant), or one derive/mutate/observe sequence; non-trivial = the call '
        'returned (did not raise) or an aliased/constant argument was involved; distinct = distinct (member, operands)')
ASSUMPTIONS = [
    'the in-place API is: __i*__ operators, __setitem__, set_units, insert_deriv(s), delete_deriv(s), as_readonly, '
    'match_readonly, set_pickle_digits, set_default_pickle_digits, Units.set_name, __init__/__setstate__ on the '
    'receiver (docstrings declare them in-place)',
    'the per-object cache (_cache_) and other private bookkeeping are not operand state (the property names values, '
    'mask, units, derivatives)',
    'read-only marking (WRITEABLE False, _readonly_ True) of an array-valued operand is the documented effect of '
    'broadcasting it (broadcast_to, broadcast_into_shape, Qube.broadcast and members that broadcast their operands '
    'through these)',
    'mutators in copy-independence histories take operands that are not aliases of the other object',
    'Units objects are shared by reference between an object and its copy (they are immutable through the Qube API)',
]
TRUSTED_EXTRA = ['write-site translator harness/c07_py2lean.py (Python ast; definite taint analysis)',
                 'NumPy: basic slicing/reshape/swapaxes/rollaxis/moveaxis/broadcast_to return views, arithmetic/copy/'
                 'astype/fancy indexing return fresh arrays (validated on every run with np.shares_memory)']


# =========================================================================== running one call
def _ops_of(case):
    """build the operand objects (operand 0 = receiver or None)"""
    built = []
    for d in case['ops']:
        built.append(S.build(d, built))
    kwargs = {k: S.build(d, built) for k, d in sorted(case.get('kw', {}).items())}
    return built, kwargs


FUNCS = {
    'copy.copy': lambda o: _copy.copy(o),
    'copy.deepcopy': lambda o: _copy.deepcopy(o),
    'list': lambda o: list(o)[:4],
    'str': lambda o: str(o),
    'repr': lambda o: repr(o),
    'float': lambda o: float(o),
    'int': lambda o: int(o),
    'bool': lambda o: bool(o),
    'len': lambda o: len(o),
    'abs': lambda o: abs(o),
    'round': lambda o: round(o, 1),
}


def _invoke(case, built, kwargs):
    cls = CLASSES[case['cls']]
    how, name = case['how'], case['name']
    args = built[1:]
    if how == 'prop':
        return getattr(built[0], name)
    if how in ('static', 'class'):
        return getattr(cls, name)(*args, **kwargs)
    if how == 'ctor':
        return cls(*args, **kwargs)
    if how == 'func':          # builtin applied to the receiver: copy.copy, list, ...
        return FUNCS[name](built[0], *args)
    return getattr(built[0], name)(*args, **kwargs)


_memo = {}


def run_call(case):
    key = (case['type'], case['id'])       # content key (ids of dead dicts are reused)
    if _memo.get('key') == key:
        return _memo['val']
    with warnings.catch_warnings():
        warnings.simplefilter('ignore')
        np_err = np.seterr(all='ignore')
        try:
            val = _run_seq(case) if case['type'] == 'seq' else _run_call(case)
        finally:
            np.seterr(**np_err)
    _memo['key'], _memo['val'] = key, val
    return val


def _snap_ops(built, kwargs):
    out = {}
    for i, o in enumerate(built):
        S.snap(o, 'self' if i == 0 else 'arg%d' % i, out)
    for k, o in kwargs.items():
        S.snap(o, 'kw_' + k, out)
    return out


def _diff(before, after):
    ch = [(k, before[k], after.get(k)) for k in before if before[k] != after.get(k)]
    ch += [(k, None, after[k]) for k in after if k not in before]
    return sorted(ch, key=lambda t: t[0])


def _check_consts():
    cafter = S.snap_consts()
    cch = _diff(S.CONST_SNAP0, cafter)
    if cch:
        S.PRISTINE.restore()
        left = _diff(S.CONST_SNAP0, S.snap_consts())
        left = [t for t in left if t[0][2] != 'derivs.identity']
        if left:
            raise RuntimeError('could not restore constants: %r' % left[:3])
    return cch


def _run_call(case):
    built, kwargs = _ops_of(case)
    before = _snap_ops(built, kwargs)
    status, result = 'ret', None
    S.BROADCAST_LOG.clear()
    try:
        result = _invoke(case, built, kwargs)
        if case['name'] in ('__iter__', 'ndenumerate') and result is not None and not isinstance(result, Qube):
            result = [x for _, x in zip(range(4), result)]       # drive the generator a few steps
    except BaseException as e:                         # noqa — the property covers every exit
        if isinstance(e, (KeyboardInterrupt, SystemExit, MemoryError)):
            raise
        status = 'raise:' + type(e).__name__
    bcast = set(S.BROADCAST_LOG)
    after = _snap_ops(built, kwargs)
    changed = _diff(before, after)
    cchanged = _check_consts()
    alias = classify(result, built) if status == 'ret' else None
    # objects / arrays (by snapshot position) that the call broadcast to another shape: their read-only marking is
    # the documented side effect
    bpos = {(k[0], k[1]) for k, v in before.items() if k[2] == '__id__' and v in bcast}
    bpos |= {(k[0], k[1], k[2][:-7]) for k, v in before.items() if k[2].endswith('.__id__') and v in bcast}
    # arrays of the operands that a READ-ONLY array of the returned result is (or is a view of): as_readonly documents
    # that "the internal arrays will also cease to be writable in any other object that shares them"
    adopted = set()
    if status == 'ret':
        frozen = [a for _, a in S.arrays_of(result, 'r', []) if not a.flags.writeable]
        for qpath, b in _sources(built, kwargs):
            if any(a is b or S.shares(a, b) for a in frozen):
                adopted.add(qpath)
    return {'status': status, 'changed': changed, 'cchanged': cchanged, 'alias': alias, 'built': built,
            'result': result, 'bcast': bpos, 'adopted': adopted}


def _sources(built, kwargs):
    src = []
    for i, o in enumerate(built):
        S.arrays_of(o, 'self' if i == 0 else 'arg%d' % i, src)
    for k, o in kwargs.items():
        S.arrays_of(o, 'kw_' + k, src)
    return src


def classify(result, built):
    """for each array of the result: 'same:<operand path>' (identical ndarray object), 'view:<operand path>'
    (shares memory with it) or 'fresh'"""
    src = _sources(built, {})
    out = []
    for p, a in S.arrays_of(result, 'r', []):
        tag = 'fresh'
        for q, b in src:
            if a is b:
                tag = 'same:' + q
                break
        else:
            for q, b in src:
                if S.shares(a, b):
                    tag = 'view:' + q
                    break
        out.append((p, tag, bool(a.flags.writeable)))
    return out


def _is_ro_marking(key, b, a):
    """the documented broadcast effect: WRITEABLE True->False, _readonly_ False->True"""
    f = key[2]
    if f.endswith('.writeable'):
        return b is True and a is False
    if f == 'readonly':
        return b is False and a is True
    return False


def _deriv_of_broadcast(key, bcast):
    """the object at key is a derivative of an object that the call broadcast: as_readonly marks the derivatives of
    a read-only object too ("a read-only object never carries writable derivatives"), so marking the broadcast
    operand read-only includes its derivatives — also when broadcast_to then raises for an incompatible shape (the
    marking precedes the shape validation)"""
    root, path = key[0], key[1]
    j = path.rfind('.d_d')
    return j >= 0 and (root, path[:j]) in bcast


def _describe(key):
    root, path, field = key
    if root.startswith('const:'):
        r = root
    else:
        r = 'self' if root == 'self' else 'arg'
    if 'd_d' in path:
        field = 'derivs.' + field
    return r + ':' + field


def oracle_call(case):
    r = run_call(case)
    if not r['changed'] and not r['cchanged']:
        return None
    member = '%s.%s' % (case.get('owner', case['cls']), case['name'])
    fields, first = [], None
    for key, b, a in r['changed'] + r['cchanged']:
        if key[2].endswith('__id__') and (key[0], key[1], 'derivs.identity') != key:
            continue                     # identities of arrays/objects are bookkeeping of this harness
        if _is_ro_marking(key, b, a) and not key[0].startswith('const:'):
            # the one documented side effect: this very object (or this very ndarray, held by a clone/wod twin) was
            # broadcast to another shape during the call and has been marked read-only (WRITEABLE True->False,
            # _readonly_ False->True) ...
            if (key[0], key[1]) in r['bcast'] or _deriv_of_broadcast(key, r['bcast']):
                continue
            if key[2].endswith('.writeable'):
                if (key[0], key[1], key[2][:-10]) in r['bcast']:
                    continue
                # ... or the array is shared, by design, with a read-only array of the returned object
                apath = key[0] + key[1]
                if apath + '.' + key[2][:-10] in r.get('adopted', ()) or apath in r.get('adopted', ()):
                    continue
        fields.append(_describe(key))
        if first is None:
            first = (key, b, a)
    if not fields:
        return None
    fields = sorted(set(fields))
    sig = member + ':' + fields[0]
    what = ('%s (called as %s.%s, exit=%s) changed %s; first difference %s: %s -> %s; operands %s' %
            (member, case['cls'], case['name'], r['status'], ', '.join(fields[:6]), first[0],
             _short(first[1]), _short(first[2]),
             json.dumps({'ops': case['ops'], 'kw': case.get('kw', {})}, sort_keys=True)[:900]))
    return sig, what


def _short(v):
    if isinstance(v, tuple) and len(v) == 3 and isinstance(v[2], bytes):
        try:
            return repr(np.frombuffer(v[2], dtype=np.dtype(v[0])).reshape(v[1]).tolist())[:160]
        except Exception:
            return repr(v)[:160]
    return repr(v)[:160]


# =========================================================================== derive / mutate / observe sequences
def _mutate(t, m, rng_seed, partner=None):
    """apply one public-API mutator to object t; exceptions are part of the history"""
    kind = m['m']
    cls = type(t)
    def other(seed=0, shape=None):
        d = {'k': 'q', 'cls': cls.__name__, 'shape': list(t._shape_ if shape is None else shape),
             'numer': list(t._numer_), 'denom': list(t._denom_), 'seed': rng_seed + seed + 101,
             'dtype': 'bool' if t.is_bool() else ('int' if t.is_int() else 'float')}
        return S.mk_qube(d)
    if kind == 'setitem_all':
        t[...] = other()
    elif kind == 'setitem_0':
        t[0] = other(shape=t._shape_[1:])
    elif kind == 'setitem_masked':
        t[...] = other().as_all_masked() if hasattr(t, 'as_all_masked') else other()
    elif kind == 'setitem_bool':
        idx = np.zeros(t._shape_, dtype=bool); idx.ravel()[::2] = True
        t[idx] = other(shape=())
    elif kind == 'iadd':
        t += 1
    elif kind == 'isub':
        t -= other()
    elif kind == 'imul':
        t *= 2
    elif kind == 'itruediv':
        t /= 2
    elif kind == 'ifloordiv':
        t //= 2
    elif kind == 'imod':
        t %= 2
    elif kind == 'ior':
        t |= True
    elif kind == 'iand':
        t &= False
    elif kind == 'ixor':
        t ^= True
    elif kind == 'set_units':
        t.set_units(Units.KM if t._units_ is not Units.KM else Units.SECONDS)
    elif kind == 'insert_deriv':
        t.insert_deriv(m.get('key', 'n'), other(5), override=True)
    elif kind == 'insert_alias':
        # the operand IS the other object of the pair, or one of its derivatives (explicit re-sharing by the caller)
        opd = partner if m["what"] == "other" else partner._derivs_[m["what"]]
        t.insert_deriv(m.get('key', 'n'), opd, override=True)
    elif kind == 'delete_deriv':
        t.delete_deriv(m.get('key', 't'), override=True)
    elif kind == 'delete_derivs':
        t.delete_derivs()
    elif kind == 'deriv_setitem':
        d = t._derivs_[m.get('key', 't')]
        d[...] = S.mk_qube({'k': 'q', 'cls': type(d).__name__, 'shape': list(d._shape_), 'numer': list(d._numer_),
                            'denom': list(d._denom_), 'seed': rng_seed + 7})
    elif kind == 'deriv_setitem_0':       # an in-place write of one row (indexer.py: self._values_[idx] = …)
        d = t._derivs_[m.get('key', 't')]
        d[0] = S.mk_qube({'k': 'q', 'cls': type(d).__name__, 'shape': list(d._shape_[1:]), 'numer': list(d._numer_),
                          'denom': list(d._denom_), 'seed': rng_seed + 9}) * 64
    elif kind == 'deriv_imul':
        d = t._derivs_[m.get('key', 't')]
        d *= 3
    elif kind == 'as_readonly':
        t.as_readonly()
    elif kind == 'values_write':          # the array handed out by the public .values property
        v = t.values
        v[...] = v + 1 if v.dtype != bool else ~v
    elif kind == 'vals_write':
        v = t.vals
        v[...] = v * 2 if v.dtype != bool else ~v
    elif kind == 'mask_write':            # the array handed out by the public .mask property
        mk = t.mask
        mk[...] = ~mk
    elif kind == 'deriv_values_write':
        v = t._derivs_[m.get('key', 't')].values
        v[...] = v - 5
    else:
        raise KeyError(kind)


def _derive(a, how):
    if how == 'copy':
        return a.copy()
    if how == 'copy_norec':
        return a.copy(recursive=False)
    if how == 'copy_ro':
        return a.copy(readonly=True)
    if how == '__copy__':
        return _copy.copy(a)
    if how == 'deepcopy':
        return _copy.deepcopy(a)
    # derivations that share storage BY DESIGN (the property does not demand independence; used to validate the
    # view/fresh classification of the model)
    if how in ('share_mask', 'share_mask_ro'):
        # a second object with its own values that holds the SAME mask ndarray (masks are shared by design and
        # "copied before in-place mask edits because they may be shared")
        if not isinstance(a._mask_, np.ndarray):
            raise ValueError('scalar mask')
        b = a.copy(recursive=False).remask(a._mask_, recursive=False, check=False)
        if b._mask_ is not a._mask_:
            raise ValueError('mask not shared')
        if how == 'share_mask_ro':
            b.as_readonly()
        return b
    if how == 'clone':
        return a.clone()
    if how == 'wod':
        return a.wod
    if how == 'slice':
        return a[...]
    if how == 'slice0':
        return a[:1]
    if how == 'reshape':
        return a.reshape(tuple(a._shape_) + (1,))
    if how == 'flatten':
        return a.flatten()
    if how == 'swap_axes':
        return a.swap_axes(0, -1)
    if how == 'neg':
        return -a
    if how == 'add0':
        return a + 0
    if how == 'as_float':
        return a.as_float()
    if how == 'without_mask':
        return a.without_mask()
    if how == 'remask':
        return a.remask(np.zeros(a._shape_, dtype=bool) if a._shape_ else False, check=False)
    if how == 'fancy':
        return a[np.arange(a._shape_[0])] if a._shape_ else a[...]
    if how == 'broadcast':
        return a.broadcast_to((2,) + tuple(a._shape_))
    raise KeyError(how)


COPIES = ('copy', 'copy_norec', 'copy_ro', '__copy__', 'deepcopy')


def _run_seq(case):
    a = S.mk_qube(case['src'])
    status = 'ret'
    try:
        b = _derive(a, case['derive'])
    except Exception as e:
        _check_consts()
        return {'status': 'raise:' + type(e).__name__, 'changed': [], 'cchanged': [], 'steps': [], 'obs': None}
    target, other = (a, b) if case['side'] == 'src' else (b, a)
    oname = 'derived' if case['side'] == 'src' else 'src'
    before = S.snap(other, oname, {})
    steps, changed = [], []
    for i, m in enumerate(case['muts']):
        try:
            _mutate(target, m, case['src'].get('seed', 0) + i, other)
            steps.append('ok')
        except Exception as e:
            steps.append(type(e).__name__)
        now = S.snap(other, oname, {})
        d = _diff(before, now)
        if d and not changed:
            changed = [(k, bb, aa, m['m']) for k, bb, aa in d]
    cch = _check_consts()
    # observation for the model: did the other object's own values / mask content change ?
    return {'status': status, 'changed': changed, 'cchanged': cch, 'steps': steps,
            'obs': sorted({k[2] if not k[1] else 'derivs.' + k[2] for k, *_ in changed})}


def oracle_seq(case):
    r = run_call(case)
    if case['derive'].startswith('share_mask'):
        # the mask ndarray is shared: no public mutator of the source may edit it in place
        for k, b, a, mut in r['changed']:
            if k[1] == '' and k[2] == 'mask':
                return ('seq:%s:%s:mask' % (case['derive'], mut),
                        'B holds the same mask ndarray as A; mutating A with %s changed B.mask %s -> %s; src=%s' %
                        (mut, _short(b), _short(a), json.dumps(case['src'], sort_keys=True)))
        return None
    if case['derive'] not in COPIES:
        if r['cchanged']:
            k, b, a = r['cchanged'][0]
            return 'seq:%s:%s' % (case['derive'], _describe(k)), 'shared constant changed: %r' % (k,)
        return None          # sharing is by design for every derivation other than copy()
    if any(m['m'] == 'insert_alias' for m in case['muts']):
        return None          # the caller has re-linked the two objects himself: sharing is by design (see the model tie)
    bad = list(r['changed'])
    if case['derive'] == 'copy_ro':
        # copy(readonly=True) of a read-only source may share (non-writable) storage: nothing can be written
        pass
    if not bad and not r['cchanged']:
        return None
    if bad:
        k, b, a, mut = bad[0]
        sig = 'seq:%s:%s:%s:%s' % (case['derive'], case['side'], mut, _describe(k).split(':', 1)[1])
        what = ('%s = src.%s; mutating %s with %s changed the other object at %r: %s -> %s; src=%s muts=%s' %
                ('derived', case['derive'], case['side'], mut, k, _short(b), _short(a),
                 json.dumps(case['src'], sort_keys=True), json.dumps(case['muts'])))
        return sig, what
    k, b, a = r['cchanged'][0]
    return 'seq:%s:%s' % (case['derive'], _describe(k)), 'shared constant changed: %r' % (k,)


# =========================================================================== check-module API
def impl(case):
    r = run_call(case)
    if case['type'] == 'seq':
        if case.get('req') is not None:
            return M.observe_seq(case, r)
        return ['seq', r['status'], len(r['changed'])]
    if case.get('req') is not None:
        return M.observe_call(case, r)
    return ['call', r['status'].split(':')[0], len(r['changed']) + len(r['cchanged'])]


def oracle(case):
    if case['type'] == 'seq':
        return oracle_seq(case)
    return oracle_call(case)


def gen_cases(rng, tier):
    cases = G.gen_cases(rng, tier)
    for c in cases:
        c['req'] = M.request(c)
    return cases


def neighbours(case):
    return G.neighbours(case)


def regen():
    import c07_py2lean
    return c07_py2lean.regen()
