"""C04 helpers: operand specs -> real polymath objects, canonical observation, and the plain-NumPy reference.

Operand spec (JSON-able dict):
  src   'qube' | 'num' | 'nd' | 'ma' | 'list'
  cls   polymath class name (src == 'qube' only)
  kind  'int' | 'float' | 'bool'          kind of the data handed to the constructor / of the raw operand
  shape leading shape (qube) or the FULL array shape (nd / ma / list; [] for num)
  numer, denom   item shape parts (qube only; [] otherwise)
  vals  integers = value * 8, row-major over shape + numer + denom   (so every value is a multiple of 1/8: float64
        arithmetic is exact for + - * // % and comparisons)
  mask  'F' | 'T' | list of bits over the leading shape (qube) / over the full shape (ma)
  units None | [km, s, rad] exponents
"""
import operator, warnings
import numpy as np
import polymath
from polymath import Qube, Scalar, Boolean, Vector, Vector3, Pair, Matrix, Matrix3, Quaternion, Units

CLASSES = {'Scalar': Scalar, 'Boolean': Boolean, 'Vector': Vector, 'Vector3': Vector3, 'Pair': Pair,
           'Matrix': Matrix, 'Matrix3': Matrix3, 'Quaternion': Quaternion}
NRANK = {'Scalar': 0, 'Boolean': 0, 'Vector': 1, 'Vector3': 1, 'Pair': 1, 'Matrix': 2, 'Matrix3': 2, 'Quaternion': 1}
NUMER = {'Scalar': [], 'Boolean': [], 'Vector': None, 'Vector3': [3], 'Pair': [2], 'Matrix': None, 'Matrix3': [3, 3],
         'Quaternion': [4]}
# kinds a class can hold (documented class constants FLOATS_OK / INTS_OK / BOOLS_OK)
HOLDS = {'Scalar': 'if', 'Boolean': 'b', 'Vector': 'if', 'Vector3': 'f', 'Pair': 'if', 'Matrix': 'f', 'Matrix3': 'f',
         'Quaternion': 'f'}
DTYPE = {'int': np.int64, 'float': np.float64, 'bool': np.bool_}

BINOPS = {'add': operator.add, 'sub': operator.sub, 'mul': operator.mul, 'div': operator.truediv,
          'floordiv': operator.floordiv, 'mod': operator.mod, 'pow': operator.pow}
UNOPS = {'neg': operator.neg, 'abs': operator.abs, 'pos': operator.pos}
# in-place forms: `a op= b` (Python rebinds a to whatever the method returns)
IOPS = {'iadd': operator.iadd, 'isub': operator.isub, 'imul': operator.imul, 'idiv': operator.itruediv,
        'ifloordiv': operator.ifloordiv, 'imod': operator.imod}
DIRECT = {'iadd': 'add', 'isub': 'sub', 'imul': 'mul', 'idiv': 'div', 'ifloordiv': 'floordiv', 'imod': 'mod'}
MATHFN = ['sin', 'cos', 'tan', 'arcsin', 'arccos', 'arctan', 'sqrt', 'log', 'exp', 'sign']
EXACT = {'add': 8, 'sub': 8, 'mul': 64, 'floordiv': 1, 'mod': 8, 'neg': 8, 'abs': 8, 'pos': 8,   # result scale
         'iadd': 8, 'isub': 8, 'imul': 64, 'ifloordiv': 1, 'imod': 8}


def prod(s):
    return int(np.prod(s, dtype=np.int64)) if len(s) else 1


def full_shape(o):
    return list(o['shape']) + list(o.get('numer', [])) + list(o.get('denom', []))


def raw_array(o):
    """the operand's data as an ndarray of its declared kind (exact: multiples of 1/8)"""
    a = np.array(o['vals'], dtype=np.int64).reshape(full_shape(o))
    if o['kind'] == 'float':
        return a / 8.0
    if o['kind'] == 'int':
        return a // 8
    return a != 0


def mk_units(u):
    if u is None:
        return None
    return Units(tuple(u), (1, 1, 0))       # a fresh object every time (the class constants are shared, mutable)


def mk_mask(m, shape):
    if m == 'T':
        return True
    if m == 'F':
        return False
    return np.array(m, dtype=bool).reshape(shape)


def mask_bits(m, shape):
    n = prod(shape)
    if m == 'T' or m == 'F':
        return [m == 'T'] * n
    return [bool(x) for x in m]


def layout_array(a, layout):
    """the same values in another memory layout: Fortran order, or a strided (non-contiguous) view of a larger buffer"""
    if not isinstance(a, np.ndarray) or a.ndim == 0:
        return a
    if layout == 'F' and a.ndim >= 2:
        return np.asfortranarray(a)
    if layout == 'strided' and a.shape[0] > 0:
        big = np.zeros((a.shape[0] * 2,) + a.shape[1:], dtype=a.dtype)
        big[::2] = a
        return big[::2]
    if layout == 'rev' and a.shape[-1] > 0:
        return np.ascontiguousarray(a[..., ::-1])[..., ::-1]
    return a


WARM = {
    'wod': lambda y: y.wod, 'antimask': lambda y: y.antimask, 'sq': lambda y: y * y, 'abs': lambda y: abs(y),
    'neg': lambda y: -y, 'half': lambda y: y / 2., 'mask': lambda y: y.mask, 'recip': lambda y: 1. / y,
}


def touch(y, codes):
    for c in codes:
        try:
            WARM[c](y)
        except Exception:
            pass


def build_qube(o, a):
    cls = CLASSES[o['cls']]
    return cls(a, mk_mask(o.get('mask', 'F'), o['shape']), drank=len(o.get('denom', [])), units=mk_units(o.get('units')))


def with_history(o, prov):
    """an object with the SAME values, mask, units and class as the plain construction, but with a history: built from a
    base object that carries a derivative and warm caches, through one of the number fast paths"""
    a = raw_array(o)
    c = prov['c']
    via = prov['via']
    base = {'add': lambda: a - c, 'radd': lambda: a - c, 'sub': lambda: a + c, 'mul': lambda: a / c if o['kind'] == 'float' else a // c,
            'rmul': lambda: a / c if o['kind'] == 'float' else a // c}[via]()
    base = layout_array(np.asarray(base).astype(a.dtype), o.get('layout'))
    if base.ndim == 0:
        base = base[()].item()
    y0 = build_qube(o, base)
    if prov.get('derivs') and CLASSES[o['cls']].DERIVS_OK and not o.get('denom'):
        # d/dt of the object: same item shape and units; the derivative of a rotation matrix is a plain Matrix
        dcls = Matrix if o['cls'] == 'Matrix3' else CLASSES[o['cls']]
        d = dcls(np.ones(full_shape(o)) if full_shape(o) else 1., units=mk_units(o.get('units')) if dcls.UNITS_OK else None)
        y0.insert_deriv('t', d)
    touch(y0, prov.get('warm', []))
    y = {'add': lambda: y0 + c, 'radd': lambda: c + y0, 'sub': lambda: y0 - c, 'mul': lambda: y0 * c, 'rmul': lambda: c * y0}[via]()
    touch(y, prov.get('post', []))
    return y


def build(o):
    src = o['src']
    if src == 'num':
        v = o['vals'][0]
        return {'int': lambda: int(v // 8), 'float': lambda: v / 8.0, 'bool': lambda: bool(v)}[o['kind']]()
    a = raw_array(o)
    if src == 'npnum':
        return a[()]                  # a NumPy scalar (np.int64 / np.float64): registered as numbers.Real
    a = layout_array(np.asarray(a), o.get('layout'))
    if src == 'nd':
        return np.asarray(a)          # a 0-d ndarray stays an ndarray
    if src == 'ma':
        m = mk_mask(o.get('mask', 'F'), o['shape'])
        return np.ma.MaskedArray(a, mask=m)
    if src == 'list':
        return a.tolist()
    if o.get('prov'):
        return with_history(o, o['prov'])
    return build_qube(o, a)


PRE = {
    'a.wod': lambda a, b: a.wod, 'b.wod': lambda a, b: b.wod, 'a*a': lambda a, b: a * a, 'b*b': lambda a, b: b * b,
    'a+b': lambda a, b: a + b, 'a*b': lambda a, b: a * b, 'b*a': lambda a, b: b * a, 'a-b': lambda a, b: a - b,
    'a/b': lambda a, b: a / b, 'a%b': lambda a, b: a % b, 'a//b': lambda a, b: a // b, '-a': lambda a, b: -a,
    '-b': lambda a, b: -b, 'a*2': lambda a, b: a * 2, 'b+1': lambda a, b: b + 1, 'a+1': lambda a, b: a + 1,
    'a.antimask': lambda a, b: a.antimask, 'b.antimask': lambda a, b: b.antimask, 'abs(a)': lambda a, b: abs(a),
    'b/2': lambda a, b: b / 2., 'a==b': lambda a, b: a == b,
}


def operands(case):
    """build the operands of a case and replay the recorded earlier operations on the same objects"""
    a = build(case['a'])
    b = build(case['b']) if case.get('b') is not None else None
    for code in case.get('pre', []):
        try:
            PRE[code](a, b)
        except Exception:
            pass
    return a, b


def run(case):
    """evaluate the expression on the real code; returns the raw result (exceptions propagate)"""
    op = case['op']
    with warnings.catch_warnings():
        warnings.simplefilter('error')
        if op in BINOPS:
            a, b = operands(case)
            return BINOPS[op](a, b)
        if op in IOPS:
            a, b = operands(case)
            r = IOPS[op](a, b)
            if isinstance(r, Qube):
                r._c04_same_ = r is a          # the target object itself must come back
            return r
        if op in UNOPS:
            return UNOPS[op](operands(case)[0])
        if op == 'arctan2':
            a, b = operands(case)
            return a.arctan2(b)
        if op in MATHFN:
            return getattr(operands(case)[0], op)()
        if op == 'bshape':
            return Qube.broadcasted_shape(tuple(case['a']['shape']), tuple(case['b']['shape']))
    raise KeyError(op)


def kind_of(values):
    if isinstance(values, np.ndarray):
        k = values.dtype.kind
        return {'f': 'float', 'i': 'int', 'u': 'int', 'b': 'bool'}.get(k, 'other:' + k)
    if isinstance(values, (bool, np.bool_)):
        return 'bool'
    if isinstance(values, (int, np.integer)):
        return 'int'
    if isinstance(values, (float, np.floating)):
        return 'float'
    return 'other:' + type(values).__name__


def expanded_mask(q):
    return np.broadcast_to(np.asarray(q._mask_, dtype=bool), q._shape_)


def blank_for(case):
    """positions (over the expected leading shape) that are not compared: masked in an operand / zero divisor"""
    if case['op'] in IOPS:
        # the in-place form blanks what the direct form blanks, also where the reference rejects the in-place form
        d = dict(case, op=DIRECT[case['op']])
        d.pop('_ref', None)
        return blank_for(d)
    ref = reference(case)
    if ref is not None and ref[0] == 'ok' and ref[1].get('blank') is not None:
        return [bool(x) for x in ref[1]['blank']]
    a, b = case['a'], case.get('b')
    if ref is None and (a.get('units') is not None or (b is not None and b.get('units') is not None)):
        # unit rules are not judged here, but operand masks still blank the same positions
        c2 = dict(case, a=dict(a, units=None))
        if b is not None:
            c2['b'] = dict(b, units=None)
        c2.pop('_ref', None)
        return blank_for(c2)
    if case['op'] == 'mul' and a.get('cls') == 'Matrix3' and b is not None and not b.get('numer'):
        # Matrix3 * scalar returns the scalar operand broadcast over the leading axes: its mask, broadcast
        if b['src'] in ('qube', 'ma'):
            out = bcast_lead(a['shape'], b['shape'])
            if out is None:
                return None
            ma = np.array(mask_bits(a.get('mask', 'F'), a['shape']), dtype=bool).reshape(a['shape'])
            mb = np.array(mask_bits(b.get('mask', 'F'), b['shape']), dtype=bool).reshape(b['shape'])
            return [bool(x) for x in (np.broadcast_to(ma, out) | np.broadcast_to(mb, out)).ravel()]
    return None


def observe(r, scale, blank=None, kindless=False):
    """canonical observation of a result object.
    scale: integer factor that makes every exact value an integer, or None (values not reported).
    blank: expected-mask bits over the expected leading shape (positions not compared), or None"""
    if isinstance(r, tuple):
        return ['shape', [int(x) for x in r]]
    if not isinstance(r, Qube):
        return 'Other:result-' + type(r).__name__
    lead = [int(x) for x in r._shape_]
    numer = [int(x) for x in r._numer_]
    denom = [int(x) for x in r._denom_]
    head = [type(r).__name__, kind_of(r._values_), lead, numer, denom]
    if scale is None:
        if kindless:
            head[1] = '-'
        return head + ['-']
    item = numer + denom
    vals = np.broadcast_to(np.asarray(r._values_), tuple(lead + item)).reshape(prod(lead), prod(item))
    m = expanded_mask(r).ravel()
    if blank is not None and len(blank) == len(m):
        m = m | np.array(blank, dtype=bool)
    out = []
    for i in range(prod(lead)):
        if m[i]:
            out.append('m')
            continue
        row = []
        for x in vals[i]:
            y = float(x) * scale
            if y != int(y):
                row.append('inexact')
            else:
                row.append(int(y))
        out.append(row)
    return head + [out]


# ---------------------------------------------------------------------------------------------- the reference
class Reject(Exception):
    pass


def bcast_lead(s0, s1):
    """NumPy's broadcasting rule for two leading shapes, written out (right-aligned; equal or 1)"""
    r0, r1 = list(s0)[::-1], list(s1)[::-1]
    out = []
    for k in range(max(len(r0), len(r1))):
        x = r0[k] if k < len(r0) else 1
        y = r1[k] if k < len(r1) else 1
        if x == y or y == 1:
            out.append(x)
        elif x == 1:
            out.append(y)
        else:
            return None
    return out[::-1]


def lead_index(shape, i, out):
    """index into an operand of leading shape `shape` for result leading index `i` (of leading shape `out`)"""
    off = len(out) - len(shape)
    return tuple(0 if shape[k] == 1 else i[k + off] for k in range(len(shape)))


def effective_kind(cls, kind):
    """kind of the data once held by an object of class cls (documented FLOATS_OK/INTS_OK/BOOLS_OK fall-backs)"""
    h = HOLDS[cls]
    k = kind[0]
    if k in h:
        return kind
    if k == 'b':
        return 'int' if 'i' in h else 'float'
    if k == 'i':
        return 'float' if 'f' in h else 'bool'
    return 'int' if 'i' in h else 'bool'


class Norm:
    """an operand in normal form: class name, effective kind, leading shape, numer, denom, values (float64 ndarray of
    shape lead + numer + denom holding exact dyadics), mask bits over lead, units"""
    def __init__(self, cls, kind, lead, numer, denom, vals, mask, units, isq):
        self.cls, self.kind, self.lead, self.numer, self.denom = cls, kind, list(lead), list(numer), list(denom)
        self.vals, self.mask, self.units, self.isq = vals, mask, units, isq


def norm_qube(o):
    cls = o['cls']
    a = raw_array(o).astype(np.float64)
    kind = effective_kind(cls, o['kind'])
    if kind == 'bool':
        a = (a != 0).astype(np.float64)
    m = np.array(mask_bits(o.get('mask', 'F'), o['shape']), dtype=bool).reshape(o['shape'])
    return Norm(cls, kind, o['shape'], o.get('numer', []), o.get('denom', []), a, m, o.get('units'), True)


def norm_raw(o, nrank, drank, cls):
    """a number / ndarray / MaskedArray / nested list read as an object whose last nrank+drank axes are item axes"""
    full = list(o['shape'])
    r = nrank + drank
    if len(full) < r:
        raise Reject('operand rank %d below item rank %d' % (len(full), r))
    lead, numer, denom = full[:len(full) - r], full[len(full) - r:len(full) - drank], full[len(full) - drank:]
    a = raw_array(o).astype(np.float64)
    m = np.zeros(lead, dtype=bool)
    if o['src'] == 'ma':
        fm = np.array(mask_bits(o.get('mask', 'F'), full), dtype=bool).reshape(full)
        m = fm.reshape(lead + [prod(full[len(lead):])]).any(axis=-1) if r else fm
    return Norm(cls, effective_kind(cls, o['kind']), lead, numer, denom, a, m, None, False)


def units_ok_add(u0, u1):
    return u0 is None or u1 is None or list(u0) == list(u1)


def py_floordiv(x, y):
    return float(np.floor(x / y)) if y != 0 else 0.0


def reference(case):
    if case['op'] in IOPS:
        return ref_inplace(case)
    r = reference0(case)
    if r is not None and r[0] == 'ok' and 'blank' in r[1] and all(r[1]['blank']) and \
            (case['op'] in ('pow', 'arctan2') or case['op'] in MATHFN):
        # ** with an exceptional 0-D result (masked_single keeps the operand's kind) / nothing observable
        r[1]['kind'] = None
    return r


def reference0(case):
    """What the property demands of `a op b`, computed with plain NumPy and explicit loops over leading indices.
    Returns ('reject', why) | ('ok', dict(cls|None, kind|None, lead, numer, denom, vals ndarray|None, blank bits))
    | None when the property does not specify the combination."""
    op = case['op']
    a, b = case['a'], case.get('b')
    if op == 'bshape':
        out = bcast_lead(a['shape'], b['shape'])
        return ('reject', 'leading shapes do not broadcast') if out is None else ('ok', {'shape': out})
    try:
        if op in UNOPS or op in MATHFN:
            return ref_unary(op, norm_qube(a))
        qa, qb = a['src'] == 'qube', b['src'] == 'qube'
        if not qa and not qb:
            return None
        if op in ('add', 'sub'):
            # a raw operand is read as an object of the other operand's class (same item rank)
            if qa and qb:
                A, B = norm_qube(a), norm_qube(b)
            elif qa:
                A = norm_qube(a)
                A2 = scalarised(A)
                B = norm_raw(b, len(A2.numer), len(A2.denom), A2.cls)
            else:
                B = norm_qube(b)
                B2 = scalarised(B)
                A = norm_raw(a, len(B2.numer), len(B2.denom), B2.cls)
            return ref_addsub(op, scalarised(A), scalarised(B))
        # * / // % ** and arctan2: a raw operand is read as a Scalar (every axis is a leading axis)
        A = scalarised(norm_qube(a)) if qa else norm_raw(a, 0, 0, 'Scalar')
        B = scalarised(norm_qube(b)) if qb else norm_raw(b, 0, 0, 'Scalar')
        if op == 'mul':
            return ref_mul(A, B, bool_b=(qb and b.get('cls') == 'Boolean'))
        if op in ('div', 'floordiv', 'mod'):
            return ref_div(op, A, B)
        if op == 'pow':
            return ref_pow(A, B)
        if op == 'arctan2':
            return ref_arctan2(A, B)
    except Reject as e:
        return ('reject', str(e))
    return None


def ref_inplace(case):
    """`a op= b`: what the direct form `a op b` gives, provided it can be stored in the target: the operand broadcasts INTO
    the target's leading shape, item shape and class stay the target's, an integer target cannot take a float result"""
    a = case['a']
    if a['src'] != 'qube':
        return None
    d = dict(case, op=DIRECT[case['op']])
    d.pop('_ref', None)
    ref = reference(d)
    if ref is None or ref[0] == 'reject':
        return ref
    r = dict(ref[1])
    A = norm_qube(a)
    if list(r['lead']) != list(A.lead):
        return ('reject', 'the operand does not broadcast into the target (leading shape %s -> %s)' % (A.lead, r['lead']))
    if list(r['numer']) != list(A.numer) or list(r['denom']) != list(A.denom):
        return ('reject', 'the item shape of the target would change')
    if A.cls == 'Boolean':
        return ('reject', 'a Boolean target cannot hold the integer result')
    if A.kind == 'int' and r['kind'] == 'float':
        return ('reject', 'integer target, non-integer result')
    if A.kind == 'int' and r['kind'] is None and case['op'] == 'idiv':
        return ('reject', 'integer target, non-integer result')
    r['cls'] = A.cls
    if r['kind'] is not None:
        r['kind'] = A.kind if A.kind == 'float' else r['kind']
    return ('ok', r)


def scalarised(N):
    """Boolean operands take part in arithmetic as integer Scalars (0/1)"""
    if N.cls == 'Boolean':
        return Norm('Scalar', 'int', N.lead, N.numer, N.denom, N.vals, N.mask, None, N.isq)
    return N


def result_kind(op, ka, kb, cls):
    if op == 'div':
        k = 'float'
    elif ka == 'float' or kb == 'float':
        k = 'float'
    else:
        k = 'int'
    return effective_kind(cls, k) if cls in HOLDS else k


def loop_lead(A, B):
    out = bcast_lead(A.lead, B.lead)
    if out is None:
        raise Reject('leading shapes %s and %s do not broadcast' % (A.lead, B.lead))
    return out, list(np.ndindex(*out))


def blank_of(A, B, out, idx, extra=None):
    bits = []
    for n, i in enumerate(idx):
        m = bool(A.mask[lead_index(A.lead, i, out)]) or bool(B.mask[lead_index(B.lead, i, out)])
        if extra is not None:
            m = m or extra[n]
        bits.append(m)
    return bits


def ref_addsub(op, A, B):
    if units_unspecified(A, B):
        return None
    if A.numer != B.numer:
        raise Reject('numerator shapes differ')
    if A.denom != B.denom:
        raise Reject('denominator shapes differ')
    if not units_ok_add(A.units, B.units):
        raise Reject('unit dimensions differ')
    out, idx = loop_lead(A, B)
    item = A.numer + A.denom
    vals = np.zeros(out + item)
    f = operator.add if op == 'add' else operator.sub
    for i in idx:
        vals[i] = f(A.vals[lead_index(A.lead, i, out)], B.vals[lead_index(B.lead, i, out)])
    # class: the property fixes it when both operands have one class, or one operand is raw
    if A.cls == B.cls:
        cls = A.cls
    elif not A.isq:
        cls = B.cls
    elif not B.isq:
        cls = A.cls
    else:
        cls = None
    return ('ok', {'cls': cls, 'kind': result_kind(op, A.kind, B.kind, cls) if cls else None, 'lead': out,
                   'numer': A.numer, 'denom': A.denom, 'vals': vals, 'blank': blank_of(A, B, out, idx)})


NO_UNITS = ('Boolean', 'Matrix3', 'Quaternion')


def units_unspecified(A, B):
    """a class that cannot hold units meets an operand that carries a Units object: not specified here (C12)"""
    return (A.cls in NO_UNITS and B.units is not None) or (B.cls in NO_UNITS and A.units is not None)


def ref_mul(A, B, bool_b=False):
    na, nb = len(A.numer), len(B.numer)
    if A.cls == 'Matrix3' and nb == 0 and A.isq:
        # documented special case "Matrix3 times Scalar returns the same Scalar" (rotating a scalar): the scalar operand
        # itself at every leading index, the leading shapes broadcasting like in any other product
        if A.denom and B.denom:
            return None
        out, idx = loop_lead(A, B)
        vals = np.zeros(out + B.denom)
        for i in idx:
            vals[i] = B.vals[lead_index(B.lead, i, out)]
        return ('ok', {'cls': None if bool_b else B.cls, 'kind': None if bool_b else B.kind, 'lead': out,
                       'numer': [], 'denom': B.denom, 'vals': vals, 'blank': blank_of(A, B, out, idx)})
    if units_unspecified(A, B):
        return None
    if A.denom and B.denom:
        raise Reject('both operands have denominators')
    if nb == 0 or na == 0:
        X, S = (A, B) if nb == 0 else (B, A)
        out, idx = loop_lead(A, B)
        denom = X.denom or S.denom
        vals = np.zeros(out + X.numer + denom)
        for i in idx:
            x = X.vals[lead_index(X.lead, i, out)]
            s = S.vals[lead_index(S.lead, i, out)]
            if S.denom:                     # numerator axes of X, then the denominator axes of S
                x = x.reshape(X.numer + [1] * len(S.denom))
            else:                           # S is one number per leading index
                pass
            vals[i] = x * s
        cls = X.cls
        return ('ok', {'cls': cls, 'kind': result_kind('mul', A.kind, B.kind, cls), 'lead': out, 'numer': X.numer,
                       'denom': denom, 'vals': vals, 'blank': blank_of(A, B, out, idx)})
    if A.cls in ('Matrix', 'Matrix3') and nb in (1, 2) and B.cls != 'Quaternion' and A.cls != 'Quaternion':
        if A.numer[1] != B.numer[0]:
            raise Reject('matrix and operand item shapes do not chain')
        out, idx = loop_lead(A, B)
        numer = [A.numer[0]] + B.numer[1:]
        denom = A.denom or B.denom
        vals = np.zeros(out + numer + denom)
        for i in idx:
            x = A.vals[lead_index(A.lead, i, out)]
            y = B.vals[lead_index(B.lead, i, out)]
            # contract the last numerator axis of x with the first numerator axis of y
            if A.denom:
                r = np.tensordot(np.moveaxis(x, 1, -1), y, axes=([-1], [0]))          # (n0, dA..., m...)
                r = np.moveaxis(r, list(range(1, 1 + len(A.denom))), list(range(-len(A.denom), 0)))
            else:
                r = np.tensordot(x, y, axes=([1], [0]))                                 # (n0, m..., dB...)
            vals[i] = r
        # class: "applying a matrix to a vector X gives an X" (when X admits the resulting item shape)
        cls = None
        for c in (B.cls, A.cls):
            if NUMER[c] is not None and NUMER[c] != numer:
                continue
            if NRANK[c] != len(numer):
                continue
            cls = c
            break
        return ('ok', {'cls': cls, 'kind': 'float' if cls is None else result_kind('mul', A.kind, B.kind, cls),
                       'lead': out, 'numer': numer, 'denom': denom, 'vals': vals,
                       'blank': blank_of(A, B, out, idx)})
    if 'Quaternion' in (A.cls, B.cls):
        return None                          # quaternion products: property C16
    raise Reject('no product is defined for these item shapes')


def ref_div(op, A, B):
    if units_unspecified(A, B):
        return None
    if op == 'div' and len(B.numer) == 2 and len(A.numer) in (0, 2):
        return None                          # x / matrix = multiply by the inverse (LAPACK): property C16
    if op == 'div' and len(A.numer) == 0 and len(B.numer) == 1 and len(B.denom) == 1:
        return None                          # a vector with one denominator axis is inverted as a matrix (C16)
    if op == 'div' and (B.cls == 'Quaternion' or (A.cls == 'Quaternion' and B.numer == [3])):
        return None                          # quaternion reciprocal / 3-vector read as a quaternion (C16)
    if B.denom:
        raise Reject('right operand has a denominator')
    if len(B.numer) != 0:
        raise Reject('division by a non-scalar')
    if op != 'div' and A.cls in ('Matrix', 'Matrix3'):
        raise Reject('// and % are not defined for matrices')
    out, idx = loop_lead(A, B)
    vals = np.zeros(out + A.numer + A.denom)
    zero = []
    for i in idx:
        x = A.vals[lead_index(A.lead, i, out)]
        s = float(B.vals[lead_index(B.lead, i, out)])
        zero.append(s == 0)
        if s == 0:
            continue
        if op == 'div':
            vals[i] = x / s
        elif op == 'floordiv':
            vals[i] = np.floor_divide(x, s)
        else:
            vals[i] = np.mod(x, s)
    cls = A.cls
    return ('ok', {'cls': cls, 'kind': result_kind(op, A.kind, B.kind, cls), 'lead': out, 'numer': A.numer,
                   'denom': A.denom, 'vals': vals, 'blank': blank_of(A, B, out, idx, zero)})


def ref_pow(A, B):
    if A.cls != 'Scalar' or not A.isq:
        return None                          # integer powers of matrices / quaternions: C16
    if A.denom:
        raise Reject('Scalar ** with a denominator')
    if B.numer or B.denom:
        raise Reject('exponent is not a scalar')
    if B.units is not None and any(B.units):
        raise Reject('exponent has units')
    if A.units is not None and any(A.units) and prod(B.lead) != 1:
        raise Reject('a quantity with units raised to several powers')
    if A.units is not None and any(A.units):
        return None                          # fractional unit powers: C12
    out, idx = loop_lead(A, B)
    vals = np.zeros(out)
    bad = []
    for i in idx:
        x = float(A.vals[lead_index(A.lead, i, out)])
        e = float(B.vals[lead_index(B.lead, i, out)])
        with np.errstate(all='ignore'):
            try:
                v = float(np.float64(x) ** np.float64(e))
            except Exception:
                v = float('nan')
        bad.append(not np.isfinite(v))
        vals[i] = 0.0 if bad[-1] else v
    kind = None
    if A.kind == 'int' and B.kind == 'int':
        # only exponents in use decide: a negative number hidden under the exponent's mask has no say
        inuse = B.vals[~B.mask] if np.shape(B.mask) == np.shape(B.vals) else B.vals
        kind = 'int' if bool((inuse >= 0).all()) else None
    elif 'float' in (A.kind, B.kind):
        kind = 'float'
    return ('ok', {'cls': 'Scalar', 'kind': kind, 'lead': out, 'numer': [], 'denom': [], 'vals': vals,
                   'blank': blank_of(A, B, out, idx, bad)})


def ref_arctan2(A, B):
    if A.cls != 'Scalar' or not A.isq:
        return None
    if B.numer or B.denom or A.denom:
        raise Reject('arctan2 of non-scalars')
    if not units_ok_add(A.units, B.units):
        raise Reject('unit dimensions differ')
    out, idx = loop_lead(A, B)
    vals = np.zeros(out)
    for i in idx:
        vals[i] = np.arctan2(float(A.vals[lead_index(A.lead, i, out)]), float(B.vals[lead_index(B.lead, i, out)]))
    return ('ok', {'cls': 'Scalar', 'kind': 'float', 'lead': out, 'numer': [], 'denom': [], 'vals': vals,
                   'blank': blank_of(A, B, out, idx)})


NPFN = {'sin': np.sin, 'cos': np.cos, 'tan': np.tan, 'arcsin': np.arcsin, 'arccos': np.arccos, 'arctan': np.arctan,
        'sqrt': np.sqrt, 'log': np.log, 'exp': np.exp, 'sign': np.sign}


def ref_unary(op, A):
    blank = [bool(x) for x in A.mask.ravel()]
    if op in ('neg', 'pos'):
        A = scalarised(A)
        return ('ok', {'cls': A.cls, 'kind': A.kind, 'lead': A.lead, 'numer': A.numer, 'denom': A.denom,
                       'vals': -A.vals if op == 'neg' else A.vals, 'blank': blank})
    if op == 'abs':
        if A.cls in ('Matrix', 'Matrix3'):
            raise Reject('abs of a matrix')
        if len(A.numer) != 0:
            return None                      # abs(vector) is the norm: C16
        A = scalarised(A)
        return ('ok', {'cls': 'Scalar', 'kind': A.kind, 'lead': A.lead, 'numer': [], 'denom': A.denom,
                       'vals': np.abs(A.vals), 'blank': blank})
    if A.cls != 'Scalar':
        return None
    if op == 'sign' and A.denom and A.units is None:
        return ('ok', {'cls': 'Scalar', 'kind': A.kind, 'lead': A.lead, 'numer': [], 'denom': A.denom,
                       'vals': np.sign(A.vals), 'blank': blank})
    if A.denom or A.units is not None:
        return None                          # unit rules of the math functions: C12
    with np.errstate(all='ignore'):
        v = NPFN[op](A.vals)
    bad = ~np.isfinite(v)
    v = np.where(bad, 0.0, v)
    kind = 'float' if op != 'sign' else A.kind
    return ('ok', {'cls': 'Scalar', 'kind': kind, 'lead': A.lead, 'numer': [], 'denom': [], 'vals': v,
                   'blank': [bool(x) or bool(y) for x, y in zip(A.mask.ravel(), bad.ravel())]})
