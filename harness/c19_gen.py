"""C19 — case generation: valid (target, argument) pairs for every mutator, then fault injection
(one fault class at a time and in pairs).  Pure data; nothing here touches polymath objects."""
import copy, itertools

CLS = {
    # name: nrank, fixed numer (or None), kinds allowed, units ok, derivs ok
    'Scalar':     (0, [], ('float', 'int'), True, True),
    'Boolean':    (0, [], ('bool',), False, False),
    'Vector':     (1, None, ('float', 'int'), True, True),
    'Vector3':    (1, [3], ('float',), True, True),
    'Pair':       (1, [2], ('float', 'int'), True, True),
    'Matrix':     (2, None, ('float',), True, True),
    'Matrix3':    (2, [3, 3], ('float',), False, True),
    'Quaternion': (1, [4], ('float',), False, True),
}
FREE_NUMERS = {'Vector': [[3], [2]], 'Matrix': [[2, 2], [2, 3]]}
FAULTS = ('shape', 'units', 'numer', 'denom', 'kind', 'type', 'deriv', 'ro')
ARITH = ('iadd', 'isub', 'imul', 'itruediv', 'ifloordiv', 'imod')
LOGIC = ('iand', 'ior', 'ixor')
MUTATORS = ARITH + ('ipow',) + LOGIC + ('setitem', 'insert_deriv', 'insert_derivs', 'delete_deriv', 'delete_derivs', 'set_units')
# non-mutating operators judged by the oracle only (exception family, operands untouched)
NONMUT = {'add': 'iadd', 'sub': 'isub', 'mul': 'imul', 'truediv': 'itruediv', 'floordiv': 'ifloordiv', 'mod': 'imod',
          'pow': 'ipow', 'and': 'iand', 'or': 'ior', 'xor': 'ixor',
          'radd': 'iadd', 'rsub': 'isub', 'rmul': 'imul', 'rtruediv': 'itruediv', 'rfloordiv': 'ifloordiv',
          'rmod': 'imod', 'rpow': 'ipow'}

SHAPES_Q = [[], [3], [2, 3], [1]]
SHAPES_T = SHAPES_Q + [[0], [2, 1, 3]]


def numers(cls):
    n = CLS[cls][1]
    return [n] if n is not None else FREE_NUMERS[cls]


def into_shapes(shape):
    """shapes that broadcast INTO `shape`"""
    res = [list(shape), []]
    if shape:
        res.append(list(shape[1:]))
        res.append([1] * len(shape))
        if len(shape) >= 2:
            res.append([shape[0], 1])
    out = []
    for s in res:
        if s not in out:
            out.append(s)
    return out


def broadcasts_into(a, t):
    """NumPy: shape a can be broadcast INTO shape t (result of broadcasting is t itself)"""
    if len(a) > len(t):
        return False
    return all(x == y or x == 1 for x, y in zip(reversed(a), reversed(t)))


def bad_shapes(shape):
    """shapes that do NOT broadcast into `shape` (the second kind is broadcast-compatible but LARGER than the target)"""
    return [s for s in _bad_shapes(shape) if not broadcasts_into(s, shape)]


def _bad_shapes(shape):
    res = []
    if not shape:
        return [[3], [1], [2, 1]]
    res.append([shape[-1] + 2])                   # incompatible trailing axis
    res.append([2] + list(shape))                 # compatible, one more leading axis: broadcasts, but not into
    if 1 in shape:
        res.append([4 if n == 1 else n for n in shape])     # target axis of length 1, argument longer
    res.append([1] + list(shape))                 # extra leading unit axis (NumPy in-place accepts this one? no: ndim grows)
    return res


def targets(tier):
    """target descriptors: every class, every kind it admits, with and without derivatives"""
    out = []
    for cls, (nrank, _, kinds, units_ok, derivs_ok) in CLS.items():
        for kind in kinds:
            for numer in numers(cls):
                for shape in (SHAPES_T if tier == 'thorough' else SHAPES_Q):
                    for denom in ([], [2]):
                        if denom and cls in ('Boolean', 'Matrix3', 'Quaternion'):
                            continue
                        dsets = [{}]
                        if derivs_ok:
                            dsets += [{'t': {'denom': []}}, {'t': {'denom': [2]}, 'x': {'denom': []}},
                                      {'t': {'denom': [], 'ro': True}}]
                        for derivs in dsets:
                            for mask in ('F', 'A', 'T'):
                                if mask == 'A' and not shape:
                                    continue
                                if tier != 'thorough' and mask == 'T' and (derivs or denom):
                                    continue
                                out.append({'cls': cls, 'kind': kind, 'shape': shape, 'numer': numer, 'denom': denom,
                                            'units': 'km' if units_ok and (len(shape) % 2 == 0) else None,
                                            'ro': False, 'mask': mask, 'derivs': copy.deepcopy(derivs)})
    return out


def q(cls, kind, shape, numer, denom=(), units=None, derivs=None, mask='F', zero=False):
    return {'t': 'q', 'cls': cls, 'kind': kind, 'shape': list(shape), 'numer': list(numer), 'denom': list(denom),
            'units': units, 'ro': False, 'mask': mask, 'derivs': derivs or {}, 'zero': zero}


def valid_args(mut, t, rng, tier):
    """arguments that the mutator must ACCEPT for target t (the base from which faults are injected);
    yields (arg, extra) with extra = further case fields"""
    if mut in NONMUT:
        for arg, extra in valid_args(NONMUT[mut], t, rng, tier):
            if mut[0] == 'r' and mut != 'rpow' and arg['t'] == 'q':
                continue            # reflected forms are only reached with a non-Qube left operand
            yield arg, extra
        if mut in ('pow', 'rpow'):
            yield {'t': 'num', 'kind': 'float'}, {}
            yield q('Scalar', 'float', [], [], [], None, {}, mask='T'), {}      # masked exponent
            yield q('Scalar', 'int', t['shape'], [], [], None, {}, mask='A' if t['shape'] else 'F'), {}
        return
    cls, kind, shape, numer, denom = t['cls'], t['kind'], t['shape'], t['numer'], t['denom']
    nrank = CLS[cls][0]
    shapes = into_shapes(shape)
    if mut in ('iadd', 'isub'):
        for s in shapes:
            ds = [{}]
            if CLS[cls][4]:
                ds += [{k: {'denom': v['denom']} for k, v in t['derivs'].items()}, {'u': {'denom': [3]}}]
            for derivs in ds[:3]:
                if kind == 'int' and derivs:
                    continue
                yield q(cls, kind, s, numer, denom, t['units'], derivs, mask='A' if s else 'F'), {}
        if kind == 'float' and 'int' in CLS[cls][2]:
            yield q(cls, 'int', shape, numer, denom, None), {}
        if nrank == 0 and cls != 'Boolean':
            yield {'t': 'num', 'kind': kind}, {}
            yield {'t': 'nd', 'kind': kind, 'shape': shape}, {}
    elif mut in ('imul', 'itruediv', 'ifloordiv', 'imod'):
        k2 = kind
        if mut == 'itruediv' and kind != 'float':
            k2 = 'float'
        for s in shapes:
            derivs = {'t': {'denom': t['derivs']['t']['denom']}} if ('t' in t['derivs'] and mut in ('imul', 'itruediv')) else {}
            yield q('Scalar', k2 if k2 != 'bool' else 'int', s, [], [], None, derivs, mask='A' if s else 'F'), {}
        yield {'t': 'num', 'kind': k2 if k2 != 'bool' else 'int'}, {}
        yield {'t': 'nd', 'kind': k2 if k2 != 'bool' else 'int', 'shape': shapes[-1]}, {}
        if mut in ('imul', 'itruediv') and cls == 'Matrix' and numer == [2, 2] and not denom:
            yield q('Matrix', 'float', shapes[0], [2, 2], [], None, {}), {}
        if mut == 'imul' and cls == 'Matrix3':
            yield q('Matrix3', 'float', shapes[0], [3, 3], [], None, {}), {}
    elif mut == 'ipow':
        yield {'t': 'num', 'kind': 'int'}, {}
    elif mut in LOGIC:
        for s in shapes[:3]:
            yield q('Boolean', 'bool', s, [], [], None, {}, mask='A' if s else 'F'), {}
        yield {'t': 'num', 'kind': 'bool'}, {}
    elif mut == 'setitem':
        for index, sel in indices_for(shape):
            for s in into_shapes(sel)[:3]:
                ds = [{}]
                if CLS[cls][4] and kind == 'float':
                    ds += [{k: {'denom': v['denom']} for k, v in t['derivs'].items()}, {'u': {'denom': [3]}}]
                for derivs in ds[:3]:
                    yield q(cls, kind, s, numer, denom, t['units'], derivs, mask='A' if s else 'F'), {'index': index}
    elif mut == 'insert_deriv':
        if CLS[cls][4]:
            for s in shapes[:3]:
                for dd in ([], [2]):
                    for key in ('t', 'u'):
                        dcls = cls if cls not in ('Matrix3', 'Quaternion', 'Vector3', 'Pair') or not dd else cls
                        yield q(dcls, 'float', s, numer, dd, None, {}), {'key': key, 'override': rng.choice([None, True, False])}
    elif mut == 'insert_derivs':
        if CLS[cls][4]:
            s = shapes[0]
            yield {'t': 'derivs', 'items': [['u', q(cls, 'float', s, numer, [], None, {})],
                                            ['v', q(cls, 'float', [], numer, [2], None, {})]]}, {'override': rng.choice([None, True, False])}
            yield {'t': 'derivs', 'items': [['t', q(cls, 'float', s, numer, [], None, {})]]}, {'override': rng.choice([None, True])}
            yield {'t': 'derivs', 'items': []}, {'override': None}
    elif mut == 'delete_deriv':
        for key in ('t', 'zz'):
            yield None, {'key': key, 'override': rng.choice([None, False])}
    elif mut == 'delete_derivs':
        for preserve in (None, [], ['t'], ['x'], ['zz'], ['t', 'x']):
            yield None, {'preserve': preserve, 'ptype': rng.choice(['list', 'tuple', 'set']), 'override': rng.choice([None, False])}
    elif mut == 'set_units':
        if CLS[cls][3]:
            yield {'t': 'units', 'units': {'km': 'm', None: 'km'}.get(t['units'], t['units'])}, {'override': None}
            yield {'t': 'units', 'units': None}, {'override': None}
        else:
            yield {'t': 'units', 'units': None}, {'override': None}


def indices_for(shape):
    """(index descriptor, selected shape) pairs valid for a target of the given shape"""
    if not shape:
        return [(['e'], []), (['T'], [])]
    res = [([0], shape[1:]), ([['s', None, None, None]], shape), (['e'], shape), ([-1], shape[1:]),
           ([['a', [0, shape[0] - 1]]], [2] + shape[1:]) if shape[0] else ([['s', 0, 0, None]], [0] + shape[1:])]
    if len(shape) >= 2:
        res += [([0, 1], shape[2:]), (['e', 0], shape[:-1]), ([['s', 0, 1, None], ['s', None, None, None]], [1] + shape[1:])]
    if shape[0] >= 2:
        res += [([['b', [True] + [False] * (shape[0] - 2) + [True]]], [2] + shape[1:]),
                ([['q', [0, 1], [False, True]]], [2] + shape[1:])]
    return res


# --------------------------------------------------------------------------- fault injection
def applicable(mut):
    if mut in NONMUT:
        return tuple(f for f in applicable(NONMUT[mut]) if f != 'ro') + (('shape', 'numer', 'denom') if mut.endswith('pow') else ())
    if mut in ('iadd', 'isub'):
        return ('shape', 'units', 'numer', 'denom', 'kind', 'type', 'deriv', 'ro')
    if mut in ('imul', 'itruediv'):
        return ('shape', 'units', 'numer', 'denom', 'kind', 'type', 'deriv', 'ro')
    if mut in ('ifloordiv', 'imod'):
        return ('shape', 'units', 'numer', 'denom', 'kind', 'type', 'ro')
    if mut == 'ipow':
        return ('type', 'kind', 'ro')
    if mut in LOGIC:
        return ('shape', 'numer', 'type', 'ro')
    if mut == 'setitem':
        return ('shape', 'units', 'numer', 'denom', 'type', 'deriv', 'ro', 'index')
    if mut == 'insert_deriv':
        return ('shape', 'numer', 'type', 'ro')
    if mut == 'insert_derivs':
        return ('shape', 'numer', 'type', 'ro')
    if mut in ('delete_deriv', 'delete_derivs'):
        return ('ro',)
    if mut == 'set_units':
        return ('units', 'type', 'ro')
    return ()


def inject(case, fault, rng):
    """returns a new case with the fault injected, or None if this fault cannot be expressed for the case"""
    c = copy.deepcopy(case)
    t, a, mut = c['target'], c.get('arg'), c['mut']
    if fault == 'ro':
        t['ro'] = True
        return c
    if fault == 'index':
        if not t['shape']:
            c['index'] = [0]
        else:
            c['index'] = rng.choice([[['f']], [0] * (len(t['shape']) + 1), ['e', 'e'], [['bad']],
                                     [['b', [True] * (t['shape'][0] + 1)]]]
                                    + [[['inner', k]] for k in ('rag', 'nonel', 'strl', 'objarr', 'nest', 'strarr')])
        return c
    if a is None:
        return None
    if fault == 'type':
        if mut == 'insert_derivs':
            if not a['items']:
                return None
            a['items'][-1][1] = {'t': 'bad', 'what': rng.choice(['str', 'none', 'object'])}
            return c
        # ('str' for set_units is an unknown unit NAME)
        c['arg'] = {'t': 'bad', 'what': rng.choice(['dict', 'object', 'none', 'complex', 'str'])}
        return c
    if mut == 'set_units':
        if fault == 'units' and a['t'] == 'units' and t.get('units') is not None:
            a['units'] = 's' if t['units'] in ('km', 'm') else 'km'
            return c
        return None
    tgt = a
    if mut == 'insert_derivs':
        if not a['items']:
            return None
        tgt = a['items'][-1][1]
    if tgt.get('t') == 'nd' and fault == 'shape':
        if (t['numer'] or t['denom']) and mut in ('iadd', 'isub', 'setitem'):
            return None           # trailing axes of a bare array are taken as the item: not a leading-shape fault
        tgt['shape'] = rng.choice(bad_shapes(t['shape']))
        return c
    if tgt.get('t') == 'num' and fault == 'kind':
        if t['kind'] == 'int':
            tgt['kind'] = 'float'
            return c
        return None
    if tgt.get('t') != 'q':
        return None
    if fault == 'shape':
        base = t['shape']
        if mut == 'setitem':
            sel = dict((str(i), s) for i, s in indices_for(t['shape'])).get(str(c['index']))
            if sel is None:
                return None
            base = sel
        tgt['shape'] = rng.choice(bad_shapes(base))
        if mut == 'setitem' and len(tgt['shape']) > len(base) and all(n == 1 for n in tgt['shape'][:len(tgt['shape']) - len(base)]):
            return None       # NumPy item assignment drops extra leading unit axes: not a fault there
        # the operand's mask in every representation: an array (its shape is wrong too), or a scalar False / True
        # (then only the VALUES fail to fit, and a mask written first would survive the rejection)
        tgt['mask'] = rng.choice(['A', 'F', 'T'])
        for d in tgt.get('derivs', {}).values():
            d.pop('shape', None)
        return c
    if fault == 'units':
        if not CLS[t['cls']][3] and not CLS[tgt['cls']][3] and mut in ('iadd', 'isub') \
                and tgt['cls'] in ('Quaternion', 'Matrix3'):
            # an operand of a unit-carrying class with the same item shape (Quaternion += Vector of 4 components)
            tgt['cls'] = {'Quaternion': 'Vector', 'Matrix3': 'Matrix'}[tgt['cls']]
        if not CLS[tgt['cls']][3]:
            return None
        if not CLS[t['cls']][3]:
            # the target's class disallows units (Matrix3, Quaternion): ANY units on the operand are a fault
            if mut not in ARITH:
                return None
            tgt['units'] = 'km'
            return c
        if mut not in ('iadd', 'isub', 'setitem') and mut not in NONMUT:
            return None               # units multiply / divide: different units are not a fault there
        if t['units'] is None:
            t['units'] = 'km'
        tgt['units'] = 's'
        return c
    if fault == 'numer':
        nrank = CLS[tgt['cls']][0]
        if tgt['cls'] in FREE_NUMERS and rng.random() < 0.6:
            tgt['numer'] = [n + 2 for n in tgt['numer']]           # same class, other item shape (no unit axes)
        else:                                                     # another class of different numerator
            other = {'Scalar': ('Vector', [3]), 'Boolean': ('Vector', [3]), 'Vector': ('Scalar', []), 'Vector3': ('Pair', [2]),
                     'Pair': ('Vector3', [3]), 'Quaternion': ('Vector3', [3]), 'Matrix': ('Vector', [2]),
                     'Matrix3': ('Matrix', [2, 2])}[tgt['cls']]
            tgt['cls'], tgt['numer'] = other
            if tgt['kind'] not in CLS[tgt['cls']][2]:
                tgt['kind'] = 'float'
            if not CLS[tgt['cls']][3]:
                tgt['units'] = None
        if mut in LOGIC and list(tgt['numer']) + list(tgt['denom']) == list(t['numer']) + list(t['denom']):
            return None               # the operand's item happens to equal the target's: no fault for &= |= ^=
        return c
    if fault == 'denom':
        if tgt['cls'] == 'Boolean':
            return None
        # another denominator, including (1,) and lengths equal to a leading axis of the target: the trouble spot is
        # an operand whose VALUE ARRAY happens to broadcast into the target's although its item structure differs
        tgt['denom'] = rng.choice([d for d in ([1], [2], [3]) if d != tgt['denom']])
        if mut in ('imul', 'itruediv', 'ifloordiv', 'imod') and rng.random() < 0.5:
            tgt['shape'] = []                                      # shapeless operand carrying a denominator
            tgt['mask'] = 'F'
            for d in tgt.get('derivs', {}).values():
                d.pop('shape', None)
        return c
    if fault == 'kind':
        if t['kind'] != 'int' or 'float' not in CLS[tgt['cls']][2]:
            return None
        tgt['kind'] = 'float'
        return c
    if fault == 'deriv':
        if not CLS[t['cls']][4] or t['kind'] != 'float' or tgt.get('kind') != 'float' or not CLS[tgt['cls']][4]:
            return None
        t['derivs'] = dict(t['derivs'])
        t['derivs']['t'] = {'denom': [2]}
        tgt['derivs'] = dict(tgt.get('derivs', {}))
        tgt['derivs']['t'] = {'denom': [3]}                        # same key, other denominator
        return c
    return None


def badkey_cases(rng, tier):
    """malformed-argument stream for the derivative mutators: keys that are not strings (int, tuple, None, bytes,
    float) on fresh objects of every class and on shared class constants"""
    import c19_run
    out = []
    for cls in CLS:
        numer = numers(cls)[0]
        kind = 'bool' if cls == 'Boolean' else 'float'
        derivs = {'t': {'denom': []}} if CLS[cls][4] else {}
        variants = [({'cls': cls, 'kind': kind, 'shape': sh, 'numer': numer, 'denom': [], 'units': None, 'ro': ro,
                      'mask': 'F', 'derivs': derivs}, None) for sh in ([], [3]) for ro in (False, True)]
        consts = c19_run.class_constants(cls)
        variants += [({'cls': cls, 'kind': kind, 'shape': [], 'numer': numer, 'denom': [], 'units': None, 'ro': True,
                       'mask': 'F', 'derivs': {}}, c) for c in (consts if tier == 'thorough' else consts[:2])]
        for t, const in variants:
            for meth in ('insert_deriv', 'insert_derivs', 'insert_derivs2', 'with_deriv', 'rename_deriv', 'delete_deriv'):
                if const and meth == 'rename_deriv':
                    continue
                for kk in ('int', 'tuple', 'none', 'bytes', 'float'):
                    if tier != 'thorough' and rng.random() < 0.4:
                        continue
                    dcls = 'Scalar' if cls == 'Boolean' else cls
                    arg = q(dcls, 'float', t['shape'], numer, [], None, {})
                    c = {'mut': 'badkey', 'meth': meth, 'keykind': kk, 'target': t, 'arg': arg, 'faults': ['type'],
                         'vseed': rng.randrange(1000)}
                    if const:
                        c['const'] = const
                    if meth == 'with_deriv':
                        c['method'] = rng.choice(['insert', 'replace', 'add'])
                    out.append(c)
    return out


def gen(rng, tier):
    """all cases: valid ones, every single fault, pairs of faults.  quick: a stratified sample of targets per mutator
    (every class with and without derivatives is always present); thorough: every target"""
    cases = []
    tg = targets(tier)
    thorough = tier == 'thorough'
    for mut in MUTATORS + tuple(NONMUT):
        strata = {}
        for t in tg:
            strata.setdefault((t['cls'], bool(t['derivs']), t['kind']), []).append(t)
        mine = []
        per = (30 if mut in ARITH + ('setitem',) else 12) if thorough else (4 if mut in ARITH + ('setitem',) else 2)
        if mut in NONMUT:
            per = 6 if thorough else 1
        for key in sorted(strata, key=str):
            mine += rng.sample(strata[key], min(len(strata[key]), per))
        # trouble spot, always present: shapeless objects whose value is a Python scalar (attribute REBINDING instead
        # of an in-place update), with and without a derivative
        for t in tg:
            if t['cls'] in ('Scalar', 'Boolean') and not t['shape'] and not t['denom'] and t['mask'] == 'F' \
                    and len(t['derivs']) <= 1 and t not in mine:
                mine.append(t)
        # trouble spot, always present: a read-only derivative inside a writable object (must be detected before
        # the values are written by *=, /= with a number and by item assignment)
        for t in tg:
            if any(d.get('ro') for d in t['derivs'].values()) and t['cls'] in ('Scalar', 'Vector3', 'Matrix') \
                    and t['mask'] == 'F' and not t['denom'] and t['shape'] in ([3], []) and t not in mine:
                mine.append(t)
        for t in mine:
            if mut in LOGIC and t['cls'] not in ('Boolean', 'Scalar') and rng.random() < 0.7:
                continue
            if mut in ('delete_deriv', 'delete_derivs') and not CLS[t['cls']][4]:
                continue
            bases = list(valid_args(mut, t, rng, tier))
            if len(bases) > (8 if thorough else 3):
                bases = rng.sample(bases, 8 if thorough else 3)
            for arg, extra in bases:
                base = dict({'mut': mut, 'target': t, 'arg': arg, 'vseed': rng.randrange(1000), 'faults': []}, **extra)
                cases.append(copy.deepcopy(base))
                fl = applicable(mut)
                for f in fl:
                    c = inject(base, f, rng)
                    if c is not None:
                        c['faults'] = [f]
                        cases.append(c)
                pairs = list(itertools.combinations(fl, 2))
                if len(pairs) > (10 if thorough else 5):
                    pairs = rng.sample(pairs, 10 if thorough else 5)
                for f, g in pairs:
                    c = inject(base, f, rng)
                    c = inject(c, g, rng) if c is not None else None
                    if c is not None:
                        c['faults'] = [f, g]
                        cases.append(c)
    cases += badkey_cases(rng, tier)
    return cases
