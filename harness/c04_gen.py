"""C04 case generation: operand templates x shape pairs x operators, and the request lines for the model."""
import itertools
import numpy as np
import c04_ref as R

# ------------------------------------------------------------------------------------------- operand templates
# (cls, kind, numer, denom)
Q_CORE = [
    ('Scalar', 'int', [], []), ('Scalar', 'float', [], []), ('Boolean', 'bool', [], []),
    ('Vector', 'int', [3], []), ('Vector', 'float', [2], []), ('Vector3', 'float', [3], []), ('Pair', 'int', [2], []),
    ('Pair', 'float', [2], []), ('Matrix', 'float', [2, 3], []), ('Matrix', 'float', [3, 3], []),
    ('Matrix3', 'float', [3, 3], []), ('Quaternion', 'float', [4], []),
]
Q_MORE = [
    ('Scalar', 'float', [], [2]), ('Scalar', 'int', [], [3]), ('Scalar', 'float', [], [2, 2]), ('Scalar', 'bool', [], []),
    ('Vector', 'float', [3], [2]), ('Vector', 'float', [1], []), ('Vector', 'int', [2], []), ('Vector', 'float', [3], [3]),
    ('Vector3', 'int', [3], []), ('Vector3', 'float', [3], [2]), ('Pair', 'float', [2], [2]), ('Pair', 'bool', [2], []),
    ('Matrix', 'int', [2, 2], []), ('Matrix', 'float', [3, 2], []), ('Matrix', 'float', [2, 2], [2]),
    ('Matrix', 'float', [1, 3], []), ('Matrix3', 'int', [3, 3], []), ('Matrix3', 'float', [3, 3], [2]),
    ('Quaternion', 'int', [4], []), ('Vector', 'float', [4], []),
]
RAW = [('num', 'int'), ('num', 'float'), ('num', 'bool'), ('npnum', 'int'), ('npnum', 'float'), ('nd', 'int'), ('nd', 'float'), ('nd', 'bool'), ('ma', 'int'),
       ('ma', 'float'), ('list', 'int'), ('list', 'float')]

BIN = ['add', 'sub', 'mul', 'div', 'floordiv', 'mod', 'pow']
UN = ['neg', 'abs', 'pos']

# leading-shape pairs that over-represent the trouble spots: rank 0 on either side, length-0 / length-1 axes,
# a leading axis whose length equals the vector length (2, 3 or 4), rank mismatch, incompatible pairs
TROUBLE = [([], []), ([], [3]), ([3], []), ([3], [3]), ([1], [3]), ([3], [1]), ([2], [3]), ([3], [2]), ([2, 3], [3]),
           ([3], [2, 3]), ([2, 1], [3]), ([2, 1], [1, 3]), ([3, 3], [3]), ([3], [3, 1]), ([2, 3], [2, 1]), ([2, 3], [3, 2]),
           ([0], []), ([], [0]), ([0], [1]), ([0], [3]), ([2, 0], [1]), ([0, 3], [3]), ([1, 1], [2, 2]), ([2, 2], [2]),
           ([4], [4]), ([4], []), ([2, 2, 2], [2, 1, 2]), ([1, 2, 3], [3, 1, 1]), ([2, 2, 3], [3, 3]), ([3, 1, 2], [2, 2]),
           ([2], [2]), ([2], []), ([], [2]), ([1], []), ([], [1]), ([1], [1]), ([3, 2], [2]), ([2, 3], [2])]


def all_shapes(max_rank, lengths=(0, 1, 2, 3)):
    for r in range(max_rank + 1):
        for s in itertools.product(lengths, repeat=r):
            yield list(s)


def rvals(rng, n, kind, role=''):
    if kind == 'bool':
        return [8 * rng.randint(0, 1) for _ in range(n)]
    if kind == 'int':
        lo, hi = (-3, 3) if role != 'expo' else (-2, 3)
        return [8 * rng.randint(lo, hi) for _ in range(n)]
    if role == 'expo':
        return [rng.choice([-8, 0, 4, 8, 12, 16, 20, -4]) for _ in range(n)]
    return [rng.randint(-20, 20) for _ in range(n)]


def rmask(rng, shape, p):
    n = R.prod(shape)
    u = rng.random()
    if u > p or n == 0:
        return 'F'
    if u < p * 0.15:
        return 'T'
    if not shape:
        return 'T' if rng.random() < 0.5 else 'F'
    return [rng.random() < 0.4 for _ in range(n)]


def q_operand(rng, tpl, shape, pmask=0.15, punits=0.12, role=''):
    cls, kind, numer, denom = tpl
    o = {'src': 'qube', 'cls': cls, 'kind': kind, 'shape': list(shape), 'numer': list(numer), 'denom': list(denom)}
    o['vals'] = rvals(rng, R.prod(R.full_shape(o)), kind, role)
    o['mask'] = rmask(rng, shape, pmask)
    o['units'] = None
    if cls not in ('Boolean', 'Matrix3', 'Quaternion') and rng.random() < punits:
        o['units'] = rng.choice([[1, 0, 0], [0, 1, 0], [1, -1, 0], [0, 0, 1], [0, 0, 0]])
    return o


def raw_operand(rng, tpl, shape, pmask=0.2, role=''):
    src, kind = tpl
    if src in ('num', 'npnum'):
        shape = []
    if src == 'list' and not shape:
        shape = [2]                                   # a rank-0 "list" would be a plain number
    o = {'src': src, 'cls': '-', 'kind': kind, 'shape': list(shape), 'numer': [], 'denom': [], 'units': None}
    o['vals'] = rvals(rng, R.prod(shape), kind, role)
    o['mask'] = rmask(rng, shape, pmask) if src == 'ma' else 'F'
    if src == 'ma' and o['mask'] == 'T':
        o['mask'] = [True] * R.prod(shape)
    return o


def raw_shape_for(rng, tpl, other_tpl, lead, op):
    """full shape of a raw operand: a leading shape followed (for + and -) by the other operand's item shape, sometimes
    a deliberately wrong one"""
    if tpl[0] in ('num', 'npnum'):
        return []
    if tpl[0] == 'list':
        lead = [x if x else 1 for x in lead]        # a nested list cannot carry a zero-length axis faithfully
    if tpl[0] == 'list' and not lead and not (op in ('add', 'sub') and other_tpl and (other_tpl[2] or other_tpl[3])):
        lead = [rng.choice([1, 2, 3])]
    if op in ('add', 'sub') and other_tpl is not None:
        item = list(other_tpl[2]) + list(other_tpl[3])
        u = rng.random()
        if u < 0.12 and item:
            item = item[:-1] + [item[-1] + 1]
        elif u < 0.2 and item:
            item = item[1:]
        return list(lead) + item
    return list(lead)


def operand(rng, tpl, lead, other_tpl, op, role=''):
    if len(tpl) == 4:
        return q_operand(rng, tpl, lead, role=role)
    return raw_operand(rng, tpl, raw_shape_for(rng, tpl, other_tpl if other_tpl and len(other_tpl) == 4 else None, lead, op),
                       role=role)


# ------------------------------------------------------------------------------------------- requests for the model
def opd_sx(o):
    m = o.get('mask', 'F')
    msx = m if m in ('T', 'F') else [bool(x) for x in m]
    return ['num' if o['src'] == 'npnum' else o['src'], o['cls'], o['kind'], list(o['shape']), list(o.get('numer', [])), list(o.get('denom', [])),
            [int(v) for v in o['vals']], msx, '-' if o.get('units') is None else [int(x) for x in o['units']]]


MODELLED_BIN = {'add', 'sub', 'mul', 'div', 'floordiv', 'mod'}      # ** is judged by the oracle only


def blank_sx(case):
    b = R.blank_for(case)
    return [] if b is None else b


def request(case):
    op = case['op']
    a, b = case['a'], case.get('b')
    if op == 'bshape':
        return ['c04', 'bshape', a['shape'], b['shape']]
    if op in ('neg', 'abs', 'pos'):
        if op == 'abs' and len(a.get('numer', [])) == 1:
            return None                                   # vector norm (C16)
        return ['c04', op, opd_sx(a), blank_sx(case)]
    if op == 'pow':
        # class / kind / shape / rejection of Scalar ** x (values: oracle only); other bases: C16; units: C12
        if a['src'] != 'qube' or a['cls'] not in ('Scalar', 'Boolean') or a.get('units') is not None:
            return None
        return ['c04', 'pow', opd_sx(a), opd_sx(b), blank_sx(case)]
    if op == 'arctan2':
        if a['src'] != 'qube' or a['cls'] not in ('Scalar', 'Boolean'):
            return None
        return ['c04', 'arctan2', opd_sx(a), opd_sx(b), blank_sx(case)]
    if op in R.MATHFN:
        if a['src'] != 'qube' or a['cls'] not in ('Scalar', 'Boolean'):
            return None
        if op == 'sign' and a['cls'] == 'Boolean':
            return None
        return ['c04', 'math', op, opd_sx(a), blank_sx(case)]
    if op in R.IOPS:
        d = dict(case, op=R.DIRECT[op])
        d.pop('req', None)
        r = request(d)
        if r is None or a['src'] != 'qube':
            return None
        if b['src'] == 'ma' and not a['shape'] and not b['shape'] and \
                ((a['kind'] != 'float' and b['kind'] == 'float') or op in ('iadd', 'isub')):
            return None           # KF-C04-10 / KF-C04-11: a single value rebound to a 0-d MaskedArray / numpy.ma.masked; oracle only
        if op == 'imul' and a['cls'] == 'Matrix3' and b['src'] == 'qube' and len(b.get('numer', [])) != 2:
            return None           # KF-C04-9 (as_matrix3 re-reads leading axes): judged by the oracle only
        return ['c04', 'inplace', R.DIRECT[op]] + r[2:-1] + [blank_sx(case)]
    if op in MODELLED_BIN:
        if a['src'] != 'qube' and b['src'] != 'qube':
            return None
        if op in ('mul', 'div') and {a.get('cls'), b.get('cls')} == {'Scalar', 'Matrix3'} and \
                any((o.get('prov') or {}).get('derivs') and not o.get('denom') for o in (a, b)):
            return None           # KF-C04-8 (Matrix3 with a Scalar that carries a derivative): judged by the oracle only
        cls = {a.get('cls'), b.get('cls')}
        if 'Quaternion' in cls and op in ('mul', 'div', 'pow'):
            qa = a if a.get('cls') == 'Quaternion' else b
            other = b if qa is a else a
            # quaternion products / 3-vector promotion: C16. Scaling by scalars stays here.
            if other['src'] == 'qube' and len(other.get('numer', [])) != 0:
                return None
            if op == 'pow':
                return None
        if op == 'div' and b['src'] == 'qube' and len(b.get('numer', [])) > 0:
            return None                                   # division by a non-scalar: reciprocal paths (C16)
        return ['c04', op, opd_sx(a), opd_sx(b), blank_sx(case)]
    return None


def mk(case, tag=''):
    case['req'] = request(case)
    a, b = case['a'], case.get('b')
    nt = False
    if b is not None:
        la = a['shape'] if a['src'] == 'qube' else None
        lb = b['shape'] if b['src'] == 'qube' else None
        nt = (la != lb) or bool(a.get('denom')) or bool(b.get('denom')) or a.get('cls') != b.get('cls')
    def nm(o):
        return '-' if o is None else (o['cls'] if o['src'] == 'qube' else o['src'])
    case['kind'] = '%s:%s:%s%s' % (case['op'], nm(a), nm(b), tag)
    case['nontrivial'] = bool(nt)
    if case['req'] is None:
        case['id'] = repr((case['op'], a, b))
    return case


# ------------------------------------------------------------------------------------------- operand provenance
def decorate(rng, cases, p=0.3):
    """give a share of the cases operands with a HISTORY (same values/mask/units/class as the plain operand): built through
    a number fast path (y0 + c, y0 - c, c + y0, y0 * c, c * y0) from a base object that carries a derivative and warm
    caches (.wod, .antimask, products ... touched before and after), other memory layouts (Fortran order, strided view),
    and earlier operations replayed on the very objects the judged operation then uses. The request for the model and
    the NumPy reference do not change: results must not depend on any of this."""
    warm_codes = list(R.WARM)
    pre_codes = list(R.PRE)
    for case in cases:
        if case['op'] == 'bshape' or rng.random() > p:
            continue
        for key in ('a', 'b'):
            o = case.get(key)
            if o is None or o['src'] in ('num', 'npnum', 'shape'):
                continue
            if rng.random() < 0.4:
                o['layout'] = rng.choice(['F', 'strided', 'rev'])
            if o['src'] != 'qube' or o['cls'] == 'Boolean' or o['kind'] == 'bool':
                continue
            if case['op'] == 'pow' and key == 'b':
                continue                      # exponents with derivatives are rejected by design
            if rng.random() < 0.6:
                vias = ['rmul'] if o['cls'] == 'Matrix3' else ['mul', 'rmul']     # Matrix3 * number is the number
                if o['cls'] == 'Scalar' and not o.get('denom'):
                    vias += ['add', 'sub', 'radd', 'add', 'sub']
                via = rng.choice(vias)
                if via in ('mul', 'rmul'):
                    c = rng.choice([2.0, -1.0, 0.5, -2.0]) if o['kind'] == 'float' else rng.choice([1, -1])
                else:
                    c = rng.choice([1, 2, -3]) if o['kind'] == 'int' else rng.choice([1, 2.5, -0.125, 3])
                o['prov'] = {'via': via, 'c': c, 'derivs': rng.random() < 0.8,
                             'warm': rng.sample(warm_codes, rng.randint(0, 4)),
                             'post': rng.sample(warm_codes, rng.randint(0, 2))}
        if case.get('b') is not None and rng.random() < 0.5:
            case['pre'] = [rng.choice(pre_codes) for _ in range(rng.randint(1, 4))]
        case['req'] = request(case)
        if case['req'] is None and 'id' not in case:
            case['id'] = repr((case['op'], case['a'], case.get('b')))
    return cases


# ------------------------------------------------------------------------------------------- generation
def pairs_for(rng, tier, core):
    if tier == 'quick':
        k = 5 if core else 2
        return rng.sample(TROUBLE, k) + [[rng.choice(SH2), rng.choice(SH2)]]
    if core:
        return TROUBLE + [[rng.choice(SH3), rng.choice(SH3)] for _ in range(40)]
    return rng.sample(TROUBLE, 10) + [[rng.choice(SH3), rng.choice(SH3)] for _ in range(6)]


SH2 = list(all_shapes(2))
SH3 = list(all_shapes(3))


def gen_cases(rng, tier):
    thorough = tier == 'thorough'
    cases = []
    qt = Q_CORE + Q_MORE
    # 0. the broadcast rule itself: every pair of shapes up to rank 2 (quick) / 3 (thorough, sampled above rank 2)
    shs = SH2
    for s0 in shs:
        for s1 in shs:
            cases.append(mk({'op': 'bshape', 'a': {'src': 'shape', 'shape': s0}, 'b': {'src': 'shape', 'shape': s1}}))
    for _ in range(4000 if thorough else 300):
        cases.append(mk({'op': 'bshape', 'a': {'src': 'shape', 'shape': rng.choice(SH3)},
                         'b': {'src': 'shape', 'shape': rng.choice(SH3)}}))
    # 1. every ordered pair of operand templates x operators x shape pairs
    tpls = [(t, True) for t in Q_CORE] + [(t, False) for t in Q_MORE] + [(t, True) for t in RAW]
    for (ta, ca) in tpls:
        for (tb, cb) in tpls:
            if len(ta) == 2 and len(tb) == 2:
                continue
            core = ca and cb
            for op in BIN:
                if not thorough and not core and rng.random() < 0.6:
                    continue
                if op == 'pow' and not (len(ta) == 4 and ta[0] in ('Scalar', 'Boolean')) and rng.random() < 0.8:
                    continue
                for (sa, sb) in pairs_for(rng, tier, core and op in ('add', 'mul', 'div')):
                    if op == 'pow' and rng.random() < 0.6:
                        sb = rng.choice([[], [], [1], [2]])
                    a = operand(rng, ta, sa, tb, op)
                    b = operand(rng, tb, sb, ta, op, role='expo' if op == 'pow' else '')
                    cases.append(mk({'op': op, 'a': a, 'b': b}))
    # 2. the full product of leading shapes (the quantifier of the property) for the cells where alignment matters
    cells = [(('Vector', 'float', [3], []), ('Scalar', 'float', [], [])), (('Scalar', 'int', [], []), ('Vector', 'int', [3], [])),
             (('Scalar', 'float', [], []), ('Scalar', 'float', [], [])), (('Vector', 'float', [2], []), ('Vector', 'float', [2], [])),
             (('Matrix', 'float', [2, 3], []), ('Vector', 'float', [3], [])), (('Vector', 'float', [3], [2]), ('Scalar', 'float', [], [])),
             (('Vector', 'float', [3], []), ('Scalar', 'float', [], [2])), (('Vector', 'float', [2], []), ('nd', 'float')),
             (('nd', 'int'), ('Pair', 'int', [2], []))]
    shs = SH2 if not thorough else SH3
    for (ta, tb) in cells:
        pairs = [(s0, s1) for s0 in SH2 for s1 in SH2]
        if thorough:
            pairs += [(rng.choice(SH3), rng.choice(SH3)) for _ in range(3000)]
        else:
            pairs = rng.sample(pairs, 60)
        for (sa, sb) in pairs:
            for op in (['add', 'sub', 'mul', 'div', 'floordiv', 'mod'] if thorough else [rng.choice(['add', 'mul', 'div', 'mod'])]):
                a = operand(rng, ta, sa, tb, op)
                b = operand(rng, tb, sb, ta, op)
                cases.append(mk({'op': op, 'a': a, 'b': b}, ':grid'))
    # 2b. unit dimensions: otherwise compatible operands whose units match / differ / are absent
    UNITS = [None, [1, 0, 0], [0, 1, 0], [1, -1, 0], [0, 0, 0]]
    for t in [('Scalar', 'float', [], []), ('Scalar', 'int', [], []), ('Vector', 'float', [3], []), ('Vector3', 'float', [3], []),
              ('Pair', 'int', [2], []), ('Matrix', 'float', [2, 2], []), ('Vector', 'float', [2], [2])]:
        for op in ('add', 'sub'):
            for u1 in UNITS:
                for u2 in UNITS:
                    for (sa, sb) in ([([], []), ([2], [2]), ([2, 1], [3])] if thorough else [rng.choice([([], []), ([2], [2]), ([2, 1], [3])])]):
                        a = q_operand(rng, t, sa, pmask=0.0, punits=0.0)
                        b = q_operand(rng, t, sb, pmask=0.0, punits=0.0)
                        a['units'], b['units'] = u1, u2
                        cases.append(mk({'op': op, 'a': a, 'b': b}, ':units'))
    # 3. unary operators and the Scalar math functions
    for t in qt:
        for s in (SH2 if thorough else rng.sample(SH2, 4) + [[]]):
            for op in UN:
                cases.append(mk({'op': op, 'a': q_operand(rng, t, s)}))
    for t in [('Scalar', 'float', [], []), ('Scalar', 'int', [], []), ('Boolean', 'bool', [], []),
              ('Scalar', 'float', [], [2]), ('Scalar', 'int', [], [2, 2])]:
        for s in (SH2 if thorough else rng.sample(SH2, 5) + [[]]):
            for op in R.MATHFN:
                cases.append(mk({'op': op, 'a': q_operand(rng, t, s)}))
    for (sa, sb) in (TROUBLE if not thorough else TROUBLE + [(rng.choice(SH3), rng.choice(SH3)) for _ in range(300)]):
        for tb in [('Scalar', 'float', [], []), ('Scalar', 'int', [], []), ('num', 'float'), ('nd', 'float'), ('Vector', 'float', [2], []),
                   ('Scalar', 'float', [], [2]), ('Boolean', 'bool', [], [])]:
            ta = ('Scalar', 'float', [], [2]) if rng.random() < 0.15 else ('Scalar', 'float', [], [])
            a = q_operand(rng, ta, sa)
            b = operand(rng, tb, sb, None, 'arctan2')
            cases.append(mk({'op': 'arctan2', 'a': a, 'b': b}))
    # 3b. unit rules of the math functions (angle / unitless / even exponents)
    for op in R.MATHFN:
        for u in [None, [0, 0, 0], [0, 0, 1], [1, 0, 0], [2, 0, 0], [1, -1, 0], [0, 2, -2]]:
            a = q_operand(rng, ('Scalar', 'float', [], []), rng.choice([[], [2], [2, 3]]), pmask=0.0, punits=0.0)
            a['units'] = u
            cases.append(mk({'op': op, 'a': a}, ':units'))
    # 3c. ** with integer bases and integer exponents of either sign, shapeless and array, every exponent form
    for tb in [('Scalar', 'int', [], []), ('num', 'int'), ('npnum', 'int'), ('nd', 'int'), ('ma', 'int'), ('list', 'int'),
               ('Scalar', 'float', [], []), ('num', 'float'), ('Boolean', 'bool', [], [])]:
        for (sa, sb) in [([], []), ([3], []), ([], [3]), ([2, 3], [3]), ([3], [3]), ([2], [3])] * (3 if thorough else 1):
            for ta in [('Scalar', 'int', [], []), ('Scalar', 'float', [], []), ('Boolean', 'bool', [], [])]:
                a = q_operand(rng, ta, sa, pmask=0.1, punits=0.0)
                b = operand(rng, tb, sb, None, 'pow', role='expo')
                b['units'] = None
                cases.append(mk({'op': 'pow', 'a': a, 'b': b}, ':ints'))
    # 4. in-place forms: every template pair with a polymath target; shape pairs biased towards "b broadcasts into a"
    INTO = [([], []), ([3], []), ([3], [3]), ([3], [1]), ([2, 3], [3]), ([2, 3], [2, 1]), ([2, 3], []), ([1], []), ([0], []),
            ([2, 0], [1]), ([3, 3], [3]), ([4], [4]), ([2], [2]), ([2, 2, 2], [2, 1, 2]), ([3, 2], [2]), ([2, 3], [2, 3]),
            ([], [3]), ([1], [3]), ([2], [3]), ([3], [2, 3]), ([2, 1], [1, 3])]
    for (ta, ca) in tpls:
        if len(ta) != 4:
            continue
        for (tb, cb) in tpls:
            core = ca and cb
            for op in ['iadd', 'isub', 'imul', 'idiv', 'ifloordiv', 'imod']:
                if not thorough and rng.random() < (0.3 if core else 0.8):
                    continue
                for (sa, sb) in (rng.sample(INTO, 8 if core else 3) if thorough else rng.sample(INTO, 2 if core else 1)):
                    a = operand(rng, ta, sa, tb, R.DIRECT[op])
                    b = operand(rng, tb, sb, ta, R.DIRECT[op])
                    cases.append(mk({'op': op, 'a': a, 'b': b}, ':inplace'))
    return decorate(rng, cases, p=float(__import__("os").environ.get("C04_PROV", "0.3")))
