"""C01 — masks propagate exactly through arithmetic: masked in, masked out, nothing more."""
import itertools
import numpy as np
from absn import *
import common as C
import c01_ops as K
from c01_ops import OPS, KINDS

PROP = 'C01'
LEAN_MODULES = ['PMV.Props.C01', 'PMV.Props.C01Routes']
PARALLEL = True
MANIFEST = {
    'text': 'Kernel-checked theorems (PMV/Props/C01.lean) about the code-shaped mask computation of the Lean model '
            '(PMV/Model/MaskPath.lean: Qube.or_/and_ branch for branch, _suitable_mask with its broadcast_to fallback, '
            'mask_where with its any()/shapeless/array branches, one `Path` per distinct mask-handling code path of the '
            'operators, math functions, products and rotation constructors): for every pair of broadcast-compatible '
            'shapes of any rank, every mask representation and every path, the expanded result mask is the union of the '
            'operand masks broadcast onto the element and the operation\'s failure set, nothing more (or_at, '
            'suitableMask_at, maskWhere_at, mask_exact, mask_rep_independent), lifted to expression trees of any depth '
            'by induction (mask_exact_tree).  Tied to /repo on every run: the real operators/functions are driven over '
            'operand classes x item shapes x shape pairs x six mask representations x operand orders; the expanded '
            'result mask must equal both the compiled model\'s answer and a plain-NumPy union (direct oracle).',
    'design': 'DESIGN.md §3 C01, DESIGN.d/C01.md',
    'technique': 'Lean 4 proof (refinement of a code-shaped model to a point-wise specification; induction over shapes '
                 'and expression trees) + model/code correspondence',
    'note': 'Trusted: Lean kernel; hand-written model Model/MaskPath.lean (checked against the code by the '
            'correspondence run); the harness\'s choice of model path per operation (a wrong choice shows as a mismatch); '
            'the failure set is the domain predicate of C02 computed with NumPy/Fractions.',
}
RULE = ('catalogue operation x operand kinds (Scalar float/int, Boolean, Vector/Vector3/Pair, Matrix 2x2/3x3, Quaternion, '
        'Python number, ndarray) x broadcast-compatible leading shape pairs from a table over-representing (), length-0/1 '
        'axes x every mask representation whose expansion is the drawn pattern (False, True, all-False/all-True/mixed '
        'array, read-only broadcast view) x operand order / aliasing; values drawn from the trouble values of the '
        'operation (zeros, negatives, |x|>1 ...); non-trivial = some operand element masked or some failure or '
        'operands broadcast; distinct = distinct request line')
ASSUMPTIONS = ['the failure set of an operation is the mathematical domain predicate of C02 (division by zero, negative '
               'radicand, ...), computed in the harness from the operand values with NumPy / Fractions',
               'for singular-matrix cases the generator only emits matrices whose LAPACK determinant is exactly 0.0 '
               'iff the exact rational determinant is 0 (rounding of det is outside the property)',
               'operations defined in the source as compositions (perp, proj, ucross, with_norm, from_rotation, q/q, '
               'Matrix**n) are judged by the direct oracle only (swept, not modelled)']
TRUSTED_EXTRA = ['path selection table in harness/c01.py (which Lean `Path` models which operator/operand-kind combination)']

SCALARS = ('S', 'Si', 'B')


def regen():
    """T2: regenerate PMV/Gen/C01Routes.lean (call graph + mask tokens of the operators, and the path table this
    harness uses) from the current source; the obligations of PMV/Props/C01Routes.lean are then re-decided"""
    import os, c01_py2lean
    return c01_py2lean.regen(os.environ.get('PMV_REPO') or '/repo', C.LEAN)


# ------------------------------------------------------------------ model request
def leaf(o):
    return ['leaf', K.opd_wire(o)]


def fw(where, bits, opds, out):
    shape = out if where == 'out' else opds[where]['shape']
    return K.fail_wire(shape, bits)


def as_num(o, e):
    """Boolean operands go through as_int()/as_float(): Scalar(values, mask) = path ctor1"""
    return ['un', 'ctor1', 'N', e] if o['k'] == 'B' else e


def request(case):
    """the model request for this case, or None (oracle only)"""
    op = case['op']
    opds = K.logical_opds(case)
    out = K.lead_bcast([o['shape'] for o in opds])
    if out is None:
        return None
    f = K.fail_set(case)
    kinds = [KINDS[o['k']][0] for o in opds]
    isnum = [k == 'number' for k in kinds]
    same = 'Same' if (case.get('alias') or case.get('share')) and not isinstance(opds[0]['mask'], str) \
        and opds[0]['shape'] == opds[1]['shape'] and opds[0]['shape'] else ''
    L = [as_num(o, leaf(o)) for o in opds]
    run = lambda path, ops, fail='N': ['c01', 'run', path, [K.opd_wire(o) for o in ops], fail]
    tree = lambda e: ['c01', 'tree', e]
    anyB = any(o['k'] == 'B' for o in opds)

    if OPS[op].get('inplace'):
        # in-place forms (qube.py __iadd__ ... __imod__): number fast paths leave the mask alone, Qube operands are
        # merged with _merge_mask_, the divisions guard the divisor first, matrices commit the out-of-place product
        a, b = opds
        base = OPS[op]['inplace']
        ip = lambda kind, fail='N': ['c01', 'inplace', kind, [K.opd_wire(a), K.opd_wire(b)], fail]
        if op == 'ipow':                                   # no __ipow__: Python falls back to a = a ** b
            return request(dict(case, op='pow'))
        if op == 'imatmul':
            return ip('matmul')
        if op == 'imatdiv3':                               # Matrix3.reciprocal() is the transpose: nothing can fail
            return ip('matmul')
        if op == 'imatdiv':
            return ip('matdiv', fw(1, f[1], opds, out))
        if base in ('add', 'sub'):
            if a['k'] in ('S', 'Si') and (isnum[1] or (kinds[1] == 'ndarray' and (a['shape'] or not b['shape']))):
                return ip('number')
            return ip('merge')
        if base in ('mul', 'vmul'):
            return ip('number') if isnum[1] else ip('merge')
        if base in ('div', 'vdiv'):
            if isnum[1] and float(K.values_of(b)) != 0:
                return ip('number')
            return ip('divMerge', fw(1, f[1], opds, out))
        if base in ('floordiv', 'mod'):
            if isnum[1] and float(K.values_of(b)) != 0:
                return ip('number')
            return ip('pipeMerge', fw(1, f[1], opds, out))
        return None
    if op in ('add', 'sub', 'mul'):
        a, b = opds
        if isnum[1]:
            return tree(['un', 'cloneSet', 'N', L[0]])
        if isnum[0] and op != 'sub':
            return tree(['un', 'cloneSet', 'N', L[1]])
        if kinds[0] == 'ndarray' and op != 'sub':          # reflected: self.__add__(arg) / _mul_by_scalar(arg)
            return tree(['bin', 'ctorOr', 'N', L[1], L[0]])
        if same and not anyB:
            return run('ctorOrSame', [a, b])
        return tree(['bin', 'ctorOr', 'N', L[0], L[1]])
    if op == 'div':
        a, b = opds
        if isnum[1]:
            zero = float(K.values_of(b)) == 0
            return tree(['un', 'setTrue' if zero else 'cloneSet', 'N', L[0]])
        if isnum[0]:                                       # reciprocal() * number
            return tree(['un', 'cloneSet', 'N', ['un', 'guard', fw(1, f[1], opds, out), L[1]]])
        if same and not anyB:
            return run('divScalarSame', [a, b], fw(1, f[1], opds, out))
        return tree(['bin', 'divScalar', fw(1, f[1], opds, out), L[0], L[1]])
    if op in ('floordiv', 'mod'):
        a, b = opds
        if op == 'mod' and isnum[1]:
            zero = float(K.values_of(b)) == 0
            return tree(['un', 'setTrue' if zero else 'cloneSet', 'N', L[0]])
        return tree(['bin', 'divPipe', fw(1, f[1], opds, out), L[0], L[1]])
    if op == 'pow':
        a, e = opds
        if isnum[1]:
            ev = float(K.values_of(e))
            whole = KINDS[e['k']][2] == 'int'
            va = K.values_of(a).astype(float)
            if whole and ev in (0, 2, 3, 4):
                return tree(['un', 'ctor1', 'N', L[0]])
            if whole and ev == 1:
                return tree(L[0])
            if whole and ev == -1:
                return tree(['un', 'guard', K.fail_wire(a['shape'], va == 0), L[0]])
            if ev == 0.5:
                return tree(['un', 'guard', K.fail_wire(a['shape'], va < 0), L[0]])
            if ev == -0.5:
                return tree(['un', 'guard', K.fail_wire(a['shape'], va == 0),
                             ['un', 'guard', K.fail_wire(a['shape'], va < 0), L[0]]])
        if not a['shape'] and not e['shape']:
            return tree(['bin', 'pow0D', bool(f[1].ravel()[0]), L[0], L[1] if not isnum[1] else leaf(e)])
        return tree(['bin', 'powArr', fw('out', f[1], opds, out), L[0], L[1] if not isnum[1] else leaf(e)])
    if op in ('neg', 'abs', 'pos'):
        return tree(['un', 'cloneSet', 'N', L[0]])
    if op in ('sqrt', 'log', 'exp', 'reciprocal'):
        if f is None:
            return tree(['un', 'ctor1', 'N', L[0]])
        return tree(['un', 'guard', fw(0, f[1], opds, out), L[0]])
    if op in ('arcsin', 'arccos'):
        if f is None:
            return tree(['un', 'ctor1', 'N', L[0]])
        return tree(['un', 'guardAsin', fw(0, f[1], opds, out), L[0]])
    if op == 'absm':
        return tree(['un', 'cloneSet', 'N', L[0]])
    if op in ('sin', 'cos', 'tan', 'arctan', 'norm', 'norm_sq', 'x_rotation', 'y_rotation', 'z_rotation',
              'axis_rotation', 'sign', 'sign0', 'int', 'frac', 'as_int', 'as_float', 'round'):
        return tree(['un', 'ctor1', 'N', L[0]])
    if op == 'arctan2':                                    # Qube.or_(x._mask_, y._mask_)
        return tree(['bin', 'ctorOr', 'N', L[1], L[0]])
    if op == 'rotscalar':                                  # Matrix3.__mul__: returns the Scalar itself (KF-C01-1)
        return ['c01', 'm3mul', True, [K.opd_wire(o) for o in opds]]
    if op in ('matvec', 'matmul') and opds[0]['k'] == 'R' and not same:
        return ['c01', 'm3mul', False, [K.opd_wire(o) for o in opds]]
    if op in ('dot', 'cross', 'outer', 'element_mul', 'vmul', 'matvec', 'matmul', 'qmul', 'pole_rotation'):
        if same:
            return run('ctorOrSame', opds)
        return tree(['bin', 'ctorOr', 'N', L[0], L[1]])
    if op == 'svmul':                                      # arg._mul_by_scalar(self)
        return tree(['bin', 'ctorOr', 'N', L[1], L[0]])
    if op in ('vdiv', 'mdiv'):
        a, b = opds
        if isnum[1]:
            zero = float(K.values_of(b)) == 0
            return tree(['un', 'setTrue' if zero else 'cloneSet', 'N', L[0]])
        return tree(['bin', 'divScalar', fw(1, f[1], opds, out), L[0], L[1]])
    if op == 'element_div':
        return tree(['bin', 'elementDiv', fw(1, f[1], opds, out), L[0], L[1]])
    if op == 'inverse':
        if f is None:
            return None
        return tree(['un', 'matInverse', fw(0, f[1], opds, out), L[0]])
    if op == 'unit':                                       # self / self.norm()
        return tree(['bin', 'divScalar', fw(0, f[1], opds, out), L[0], ['un', 'ctor1', 'N', L[0]]])
    if op == 'qrecip':                                     # conj() / norm_sq()
        return tree(['bin', 'divScalar', fw(0, f[1], opds, out), ['un', 'ctor1', 'N', L[0]], ['un', 'ctor1', 'N', L[0]]])
    # ---- operations the source DEFINES as compositions: modelled as the same compositions (MExpr trees)
    def unit_tree(e, shape, zero):
        return ['bin', 'divScalar', K.fail_wire(shape, zero), e, ['un', 'ctor1', 'N', e]]
    if op in ('perp', 'proj'):
        a, b = opds                                        # arg.unit(); self - arg * self.dot(arg)  /  arg * self.dot(arg)
        vb = K.values_of(b).astype(float)
        U = unit_tree(L[1], b['shape'], np.all(vb == 0, axis=-1))
        P = ['bin', 'ctorOr', 'N', U, ['bin', 'ctorOr', 'N', L[0], U]]
        return tree(P if op == 'proj' else ['bin', 'ctorOr', 'N', L[0], P])
    if op == 'ucross':                                     # self.cross(arg).unit()
        va, vb = [np.broadcast_to(K.values_of(o).astype(float), tuple(out) + (3,)) for o in opds]
        Cx = ['bin', 'ctorOr', 'N', L[0], L[1]]
        return tree(unit_tree(Cx, out, np.all(np.cross(va, vb) == 0, axis=-1)))
    if op == 'with_norm':                                  # self * (Scalar(2.) / self.norm())
        a = opds[0]
        va = K.values_of(a).astype(float)
        two = ['leaf', [[], False]]
        Q = ['bin', 'divScalar', K.fail_wire(a['shape'], np.all(va == 0, axis=-1)), two, ['un', 'ctor1', 'N', L[0]]]
        return tree(['bin', 'ctorOr', 'N', L[0], Q])
    if op == 'qdiv':                                       # self * arg.reciprocal();  reciprocal = conj() / norm_sq()
        a, b = opds
        vb = K.values_of(b).astype(float)
        R = ['bin', 'divScalar', K.fail_wire(b['shape'], np.all(vb == 0, axis=-1)),
             ['un', 'ctor1', 'N', L[1]], ['un', 'ctor1', 'N', L[1]]]
        return tree(['bin', 'ctorOr', 'N', L[0], R])
    if op == 'matpow':                                     # Qube.__pow__: repeated multiplication
        a, e = opds
        if e['mask'] == 'T':
            return tree(['un', 'setTrue', 'N', L[0]])      # as_all_masked()
        n = int(K.values_of(e))
        if n == 0:
            return tree(['un', 'ctor1', 'N', L[0]])        # filled(..., mask=self._mask_)
        if n == 1:
            return tree(L[0])
        sq = ['bin', 'ctorOrSame' if (a['shape'] and not isinstance(a['mask'], str)) else 'ctorOr', 'N', L[0], L[0]]
        if n == 2:
            return tree(sq)
        return tree(['bin', 'ctorOr', 'N', sq, L[0]])      # result *= x  (in-place matrix product)
    if op == 'q_from_rotation':
        # Qube.broadcast(angle, vector); half = 0.5*angle; from_parts(half.cos(), (half.sin()/vector.norm()) * vector)
        def bleaf(o):
            m = K.mask_wire(o)
            if isinstance(m, bool) or list(o['shape']) == out or (m and m[0] == 'V'):
                return ['leaf', [out, m]]
            return ['leaf', [out, ['V', list(o['shape']), m]]]
        a, b = opds
        A, V = bleaf(a), bleaf(b)
        vb = np.broadcast_to(K.values_of(b).astype(float), tuple(out) + (3,))
        half = ['un', 'cloneSet', 'N', A]
        S = ['bin', 'divScalar', K.fail_wire(out, np.all(vb == 0, axis=-1)), ['un', 'ctor1', 'N', half],
             ['un', 'ctor1', 'N', V]]
        return tree(['bin', 'ctorOr', 'N', ['un', 'ctor1', 'N', half], ['bin', 'ctorOr', 'N', V, S]])
    if op in ('m3_from_euler', 'q_from_euler'):
        # Qube.broadcast first: every array mask becomes a broadcast view of the common shape; 'rzxz' swaps ai, ak
        def bview(o):
            m = K.mask_wire(o)
            if isinstance(m, bool) or list(o['shape']) == out:
                return [out, m]
            if m and m[0] == 'V':
                return [out, m]
            return [out, ['V', list(o['shape']), m]]
        a, b, c = opds
        return ['c01', 'run', 'ctorOr3', [bview(c), bview(b), bview(a)], 'N']
    return None


# ------------------------------------------------------------------ implementation / oracle
def obs_mask(r):
    if not isinstance(r, Qube):
        return 'not-a-qube:' + type(r).__name__
    return [list(r._shape_), [bool(x) for x in expanded_mask(r).ravel()]]


def impl(case):
    if case.get('tree'):
        import c01_trees as T
        return T.impl(case)
    r, e, w = K.run_real(case)
    if e is not None:
        return C.exc_name(e)
    return obs_mask(r)


def signature(case):
    ks = '+'.join(o['k'] for o in case['opds'])
    reps = '+'.join('T' if o.get('mask') == 'T' else 'F' if o.get('mask') == 'F' else
                    'view' if isinstance(o.get('mask'), dict) else 'arr' for o in case['opds'])
    shp = '+'.join('()' if not o['shape'] else 'arr' for o in case['opds'])
    return '%s:%s:%s:%s' % (case['op'], ks, reps, shp)


def oracle(case):
    if case.get('tree'):
        import c01_trees as T
        return T.oracle(case)
    exp = K.expected_mask(case)
    r, e, w = K.run_real(case)
    fast = case.get('params', {}).get('check') is False or case.get('params', {}).get('nozeros') is True
    if exp is None:
        return None                                        # incompatible shapes: rejection is C04/C19's business
    if e is not None:
        if fast and isinstance(e, ValueError):
            return None
        if OPS[case['op']].get('inplace') and isinstance(e, (TypeError, ValueError)):
            return None                                    # the in-place form is not accepted (int /= float, shape grows, ...)
        return (signature(case), '%s raised %s: %s' % (case['op'], type(e).__name__, e))
    if not isinstance(r, Qube):
        return (signature(case), '%s returned %s' % (case['op'], type(r).__name__))
    got = expanded_mask(r)
    if list(r._shape_) != exp[0]:
        return (signature(case), '%s: result shape %s, operands broadcast to %s' % (case['op'], list(r._shape_), exp[0]))
    if not np.array_equal(got, exp[1]):
        extra = got & ~exp[1]
        miss = exp[1] & ~got
        return (signature(case), '%s: result mask %s but union of operand masks and failure set is %s (%d missing, %d extra)'
                % (case['op'], got.astype(int).tolist(), exp[1].astype(int).tolist(), int(miss.sum()), int(extra.sum())))
    return None


# ------------------------------------------------------------------ generation
SHAPE_PAIRS = [([], []), ([], [3]), ([3], []), ([3], [3]), ([1], [3]), ([3], [1]), ([2, 1], [3]), ([2, 3], [3]),
               ([3], [2, 3]), ([2, 3], [2, 1]), ([2, 1], [1, 3]), ([0], []), ([], [0]), ([0], [1]), ([0], [0]),
               ([2, 0], [1]), ([2, 0], [2, 1]), ([1, 1], [2, 2]), ([2, 2, 2], [2, 1, 2]), ([2, 2], [2, 2]), ([1], [])]
SHAPES1 = [[], [1], [3], [0], [2, 3], [2, 0], [2, 1, 2], [4]]

TROUBLE = {   # v8 pools per role
    'any': [-16, -8, -4, 0, 4, 8, 12, 16, 24],
    'div': [0, 0, 8, -8, 16, 4, -16],
    'sqrt': [-8, -2, 0, 2, 8, 18, 32, 0, -16],
    'log': [-8, 0, 8, 16, 4, 0],
    'exp': [0, 8, -8, 6400, 16],
    'asin': [-16, -9, -8, 0, 4, 8, 9, 16],
    'base': [-16, -8, 0, 0, 2, 8, 16],
    'expo': [-16, -8, -4, 0, 4, 8, 12, 16, 24, 6],
    'angle': [0, 4, 8, -8, 12],
    'bool': [0, 8],
}
INT_POOL = [-16, -8, 0, 0, 8, 16, 24]


def rand_bits(rng, n):
    mode = rng.random()
    if mode < 0.2:
        return [False] * n
    if mode < 0.3:
        return [True] * n
    return [rng.random() < 0.4 for _ in range(n)]


def view_bits(rng, shape):
    """a pattern constant along axis 0 so that a broadcast view can represent it"""
    if len(shape) >= 1 and shape[0] > 1 and int(np.prod(shape, dtype=int)) > 0 and rng.random() < 0.35:
        row = rand_bits(rng, int(np.prod(shape[1:], dtype=int)))
        return row * shape[0]
    return None


def rand_opd(rng, kind, shape, role='any'):
    cls, item, dt = KINDS[kind]
    n = int(np.prod(shape, dtype=int))
    ni = int(np.prod(item, dtype=int))
    pool = TROUBLE['bool'] if dt == 'bool' else TROUBLE[role]
    if dt == 'int':
        pool = [p for p in pool if p % 8 == 0] or INT_POOL
    o = {'k': kind, 'shape': list(shape)}
    if cls in ('number', 'ndarray'):
        o['v8'] = [rng.choice(pool) for _ in range(n * ni)]
        return o
    if ni > 1:
        vals = []
        for _ in range(n):
            r = rng.random()
            if role == 'div' and r < 0.4:
                it = [rng.choice([0, 8, 16, -8]) for _ in range(ni)]       # zero components
            elif r < 0.2:
                it = [0] * ni                                               # zero vector / zero matrix
            elif r < 0.4 and kind in ('V3', 'V2', 'V4', 'P'):
                it = [0] * ni                                               # axis-aligned vector
                it[rng.randrange(ni)] = rng.choice([8, -8, 16, -24, 40])
            elif kind in ('M2', 'M3') and r < 0.5:
                nn = item[0]
                rows = [[rng.choice([-8, 0, 8, 16]) for _ in range(nn)] for _ in range(nn)]
                rows[-1] = list(rows[0])                                    # duplicate row: singular
                it = [x for row in rows for x in row]
            elif kind in ('M2', 'M3'):
                nn = item[0]
                it = [rng.choice([8, 16, -8, 4]) if i == j else (rng.choice([0, 8, -8]) if i < j else 0)
                      for i in range(nn) for j in range(nn)]              # triangular, non-singular
            else:
                it = [rng.choice([-16, -8, 0, 8, 16, 4]) for _ in range(ni)]
            vals += it
        o['v8'] = vals
    else:
        o['v8'] = [rng.choice(pool) for _ in range(n)]
    bits = view_bits(rng, shape) or rand_bits(rng, n)
    o['mask'] = rng.choice(mask_reps(bits, shape))
    return o


ADVERSARIAL = [0, 0, 8, -8, 8, -800, 8000000, -8000000]      # hidden: exactly 0, 1, -1, negative, huge


def adversarial_hidden(rng, o, p=0.6):
    """overwrite the values stored underneath the mask: exactly 0, negative, huge"""
    if 'mask' not in o:
        return o
    n = K.isz(o)
    bits = mask_bits(o['mask'], o['shape'])
    v = list(o['v8'])
    pool = [0, 0, 8] if KINDS[o['k']][2] == 'bool' else ADVERSARIAL
    for i, m in enumerate(bits):
        if m and rng.random() < p:
            x = rng.choice(pool)
            v[i * n:(i + 1) * n] = [x] * n
    return dict(o, v8=v)


PROV_MODES = ['rows', 'shift', 'rev', 'stride', 'shift2']


def prov_case(rng, op, kind, s, mode, nops=2):
    """operands that are distinct views of one parent object"""
    s = list(s)
    if mode == 'rows':
        par = rand_opd(rng, kind, [nops] + s, ROLE2.get(op, 'any'))
        sels = [['i', k] for k in range(nops)]
    elif mode == 'shift':                       # x[1:] op x[:-1]
        n = rng.choice([1, 2, 3])
        par = rand_opd(rng, kind, [n + 1] + s, ROLE2.get(op, 'any'))
        sels = [['s', 1, None, None], ['s', None, -1, None]]
    elif mode == 'shift2':                      # x[:-1] op x[1:]
        n = rng.choice([1, 2, 3])
        par = rand_opd(rng, kind, [n + 1] + s, ROLE2.get(op, 'any'))
        sels = [['s', None, -1, None], ['s', 1, None, None]]
    elif mode == 'rev':                         # x op x[::-1]
        par = rand_opd(rng, kind, [rng.choice([2, 3])] + s, ROLE2.get(op, 'any'))
        sels = [['s', None, None, None], ['s', None, None, -1]]
    else:                                       # x[::2] op x[1::2]
        n = rng.choice([1, 2])
        par = rand_opd(rng, kind, [2 * n] + s, ROLE2.get(op, 'any'))
        sels = [['s', None, None, 2], ['s', 1, None, 2]]
    if nops == 3 and mode != 'rows':
        return None
    if isinstance(par['mask'], dict):           # keep the parent's mask a real array (or a single bool)
        par['mask'] = mask_bits(par['mask'], par['shape'])
    opds = [K.child(par, sel) for sel in sels]
    return mk({'op': op, 'opds': opds, 'prov': {'par': par, 'sels': sels, 'mode': mode}})


def make_parallel(rng, a, b, p=0.5):
    """degenerate pair: elements of b become exact multiples (parallel / anti-parallel / equal) of the elements of a"""
    if a['k'] != b['k'] or a['shape'] != b['shape']:
        return b
    n = K.isz(a)
    v = list(b['v8'])
    for i in range(len(v) // n):
        if rng.random() < p:
            c = rng.choice([1, -1, 2, -2])
            v[i * n:(i + 1) * n] = [c * x for x in a['v8'][i * n:(i + 1) * n]]
    return dict(b, v8=v)


def lapack_agrees(o):
    """singular-matrix cases: keep only matrices where float det == 0 exactly iff the exact det is 0"""
    v = K.values_of(o)
    if v.size == 0:
        return True
    return bool(np.array_equal(np.linalg.det(v) == 0., K.singular(v)))


def mk(case):
    case['req'] = request(case)
    if OPS[case['op']].get('inplace') and case['req'] is not None:
        # C01 speaks about in-place forms "whenever they are accepted": a documented rejection (int target with a
        # float operand, Boolean target, operand that does not broadcast into the target ...) is C19's business
        r, e, w = K.run_real(case)
        if isinstance(e, (TypeError, ValueError)):
            case['req'] = None
    opds = K.logical_opds(case)
    nt = any(K.opd_mask_bits(o).any() for o in opds)
    f = K.fail_set(case) if K.lead_bcast([o['shape'] for o in opds]) is not None else None
    if f is not None and f[1].any():
        nt = True
    if len({tuple(o['shape']) for o in opds}) > 1:
        nt = True
    case['nontrivial'] = bool(nt)
    case['kind'] = case['op'] + ':' + '+'.join(o['k'] for o in case['opds'])
    return case


ROLE2 = {'div': 'div', 'floordiv': 'div', 'mod': 'div', 'pow': 'expo', 'vdiv': 'div', 'mdiv': 'div',
         'element_div': 'div'}
ROLE1 = {'sqrt': 'sqrt', 'log': 'log', 'exp': 'exp', 'arcsin': 'asin', 'arccos': 'asin', 'reciprocal': 'div',
         'sin': 'angle', 'cos': 'angle', 'tan': 'angle', 'arctan': 'any', 'x_rotation': 'angle', 'y_rotation': 'angle',
         'z_rotation': 'angle', 'axis_rotation': 'angle', 'pow': 'base'}

BIN_SCALAR = ['add', 'sub', 'mul', 'div', 'floordiv', 'mod', 'pow']
LEFT = ['S', 'S', 'Si', 'B', 'N', 'Ni', 'A']
RIGHT = ['S', 'S', 'Si', 'B', 'N', 'Ni', 'A']
UN_SCALAR = ['neg', 'abs', 'pos', 'sqrt', 'log', 'exp', 'arcsin', 'arccos', 'sin', 'cos', 'tan', 'arctan', 'reciprocal']
VEC_BIN = [('dot', 'V3', 'V3'), ('dot', 'V2', 'V2'), ('dot', 'P', 'P'), ('cross', 'V3', 'V3'), ('cross', 'V2', 'V2'),
           ('outer', 'V3', 'V2'), ('outer', 'V3', 'V3'), ('element_mul', 'V3', 'V3'), ('element_mul', 'P', 'P'),
           ('element_div', 'V3', 'V3'), ('element_div', 'V2', 'V2'), ('element_div', 'P', 'P'),
           ('vdiv', 'V3', 'S'), ('vdiv', 'V2', 'N'), ('vdiv', 'P', 'Si'), ('vdiv', 'Q', 'S'), ('vdiv', 'V3', 'B'),
           ('vmul', 'V3', 'S'), ('vmul', 'V4', 'B'), ('svmul', 'S', 'V3'), ('svmul', 'B', 'V2'),
           ('mdiv', 'M2', 'S'), ('matvec', 'M3', 'V3'), ('matvec', 'M2', 'V2'), ('matvec', 'R', 'V3'),
           ('matmul', 'M2', 'M2'), ('matmul', 'M3', 'M3'), ('matmul', 'R', 'R'), ('qmul', 'Q', 'Q'),
           ('perp', 'V3', 'V3'), ('proj', 'V3', 'V3'), ('ucross', 'V3', 'V3'), ('qdiv', 'Q', 'Q'),
           ('q_from_rotation', 'S', 'V3'), ('rotscalar', 'R', 'S')]
VEC_UN = [('norm', 'V3'), ('norm', 'V2'), ('norm_sq', 'V3'), ('norm_sq', 'Q'), ('unit', 'V3'), ('unit', 'V2'),
          ('unit', 'P'), ('inverse', 'M2'), ('inverse', 'M3'), ('qrecip', 'Q'), ('with_norm', 'V3')]
ANGLES = ['S', 'S', 'Si', 'B', 'N']


def scalar_bin_ok(op, ka, kb):
    qa, qb = ka in SCALARS, kb in SCALARS
    if not (qa or qb):
        return False
    if op == 'pow':
        return qa and kb in ('S', 'Si', 'N', 'Ni') and ka != 'A'
    return True


def gen_cases(rng, tier):
    thorough = tier == 'thorough'
    reps = 40 if thorough else 8
    cases = []
    # 1. scalar binary operators: every operand-kind pair x shape pairs x drawn representations
    for _ in range(reps):
        for op in BIN_SCALAR:
            for ka in dict.fromkeys(LEFT):
                for kb in dict.fromkeys(RIGHT):
                    if not scalar_bin_ok(op, ka, kb):
                        continue
                    for sa, sb in SHAPE_PAIRS:
                        if KINDS[ka][0] == 'number' and sa:
                            continue
                        if KINDS[kb][0] == 'number' and sb:
                            continue
                        if not thorough and rng.random() < 0.55:
                            continue
                        a = rand_opd(rng, ka, sa, ROLE1.get(op, 'any') if op == 'pow' else 'any')
                        b = rand_opd(rng, kb, sb, ROLE2.get(op, 'any'))
                        if rng.random() < 0.3 and op != 'pow':
                            a, b = adversarial_hidden(rng, a), adversarial_hidden(rng, b)
                        if op == 'pow' and sb and KINDS[a['k']][2] == 'int' and KINDS[b['k']][2] == 'float' and False:
                            continue
                        cases.append(mk({'op': op, 'opds': [a, b]}))
    # aliasing: the same object / the same mask array on both sides
    for _ in range(reps * 3):
        for op in ('add', 'sub', 'mul', 'div'):
            for s in ([3], [2, 3], [0], [1]):
                a = rand_opd(rng, 'S', s, 'div')
                if isinstance(a['mask'], str):
                    continue
                cases.append(mk({'op': op, 'opds': [a, dict(a)], 'alias': True}))
                b = rand_opd(rng, 'S', s, 'div')
                b['mask'] = a['mask']
                cases.append(mk({'op': op, 'opds': [a, b], 'share': True}))
    # 1a. in-place operators: the operand must broadcast INTO the target; the target's new mask = the direct form's mask
    INTO = [(sa, sb) for sa, sb in SHAPE_PAIRS if K.lead_bcast([sa, sb]) == list(sa)]
    IP_SCALAR = ['iadd', 'isub', 'imul', 'idiv', 'ifloordiv', 'imod', 'ipow']
    IP_OTHER = [('ivadd', 'V3', 'V3'), ('ivsub', 'M2', 'M2'), ('ivadd', 'Q', 'Q'), ('ivmul', 'V3', 'S'), ('ivmul', 'M2', 'Si'),
                ('ivmul', 'Q', 'B'), ('ivmul', 'V2', 'N'), ('ivmul', 'P', 'A'), ('ivdiv', 'V3', 'S'), ('ivdiv', 'M2', 'S'),
                ('ivdiv', 'Q', 'N'), ('ivdiv', 'V2', 'Ni'), ('ivdiv', 'V3', 'B'), ('ivmod', 'V3', 'S'), ('ivmod', 'P', 'Si'),
                ('ivmod', 'V2', 'N'), ('ivfloordiv', 'V3', 'S'), ('ivfloordiv', 'P', 'A'),
                ('imatmul', 'M2', 'M2'), ('imatmul', 'M3', 'M3'), ('imatmul', 'R', 'R'), ('imatmul', 'M3', 'R'),
                ('imatdiv', 'M2', 'M2'), ('imatdiv', 'M3', 'M3'), ('imatdiv3', 'R', 'R')]
    for _ in range(reps):
        for op in IP_SCALAR:
            for ka in ('S', 'Si'):
                for kb in ('S', 'Si', 'B', 'N', 'Ni', 'A'):
                    if op == 'ipow' and kb in ('B', 'A'):
                        continue
                    for sa, sb in INTO:
                        if KINDS[kb][0] == 'number' and sb:
                            continue
                        if not thorough and rng.random() < 0.5:
                            continue
                        base = OPS[op]['inplace']
                        a = rand_opd(rng, ka, sa, 'base' if base == 'pow' else 'any')
                        b = rand_opd(rng, kb, sb, ROLE2.get(base, 'any'))
                        cases.append(mk({'op': op, 'opds': [a, b]}))
        for op, ka, kb in IP_OTHER:
            for sa, sb in INTO:
                if KINDS[kb][0] == 'number' and sb:
                    continue
                a = rand_opd(rng, ka, sa)
                b = rand_opd(rng, kb, sb, ROLE2.get(OPS[op]['inplace'], 'any'))
                if op == 'imatdiv' and kb != 'R' and not lapack_agrees(b):
                    continue
                cases.append(mk({'op': op, 'opds': [a, b]}))
        # the same object / the same mask array on both sides, and views of one parent
        for op in ('iadd', 'isub', 'imul', 'idiv'):
            for s in ([3], [2, 3], [1]):
                a = rand_opd(rng, 'S', s, 'div')
                if not isinstance(a['mask'], str):
                    cases.append(mk({'op': op, 'opds': [a, dict(a)], 'alias': True}))
                for mode in ('rows', 'shift', 'rev'):
                    c = prov_case(rng, op, 'S', s, mode)
                    if c is not None:
                        cases.append(c)
        for mode in ('rows', 'shift', 'stride'):
            for op, kind in (('imatmul', 'M2'), ('imatmul', 'R'), ('ivadd', 'V3')):
                c = prov_case(rng, op, kind, [2], mode)
                if c is not None:
                    cases.append(c)
    # 1b. operand provenance: distinct views of one parent (mask arrays share a base, offsets differ)
    PROV = [('add', 'S'), ('sub', 'S'), ('mul', 'S'), ('div', 'S'), ('floordiv', 'Si'), ('mod', 'S'), ('pow', 'S'),
            ('arctan2', 'S'), ('sub', 'B'), ('mul', 'Si'), ('dot', 'V3'), ('cross', 'V3'), ('cross', 'V2'),
            ('outer', 'V3'), ('element_mul', 'V3'), ('element_div', 'V3'), ('matmul', 'M2'), ('matmul', 'R'),
            ('qmul', 'Q'), ('qdiv', 'Q'), ('pole_rotation', 'S'), ('add', 'V3'), ('sub', 'M2'), ('perp', 'V3'),
            ('proj', 'V3'), ('ucross', 'V3'), ('dot', 'P')]
    for _ in range(reps):
        for op, kind in PROV:
            for s in ([], [3], [2, 2], [1]):
                for mode in PROV_MODES:
                    if not thorough and rng.random() < 0.4:
                        continue
                    c = prov_case(rng, op, kind, s, mode)
                    if c is not None:
                        cases.append(c)
        for op in ('m3_from_euler', 'q_from_euler'):
            for s in ([], [3], [2, 2]):
                cases.append(prov_case(rng, op, 'S', s, 'rows', nops=3))
    # 2. unary scalar functions
    for _ in range(reps * 2):
        for op in ('sign', 'sign0', 'int', 'frac', 'as_int', 'as_float', 'absm', 'round'):
            for k in ('S', 'Si'):
                for s in SHAPES1:
                    a = adversarial_hidden(rng, rand_opd(rng, k, s, 'sqrt'))
                    cases.append(mk({'op': op, 'opds': [a]}))
    for _ in range(reps * 2):
        for op in UN_SCALAR:
            for k in ('S', 'Si', 'B'):
                if k == 'B' and op not in ('neg', 'abs', 'pos'):
                    continue
                for s in SHAPES1:
                    a = rand_opd(rng, k, s, ROLE1.get(op, 'any'))
                    if rng.random() < 0.5 and op != 'exp':
                        a = adversarial_hidden(rng, a)
                    cases.append(mk({'op': op, 'opds': [a]}))
    for _ in range(reps):
        for sa, sb in SHAPE_PAIRS:
            for ka, kb in (('S', 'S'), ('Si', 'S'), ('S', 'N'), ('B', 'S')):
                if KINDS[kb][0] == 'number' and sb:
                    continue
                cases.append(mk({'op': 'arctan2', 'opds': [rand_opd(rng, ka, sa), rand_opd(rng, kb, sb)]}))
    # 3. vector / matrix / quaternion products
    for _ in range(reps):
        for op, ka, kb in VEC_BIN:
            for sa, sb in SHAPE_PAIRS:
                if KINDS[kb][0] == 'number' and sb:
                    continue
                if not thorough and rng.random() < 0.5:
                    continue
                a = rand_opd(rng, ka, sa, 'angle' if op == 'q_from_rotation' else 'any')
                b = rand_opd(rng, kb, sb, ROLE2.get(op, 'any'))
                cases.append(mk({'op': op, 'opds': [a, b]}))
        for op, ka in VEC_UN:
            for s in SHAPES1:
                a = rand_opd(rng, ka, s)
                if op == 'inverse' and not lapack_agrees(a):
                    continue
                cases.append(mk({'op': op, 'opds': [a]}))
        for s in ([3], [2, 3]):
            a = rand_opd(rng, 'V3', s)
            if not isinstance(a['mask'], str):
                cases.append(mk({'op': 'dot', 'opds': [a, dict(a)], 'alias': True}))
                cases.append(mk({'op': 'cross', 'opds': [a, dict(a, v8=rand_opd(rng, 'V3', s)['v8'])], 'share': True}))
    # 3b. peripheral-class operations with DEGENERATE operands (axis-aligned, zero, mutually parallel vectors; order-0
    #     polynomials): oracle "masked iff an operand is masked or the operation is invalid there"
    PER_UN = [('cpm', 'V3'), ('swapxy', 'P'), ('rot90', 'P'), ('pangle', 'P'), ('longitude', 'V3'), ('latitude', 'V3'),
              ('conj', 'Q'), ('poly_neg', 'PL2'), ('poly_neg', 'PL0'), ('poly_deriv', 'PL1'), ('poly_deriv', 'PL3'),
              ('poly_deriv', 'PL2')]
    PER_BIN = [('sep', 'V3', 'V3'), ('sep', 'V2', 'V2'), ('vector_scale', 'V3', 'V3'), ('vector_unscale', 'V3', 'V3'),
               ('rotate', 'R', 'V3'), ('unrotate', 'R', 'V3'), ('q_from_parts', 'S', 'V3'),
               ('poly_eval', 'PL0', 'S'), ('poly_eval', 'PL1', 'S'), ('poly_eval', 'PL2', 'S'), ('poly_eval', 'PL3', 'S'),
               ('poly_eval', 'PL0', 'N'), ('poly_eval', 'PL2', 'Si'),
               ('poly_add', 'PL0', 'PL2'), ('poly_add', 'PL3', 'PL1'), ('poly_sub', 'PL1', 'PL1'), ('poly_mul', 'PL1', 'PL2'),
               ('poly_mul', 'PL0', 'PL3'), ('poly_mul', 'PL2', 'PL0'),
               ('perp', 'V3', 'V3'), ('proj', 'V3', 'V3'), ('ucross', 'V3', 'V3'), ('cross', 'V3', 'V3'), ('dot', 'V3', 'V3')]
    for _ in range(reps):
        for op, ka in PER_UN:
            for s in SHAPES1:
                cases.append(mk({'op': op, 'opds': [rand_opd(rng, ka, s)]}))
        for op, ka, kb in PER_BIN:
            for sa, sb in SHAPE_PAIRS:
                if KINDS[kb][0] == 'number' and sb:
                    continue
                if not thorough and rng.random() < 0.5:
                    continue
                a = rand_opd(rng, ka, sa)
                b = make_parallel(rng, a, rand_opd(rng, kb, sb))
                cases.append(mk({'op': op, 'opds': [a, b]}))
        # scale-like second operands: (masked) shape-() and array Scalars / numbers whose stored value is EXACTLY 0, 1, -1, 2
        for ka in ('V3', 'V2', 'P'):
            for kb in ('S', 'Si', 'N', 'Ni'):
                for sa, sb in SHAPE_PAIRS:
                    if KINDS[kb][0] == 'number' and sb:
                        continue
                    a, b = rand_opd(rng, ka, sa), rand_opd(rng, kb, sb)
                    b['v8'] = [rng.choice([0, 8, 8, -8, 16]) for _ in b['v8']]
                    if not sb and 'mask' in b and rng.random() < 0.5:
                        b['mask'] = 'T'
                    for op in ('with_norm2', 'vmul', 'vdiv'):
                        cases.append(mk({'op': op, 'opds': [a, dict(b)]}))
        # Vector3.spin(pole, angle): vectors along / against the pole, zero vectors, axis poles; the angles are non-zero
        for sa, sb in SHAPE_PAIRS:
            out = K.lead_bcast([sa, sb])
            for sc in ([], out):
                a = rand_opd(rng, 'V3', sa)
                b = make_parallel(rng, a, rand_opd(rng, 'V3', sb), 0.6)
                kc = rng.choice(['S', 'S', 'N']) if not sc else 'S'
                c = rand_opd(rng, kc, sc, 'angle')
                c['v8'] = [x if x != 0 else 12 for x in c['v8']]
                cases.append(mk({'op': 'spin', 'opds': [a, b, c]}))
        for sa, sb in SHAPE_PAIRS[:12]:
            out = K.lead_bcast([sa, sb])
            for op in ('from_ra_dec_length', 'from_cylindrical', 'v3_from_scalars'):
                ks = [rng.choice(['S', 'S', 'Si']) for _ in range(3)]
                cases.append(mk({'op': op, 'opds': [rand_opd(rng, ks[0], sa, 'angle'), rand_opd(rng, ks[1], sb, 'angle'),
                                                    rand_opd(rng, ks[2], rng.choice([[], out]), 'angle')]}))
            cases.append(mk({'op': 'eval_quadratic', 'opds': [rand_opd(rng, 'S', sa), rand_opd(rng, 'S', sb),
                                                              rand_opd(rng, 'S', []), rand_opd(rng, 'S', out)]}))
    # Matrix / Quaternion to a (possibly masked) shape-() integer power
    for _ in range(reps):
        for ka in ('M2', 'Q'):
            for s in ([], [3], [2, 1]):
                for ev in ((0, 1, 2, 3) if ka == 'M2' else (0, 1, 2)):     # Quaternion**3 raises TypeError (in-place *=): C19's business
                    for em in ('F', 'T'):
                        a = rand_opd(rng, ka, s)
                        if ka == 'M2':
                            a['v8'] = [x for _ in range(int(np.prod(s, dtype=int))) for x in (8, 8, 0, 8)]
                        e = {'k': 'Si', 'shape': [], 'v8': [8 * ev], 'mask': em}
                        cases.append(mk({'op': 'matpow', 'opds': [a, e]}))
    # 4. rotation constructors with (masked) angle operands
    for _ in range(reps * 2):
        for op in ('x_rotation', 'y_rotation', 'z_rotation', 'axis_rotation'):
            for k in ANGLES:
                for s in SHAPES1:
                    if KINDS[k][0] == 'number' and s:
                        continue
                    cases.append(mk({'op': op, 'opds': [rand_opd(rng, k, s, 'angle')]}))
        for sa, sb in SHAPE_PAIRS:
            for ka, kb in (('S', 'S'), ('S', 'N'), ('N', 'S'), ('B', 'Si')):
                if (KINDS[ka][0] == 'number' and sa) or (KINDS[kb][0] == 'number' and sb):
                    continue
                cases.append(mk({'op': 'pole_rotation', 'opds': [rand_opd(rng, ka, sa, 'angle'), rand_opd(rng, kb, sb, 'angle')]}))
        for (sa, sb), sc in zip(SHAPE_PAIRS, SHAPES1 * 3):
            out = K.lead_bcast([sa, sb])
            if out is None or K.lead_bcast([out, sc]) is None:
                sc = []
            for op in ('m3_from_euler', 'q_from_euler'):
                ks = [rng.choice(['S', 'S', 'Si']) for _ in range(3)]
                cases.append(mk({'op': op, 'opds': [rand_opd(rng, ks[0], sa, 'angle'), rand_opd(rng, ks[1], sb, 'angle'),
                                                    rand_opd(rng, ks[2], sc, 'angle')]}))
    # 5. fast paths (check=False / nozeros=True): mask passes through when nothing raises
    for _ in range(reps):
        for op, par in (('sqrt', {'check': False}), ('log', {'check': False}), ('arcsin', {'check': False}),
                        ('arccos', {'check': False}), ('reciprocal', {'nozeros': True}), ('exp', {'check': False})):
            for s in SHAPES1:
                a = rand_opd(rng, 'S', s, 'angle')
                a['v8'] = [abs(x) % 8 + 1 for x in a['v8']]          # inside every domain
                cases.append(mk({'op': op, 'opds': [a], 'params': par}))
    # 6. expression trees over the real operators (depth 2-4)
    import c01_trees as T
    for _ in range(reps * (60 if thorough else 40)):
        cases.append(T.gen_tree_case(rng))
    return cases


def neighbours(case):
    """simplify: unmask operands one at a time, shrink to scalar masks"""
    if case.get('tree'):
        return
    for k, o in enumerate(case['opds']):
        if 'mask' in o and o['mask'] not in ('F',):
            c = dict(case, opds=[dict(x) for x in case['opds']])
            c['opds'][k]['mask'] = 'F'
            yield mk(c)
            c = dict(case, opds=[dict(x) for x in case['opds']])
            c['opds'][k]['mask'] = 'T'
            yield mk(c)
