"""Development tool: run every confirmed seeded mutant (seeded/<id>/) against the check of the property it breaks
(plus the extra checks named in EXTRA) and record which checks report it in seeded/RESULTS.json.
    python3 harness/seedall.py [--worktree=/tmp/wt/main-test] [ids…]
Without --worktree the patch is applied to /repo itself and undone straight afterwards (the confirmation mode)."""
import json, os, subprocess, sys, time
VERIF = os.path.dirname(os.path.dirname(os.path.abspath(__file__)))
EXTRA = {'C12-b': ['C18'], 'C03-a': ['C10'], 'C03-b': ['C18'], 'C06-a': ['C18'], 'C08-a': ['C18'], 'C08-b': ['C05'],
         'C05-a': ['C08'], 'C17-b': ['C18'], 'C14-b': ['C07'], 'C19-a': ['C10'], 'C07-b': ['C12'], 'C20-b': ['C01'], 'C04x-a': ['C18', 'C06'], 'C04x-b': ['C16'], 'C01x-a': ['C19'], 'C07x-b': ['C12'], 'C08x-b': ['C11', 'C05'],
         'C05x-a': ['C20'], 'C12x-b': ['C04'], 'C18x-a': ['C06'], 'C18x-b': ['C19', 'C10'], 'C19x-b': ['C08'], 'C03x-b': ['C14'], 'C14x-a': ['C03'],
         'C15x-b': ['C04'], 'C20x-a': ['C01'], 'C13x-b': ['C06'],
         'C12y-b': ['C15'], 'C15y-b': ['C01'], 'C20y-b': ['C18'], 'C07y-b': ['C01'], 'C10y-a': ['C01'], 'C17y-a': ['C14'], 'C17y-b': ['C07', 'C14'],
         'C14y-a': ['C03'], 'C14y-b': ['C04'], 'C13y-b': ['C03'], 'C16y-b': ['C01', 'C19'], 'C18y-b': ['C06'], 'C06y-a': ['C15'], 'C08y-b': ['C05'], 'C01y-b': ['C20'],
         'C01z-a': ['C20'], 'C14z-b': ['C20', 'C01'], 'C14z-a': ['C18'], 'C15z-a': ['C06'], 'C03z-b': ['C11'], 'C02z-a': ['C16'], 'C05z-a': ['C10'], 'C07z-b': ['C08', 'C17'], 'C08z-a': ['C07'], 'C19z-a': ['C16'], 'C20z-b': ['C13'],
         'C03v-a': ['C18'], 'C17v-a': ['C18'], 'C05v-a': ['C08'], 'C10v-a': ['C07'], 'C19v-a': ['C10']}

def main():
    wt = [a for a in sys.argv[1:] if a.startswith('--worktree=')]
    ids = [a for a in sys.argv[1:] if not a.startswith('--')]
    root = os.path.join(VERIF, 'seeded')
    ids = ids or sorted(d for d in os.listdir(root) if os.path.isdir(os.path.join(root, d)))
    res_path = os.path.join(root, 'RESULTS.json')
    results = json.load(open(res_path)) if os.path.exists(res_path) else {}
    for sid in ids:
        meta = json.load(open(os.path.join(root, sid, 'meta.json')))
        if meta.get('obsolete'):
            results[sid] = {'obsolete': meta['obsolete']}
            print(sid, 'obsolete'); continue
        props = [meta['property']] + EXTRA.get(sid, [])
        repo = wt[0].split('=', 1)[1] if wt else '/repo'
        env = dict(os.environ, PMV_REPO=repo) if wt else dict(os.environ)
        if wt:
            subprocess.run(['git', '-C', repo, 'reset', '-q', '--hard', 'main'], check=True)
        st = subprocess.run(['git', '-C', repo, 'status', '--porcelain', '--untracked-files=no'], capture_output=True, text=True).stdout
        assert st == '', repo + ' is dirty'
        ap = subprocess.run(['git', '-C', repo, 'apply', os.path.join(root, sid, 'patch.diff')], capture_output=True, text=True)
        if ap.returncode != 0:
            results[sid] = {'error': 'patch does not apply to main: ' + ap.stderr[-300:]}
            print(sid, 'PATCH DOES NOT APPLY'); continue
        entry = {'base': subprocess.run(['git', '-C', '/repo', 'rev-parse', '--short', 'main'], capture_output=True, text=True).stdout.strip(),
                 'applied_to': repo, 'checks': {}}
        try:
            for p in props:
                t0 = time.time()
                r = subprocess.run([os.path.join(VERIF, 'check'), p, '--tier', 'quick'], cwd=VERIF, capture_output=True, text=True, env=env)
                viol = [l for l in r.stdout.splitlines() if l.startswith('VIOLATION')]
                concrete = [l for l in viol if 'no-failing-input-found' not in l]
                verdict = 'caught' if r.returncode == 1 and concrete else 'caught-no-input' if r.returncode == 1 and viol else 'missed' if r.returncode == 0 else 'infrastructure-error'
                entry['checks'][p] = {'verdict': verdict, 'violations': len(viol), 'wall_s': round(time.time() - t0, 1)}
                print(sid, p, verdict, len(viol), flush=True)
        finally:
            subprocess.run(['git', '-C', repo, 'checkout', '--', '.'], check=True)
        results[sid] = entry
        json.dump(results, open(res_path, 'w'), indent=1, sort_keys=True)

if __name__ == '__main__':
    main()
