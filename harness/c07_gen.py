"""C07 case generation: receivers, arguments chosen by parameter name, aliasing patterns, sequences."""
import inspect
import numpy as np
import c07_sweep as S
from c07_sweep import CLASSES, ITEMS

BROADCASTERS = {'broadcast_to', 'broadcast_into_shape', 'broadcast'}
SHAPES = [[], [], [1], [3], [3], [2, 3], [2, 3], [0], [2, 1], [1, 3]]
UNITS = ['KM', 'SECONDS', 'DEG', 'KM', 'UNITLESS', 'CM']
QNAMES = ['Scalar', 'Boolean', 'Vector', 'Vector3', 'Pair', 'Matrix', 'Matrix3', 'Quaternion', 'Polynomial']


def q(rng, cls, shape=None, numer=None, plain=False, **over):
    """a random Qube descriptor of class cls"""
    C = CLASSES[cls]
    d = {'k': 'q', 'cls': cls, 'shape': list(rng.choice(SHAPES) if shape is None else shape),
         'numer': list(rng.choice(ITEMS[cls]) if numer is None else numer), 'seed': rng.randrange(1 << 20)}
    if cls == 'Boolean':
        d['dtype'] = 'bool'
    elif C.INTS_OK and not plain and rng.random() < 0.15:
        d['dtype'] = 'int'
    else:
        d['dtype'] = 'float'
    if plain:
        d.update(over)
        return d
    r = rng.random()
    d['mask'] = 'F' if r < 0.45 else 'A' if r < 0.8 else 'T' if r < 0.88 else 'V' if r < 0.95 else 'Z'
    if C.UNITS_OK and rng.random() < 0.2:
        d['units'] = rng.choice(UNITS)
    if C.DERIVS_OK and d['dtype'] == 'float' and rng.random() < 0.3:
        dd = {'k': 'q', 'cls': cls, 'shape': d['shape'], 'numer': d['numer'], 'seed': rng.randrange(1 << 20),
              'dtype': 'float', 'mask': rng.choice(['F', 'A'])}
        if rng.random() < 0.3 and cls in ('Scalar', 'Vector', 'Vector3', 'Pair'):
            dd['denom'] = [rng.choice([2, 3])]
        d['derivs'] = {'t': dd}
        if rng.random() < 0.3:
            d['derivs']['u'] = dict(dd, seed=rng.randrange(1 << 20))
    if d['shape'] == [] and d['numer'] == [] and rng.random() < 0.5:
        d['pyscalar'] = True
    if rng.random() < 0.12:
        d['ro'] = True
    if cls == 'Matrix3' and rng.random() < 0.7:
        d['style'] = 'rot'
    if cls == 'Matrix' and len(d['numer']) == 2 and d['numer'][0] == d['numer'][1] and rng.random() < 0.4:
        d['singular'] = True
    if cls == 'Scalar' and rng.random() < 0.2 and d['dtype'] == 'float':
        d['style'] = 'unit'
    d.update(over)
    return d


def py(v):
    return {'k': 'py', 'v': v}


def tup(*xs):
    return {'k': 'tuple', 'v': [x if isinstance(x, dict) else py(x) for x in xs]}


def const_of(rng, cls=None):
    paths = [p for p, o in S.CONSTS.items() if isinstance(o, S.Qube) and (cls is None or p.startswith(cls + '.'))]
    if not paths:
        paths = [p for p, o in S.CONSTS.items() if isinstance(o, S.Qube)]
    return {'k': 'const', 'path': rng.choice(sorted(paths))}


def bcast_shapes(shape):
    """shapes broadcast-compatible with `shape`"""
    out = [list(shape), []]
    if shape:
        out.append([1] * len(shape))
        out.append(list(shape[1:]))
        out.append([2] + list(shape))
        if len(shape) == 2:
            out.append([shape[0], 1])
    return out


def qarg(rng, ctx, prefer=None):
    """a Qube-like argument for parameters such as arg/other/x: compatible with the receiver most of the time,
    and aliased to it (same object / clone / view / bare array / constant) some of the time"""
    recv = ctx.get('recv')
    r = rng.random()
    cls = prefer or (recv['cls'] if recv else rng.choice(QNAMES))
    if cls in ('Units', 'Qube'):
        cls = 'Scalar'
    shape = recv['shape'] if recv else rng.choice(SHAPES)
    if recv is not None and ctx.get('has_recv') and r < 0.14:
        return {'k': 'ref', 'i': 0}
    if recv is not None and ctx.get('has_recv') and r < 0.19:
        return {'k': rng.choice(['clone', 'view', 'wod', 'vals']), 'i': 0}
    if r < 0.27:
        return const_of(rng, rng.choice([cls, 'Scalar', None]))
    if r < 0.52:
        return q(rng, cls, shape=rng.choice(bcast_shapes(shape)), numer=recv['numer'] if recv and cls == recv['cls'] else None)
    if r < 0.68:
        return q(rng, 'Scalar', shape=rng.choice(bcast_shapes(shape)))
    if r < 0.80:
        return py(rng.choice([0, 1, 2, -1, 0.5, 2.0, 3, 1.25, True]))
    if r < 0.85:
        return {'k': 'nd', 'shape': list(shape) + (recv['numer'] if recv else []), 'seed': rng.randrange(1000)}
    if r < 0.95:
        return q(rng, rng.choice(QNAMES))
    return py(rng.choice([None, 'x', [1.0, 2.0, 3.0]]))


BOOL_PARAMS = {'recursive', 'builtins', 'remask', 'check', 'nozeros', 'inclusive', 'override', 'readonly', 'purge',
               'clip', 'mask_endpoints', 'zeros', 'include_antimask', 'partials', 'coerce', 'retain_cache'}
QPARAMS = {'arg', 'arg1', 'arg2', 'other', 'a', 'b', 'c', 'x', 'y', 'z', 'limit', 'lower', 'upper', 'low', 'high',
           'match', 'replace', 'value', 'factor', 'vector', 'vector1', 'vector2', 'pole', 'scalar', 'matrix', 'norm',
           'length', 'radius', 'longitude', 'angle', 'ra', 'dec', 'ai', 'aj', 'ak', 'expo', 'fill', 'constant',
           'deriv', 'top', 'shift', 'masked', 'delta'}
PREFER = {'vector': 'Vector3', 'vector1': 'Vector3', 'vector2': 'Vector3', 'pole': 'Vector3', 'scalar': 'Scalar',
          'matrix': 'Matrix3', 'angle': 'Scalar', 'ra': 'Scalar', 'dec': 'Scalar', 'ai': 'Scalar', 'aj': 'Scalar',
          'ak': 'Scalar', 'radius': 'Scalar', 'longitude': 'Scalar', 'length': 'Scalar', 'norm': 'Scalar',
          'expo': 'Scalar', 'x': 'Scalar', 'y': 'Scalar', 'z': 'Scalar', 'a': 'Scalar', 'b': 'Scalar', 'c': 'Scalar',
          'factor': None, 'limit': 'Scalar', 'lower': 'Scalar', 'upper': 'Scalar', 'low': 'Scalar', 'high': 'Scalar'}


def arg_for(p, rng, ctx):
    """descriptor for parameter p (inspect.Parameter) or the marker OMIT"""
    name = p.name
    has_default = p.default is not inspect.Parameter.empty
    recv = ctx.get('recv')
    shape = recv['shape'] if recv else [3]
    if name in ('_protected', 'out', 'op', 'opstr', 'example', 'default', 'subtype'):
        return OMIT
    if has_default and rng.random() < (0.75 if name in BOOL_PARAMS else 0.5):
        return OMIT
    if ctx['cls'] == 'Units':
        return units_arg(name, rng)
    if name in BOOL_PARAMS:
        return py(rng.random() < 0.5)
    if name in ('axis',):
        rank = len(shape)
        return rng.choice([py(None), py(0), py(-1), py(1), tup(0, 1), py(rank - 1 if rank else 0), tup(0)])
    if name in ('axis1', 'axis2', 'source', 'destination', 'start', 'index1', 'index2', 'indx0', 'indx1', 'row',
                'column', 'order', 'nrank', 'drank', 'rank', 'digits'):
        return py(rng.choice([0, 0, 1, -1, 2, 1]))
    if name == 'shape':
        return tup(*rng.choice(bcast_shapes(shape) + [[2] + list(shape), [2, 3], [3], [4] + list(shape)]))
    if name == 'classes':
        return {'k': 'classes', 'v': rng.choice([['Scalar'], ['Vector3', 'Vector'], ['Vector'], ['Pair', 'Vector'],
                                                 ['Matrix'], [recv['cls']] if recv else ['Scalar']])}
    if name in ('mask', 'antimask'):
        r = rng.random()
        if r < 0.2:
            return py(rng.random() < 0.5)
        if r < 0.3 and ctx.get('has_recv'):
            return {'k': 'maskof', 'i': 0}
        if r < 0.75:
            return {'k': 'nd', 'shape': list(shape), 'dtype': 'bool', 'seed': rng.randrange(1000)}
        return q(rng, 'Boolean', shape=shape)
    if name == 'dtype':
        return py(rng.choice(['float', 'int', 'bool', None]))
    if name in ('indx', 'index', 'i'):
        return index_arg(rng, shape)
    if name == 'key':
        return py(rng.choice(['t', 't', 'u', 'n']))
    if name == 'new_key':
        return py(rng.choice(['n', 'u']))
    if name == 'method':
        return py(rng.choice(['insert', 'replace', 'add']))
    if name == 'preserve':
        return rng.choice([py(None), py('t'), {'k': 'list', 'v': [py('t')]}, {'k': 'list', 'v': []}])
    if name == 'axes':
        return py(rng.choice(['rzxz', 'sxyz', 'rzyx']))
    if name in ('numer', 'denom'):
        return tup(*rng.choice([[], [2], [3], [2, 2]]))
    if name == 'units':
        return rng.choice([py(None), {'k': 'units', 'name': rng.choice(UNITS)}])
    if name == 'derivs':
        return {'k': 'dict', 'v': {}}
    if name == 'state':
        return OMIT
    if name in QPARAMS or not has_default:
        return qarg(rng, ctx, PREFER.get(name) if rng.random() < 0.85 else None)
    return OMIT


def index_arg(rng, shape):
    r = rng.random()
    if r < 0.15:
        return py(0)
    if r < 0.3:
        return {'k': 'slice', 'v': [None, None, None]}
    if r < 0.4:
        return {'k': 'ellipsis'}
    if r < 0.5:
        return {'k': 'slice', 'v': [0, 1, None]}
    if r < 0.6:
        return {'k': 'slice', 'v': [None, None, -1]}
    if r < 0.7:
        return tup({'k': 'ellipsis'}, 0)
    if r < 0.8:
        return {'k': 'nd', 'shape': [2], 'dtype': 'int', 'seed': 3}          # fancy (values in -3..3)
    if r < 0.9:
        return {'k': 'nd', 'shape': list(shape), 'dtype': 'bool', 'seed': rng.randrange(100)}
    return q(rng, 'Scalar', shape=[2], dtype='int', plain=True)


def units_arg(name, rng):
    r = rng.random()
    if name in ('name', 'name1', 'name2'):
        return rng.choice([py(None), py('km'), py('s'), {'k': 'dict', 'v': {'km': py(1), 's': py(-1)}}])
    if name == 'namedict':
        return {'k': 'dict', 'v': {'km': py(1), 's': py(-1)}}
    if name in ('power',):
        return py(rng.choice([2, -1, 0.5, 0, 1, 3]))
    if name == 'exponents':
        return tup(rng.choice([0, 1]), rng.choice([0, -1]), 0)
    if name == 'triple':
        return tup(rng.choice([1, 1000]), rng.choice([1, 60]), 0)
    if name in ('value', 'values'):
        return rng.choice([py(2.0), {'k': 'nd', 'shape': [3], 'seed': 4}])
    if name == 'info':
        return OMIT
    if r < 0.3:
        return py(None)
    if r < 0.85:
        return {'k': 'units', 'name': rng.choice(UNITS + ['RAD', 'MRAD', 'M', 'HOUR'])}
    if r < 0.93:
        return py(rng.choice([2, 0.5, 'km', 'deg']))
    return {'k': 'newunits', 'expo': [1, -1, 0], 'triple': [1, 1, 0], 'name': None}


OMIT = {'k': 'omit'}


def one_call(rng, cname, name, how, owner):
    cls = CLASSES[cname]
    ctx = {'cls': cname}
    ops = [None]
    if how in ('method', 'prop'):
        if cname == 'Units':
            recv = {'k': 'units', 'name': rng.choice(UNITS + ['RAD', 'M', 'HOUR', 'ARCSEC'])}
            ctx['recv'] = None
        elif cname == 'Qube':
            return None
        else:
            recv = q(rng, cname)
            ctx['recv'] = recv
        ctx['has_recv'] = True
        ops = [recv]
    elif cname not in ('Units', 'Qube'):
        # static/class members: arguments compatible with a virtual receiver of the class
        ctx['recv'] = q(rng, cname, plain=True)
    kw = {}
    if how != 'prop':
        ps = S.signature_of(cname, name)
        positional_ok = True
        for p in ps:
            if p.kind == p.VAR_POSITIONAL:
                for _ in range(rng.choice([0, 1, 2, 2, 3])):
                    if name in ('or_', 'and_'):
                        ops.append(arg_for(inspect.Parameter('mask', p.POSITIONAL_OR_KEYWORD), rng, dict(ctx, recv=ctx.get('recv') or {'shape': [3], 'numer': [], 'cls': 'Scalar'})))
                    else:
                        ops.append(qarg(rng, ctx))
                positional_ok = False
                continue
            if p.kind == p.VAR_KEYWORD:
                continue
            a = arg_for(p, rng, ctx)
            if a is OMIT:
                positional_ok = False
                continue
            if positional_ok and p.kind != p.KEYWORD_ONLY:
                ops.append(a)
            else:
                kw[p.name] = a
    case = {'type': 'call', 'cls': cname, 'name': name, 'how': how, 'owner': owner, 'ops': ops, 'kw': kw}
    return finish(case)


def finish(case):
    aliased = any(isinstance(d, dict) and d.get('k') in ('ref', 'clone', 'view', 'wod', 'vals', 'maskof', 'const')
                  for d in list(case['ops']) + list(case.get('kw', {}).values()))
    case['aliased'] = aliased
    case['kind'] = 'call:%s%s' % (case['owner'], ':aliased' if aliased else '')
    case['id'] = '%s.%s[%s] %s' % (case['cls'], case['name'], case['how'], _short_ops(case))
    case['nontrivial'] = True
    return case


def _short_ops(case):
    import json
    return json.dumps([case['ops'], case.get('kw', {})], sort_keys=True)


# --------------------------------------------------------------------------------------------------------------
# targeted streams: the members where operands are most at risk (views of the operand inside the body)
def unit_powers(rng):
    """exhaustive small grid (not random draws): every way of raising a unit-carrying operand / a shared Units
    constant to a power, with the exponents at which shortcuts are tempting (0, 1 in every numeric guise, 2, -1, 1/2)"""
    out = []
    expos = [py(1), py(1.0), {'k': 'npf', 'v': 1.0}, py(2), py(2.0), py(0), py(0.5), py(-1), py(3),
             {'k': 'q', 'cls': 'Scalar', 'shape': [], 'numer': [], 'seed': 1, 'dtype': 'int', 'style': 'one'}]
    for u in ['KM', 'SECONDS', 'DEG', 'CM', 'UNITLESS', 'RAD']:
        for e in expos[:9]:
            out.append(finish({'type': 'call', 'cls': 'Units', 'name': 'units_power', 'how': 'static', 'owner': 'Units',
                               'ops': [None, {'k': 'units', 'name': u}, e], 'kw': {}}))
            out.append(finish({'type': 'call', 'cls': 'Units', 'name': '__pow__', 'how': 'method', 'owner': 'Units',
                               'ops': [{'k': 'units', 'name': u}, e], 'kw': {}}))
        out.append(finish({'type': 'call', 'cls': 'Units', 'name': 'sqrt_units', 'how': 'static', 'owner': 'Units',
                           'ops': [None, {'k': 'units', 'name': u}], 'kw': {}}))
        for with_derivs in (False, True):
            for shape in ([], [3]):
                a = {'k': 'q', 'cls': 'Scalar', 'shape': shape, 'numer': [], 'seed': rng.randrange(1 << 20),
                     'dtype': 'float', 'mask': 'F', 'units': u, 'style': 'pos'}
                if with_derivs:
                    a['derivs'] = {'t': {'k': 'q', 'cls': 'Scalar', 'shape': shape, 'numer': [],
                                         'seed': rng.randrange(1 << 20), 'dtype': 'float', 'mask': 'F'}}
                for e in expos:
                    out.append(finish({'type': 'call', 'cls': 'Scalar', 'name': '__pow__', 'how': 'method',
                                       'owner': 'Scalar', 'ops': [a, e], 'kw': {}}))
                for nm in ('sqrt', 'reciprocal', '__abs__', 'sign'):
                    out.append(finish({'type': 'call', 'cls': 'Scalar', 'name': nm, 'how': 'method', 'owner': 'Scalar',
                                       'ops': [a], 'kw': {}}))
    return out


def _owner_of(cls, name):
    for k in CLASSES[cls].__mro__:
        if name in vars(k):
            return k.__name__
    return cls


def _call(cls, name, ops, kw=None, owner=None, how='method'):
    owner = _owner_of(cls, name)
    return finish({'type': 'call', 'cls': cls, 'name': name, 'how': how, 'owner': owner or cls, 'ops': ops,
                   'kw': kw or {}})


def corner_grid(rng):
    """deterministic grid (independent of the seed up to hidden values) over the value-returning members whose bodies
    have in-place corner paths: integer conversion with a `top` boundary, Polynomial roots/eval/deriv with all-zero
    coefficient rows, and the own members of Vector3 / Matrix3 / Quaternion / Pair / Matrix on operands with array
    masks, derivatives, integer dtype"""
    out = []
    # --- Scalar.int / Vector.int / as_index…: int-valued receivers that CONTAIN the boundary value
    tf = [None, True, False]
    for cls, numer in (('Scalar', []), ('Vector', [2]), ('Pair', [2])):
        for shape in ([4], [2, 3], []):
            for dtype in ('int', 'float'):
                for mask in ('F', 'A'):
                    recv = {'k': 'q', 'cls': cls, 'shape': shape, 'numer': numer, 'seed': rng.randrange(1 << 20),
                            'dtype': dtype, 'mask': mask, 'put': 3}
                    top = py(3) if not numer else tup(*([3] * numer[0]))
                    out.append(_call(cls, 'int', [recv, top], owner='Scalar' if cls == 'Scalar' else 'Vector'))
                    out.append(_call(cls, 'int', [recv], owner='Scalar' if cls == 'Scalar' else 'Vector'))
                    for remask in (False, True):
                        for clip in (False, True):
                            for shift in tf:
                                for incl in (True, False):
                                    kw = {'remask': py(remask), 'clip': py(clip), 'inclusive': py(incl)}
                                    if shift is not None:
                                        kw['shift'] = py(shift)
                                    out.append(_call(cls, 'int', [recv, top], kw,
                                                     owner='Scalar' if cls == 'Scalar' else 'Vector'))
                    for nm in ('as_index', 'as_index_and_mask', 'frac', 'sign', 'abs', 'as_int', 'as_float',
                               'as_bool', 'as_numeric', 'sort', 'max', 'min', 'argmax', 'argmin', 'median', 'sum',
                               'mean', 'clip_component'):
                        if hasattr(CLASSES[cls], nm):
                            ops = [recv]
                            if nm == 'clip_component':
                                ops = [recv, py(0), py(0), py(2)]
                            out.append(_call(cls, nm, ops, owner='?'))
    # --- Polynomial: orders 1..4, every mask representation, all-zero coefficient rows (masked and unmasked)
    for order in (1, 2, 3, 4):
        for shape in ([3], [2, 2], []):
            n = int(np.prod(shape, dtype=int))
            for mask in ('F', 'A', 'T', 'Z', [False] * n, [i % 2 == 1 for i in range(n)]):
                if not shape and isinstance(mask, list):
                    continue
                for zrow in ([], [0], [0, -1]):
                    for derivs in (False, True):
                        recv = {'k': 'q', 'cls': 'Polynomial', 'shape': shape, 'numer': [order + 1], 'dtype': 'float',
                                'seed': rng.randrange(1 << 20), 'mask': mask, 'zrow': zrow}
                        if derivs:
                            recv['derivs'] = {'t': {'k': 'q', 'cls': 'Polynomial', 'shape': shape,
                                                    'numer': [order + 1], 'dtype': 'float', 'mask': 'F',
                                                    'seed': rng.randrange(1 << 20)}}
                        out.append(_call('Polynomial', 'roots', [recv]))
                        out.append(_call('Polynomial', 'roots', [recv], {'recursive': py(False)}))
                        out.append(_call('Polynomial', 'deriv', [recv]))
                        x = {'k': 'q', 'cls': 'Scalar', 'shape': shape, 'numer': [], 'dtype': 'float',
                             'seed': rng.randrange(1 << 20), 'mask': 'A' if shape else 'F'}
                        out.append(_call('Polynomial', 'eval', [recv, x]))
                        if not zrow:
                            continue
                        out.append(_call('Polynomial', 'invert_line', [recv]))
                        out.append(_call('Polynomial', 'at_least_order', [recv, py(order + 1)]))
                        out.append(_call('Polynomial', 'set_order', [recv, py(order + 1)]))
    # --- the own members of the geometric classes on "corner" receivers
    rows = [r for r in S.api_table() if r[0] == r[3] and r[0] in ('Vector3', 'Matrix3', 'Quaternion', 'Pair', 'Matrix',
                                                                   'Vector', 'Scalar')]
    for cname, name, how, owner in rows:
        if how not in ('method', 'prop'):
            continue
        for variant in range(4):
            # variants 1 and 3: array mask whose bit at the DEGENERATE item (zero quaternion / zero vector / singular
            # matrix, position 0) is False, i.e. the degenerate item is unmasked
            recv = q(rng, cname, shape=[[3], [2, 2], [], [3]][variant], plain=True,
                     mask=['A', [False, True, False, True], 'F', [False, True, False]][variant])
            recv['zrow'] = [0]
            if variant == 0 and CLASSES[cname].DERIVS_OK:
                recv['derivs'] = {'t': dict(recv, seed=rng.randrange(1 << 20), mask='A')}
                recv['derivs']['t'].pop('zrow')
            if variant == 1 and CLASSES[cname].INTS_OK:
                recv['dtype'] = 'int'
            if cname == 'Matrix3':
                recv.pop('zrow')
                recv['style'] = 'rot'
            c = one_call(rng, cname, name, how, owner)
            if c is None:
                continue
            c['ops'][0] = recv
            out.append(finish(c))
    return out


def boundary_grid(rng):
    """deterministic grid: receivers/operands WITH derivatives (with and without units), mostly shapeless, whose value
    sits at a domain boundary (0, negative, > 1, overflow), through every operation that masks-and-replaces"""
    out = []
    unary = [('sqrt', {}), ('log', {}), ('exp', {}), ('exp', {'check': py(True)}), ('reciprocal', {}),
             ('reciprocal', {'nozeros': py(False)}), ('arcsin', {}), ('arccos', {}), ('arctan', {}), ('sign', {}),
             ('abs', {}), ('__abs__', {}), ('__neg__', {}), ('int', {}), ('frac', {}), ('sin', {}), ('tan', {}),
             ('as_float', {}), ('wod', None), ('without_units', {})]
    for shape in ([], [3]):
        for value in (0., -1., 2., 1e300):
            for units in (None, 'KM'):
                for dunits in (None, 'SECONDS'):
                    for dmask in ('F',):
                        x = {'k': 'q', 'cls': 'Scalar', 'shape': shape, 'numer': [], 'dtype': 'float', 'mask': 'F',
                             'seed': rng.randrange(1 << 20), 'put': value,
                             'derivs': {'t': {'k': 'q', 'cls': 'Scalar', 'shape': shape, 'numer': [], 'dtype': 'float',
                                              'mask': dmask, 'seed': rng.randrange(1 << 20), 'style': 'pos'}}}
                        if units:
                            x['units'] = units
                        if dunits:
                            x['derivs']['t']['units'] = dunits
                        me = {'k': 'ref', 'i': 0}
                        for nm, kw in unary:
                            if kw is None:
                                out.append(_call('Scalar', nm, [x], how='prop'))
                            else:
                                out.append(_call('Scalar', nm, [x], kw))
                        for nm, arg in (('__rtruediv__', py(3.)), ('__truediv__', me), ('__truediv__', py(0.)),
                                        ('__floordiv__', py(0)), ('__floordiv__', me), ('__rfloordiv__', py(3.)),
                                        ('__mod__', py(0)), ('__mod__', me), ('__rmod__', py(3.)),
                                        ('__pow__', py(-1)), ('__pow__', py(0.5)), ('__pow__', py(2)),
                                        ('__mul__', me), ('__add__', me), ('__sub__', me), ('arctan2', me),
                                        ('arctan2', py(0.)), ('__eq__', me), ('tvl_eq', me)):
                            out.append(_call('Scalar', nm, [x, arg]))
                        for remask in (True, False):
                            for rep in (None, py(7.), me):
                                kw = {'remask': py(remask)}
                                if rep is not None:
                                    kw['replace'] = rep
                                for nm in ('mask_where_eq', 'mask_where_ne', 'mask_where_le', 'mask_where_ge',
                                           'mask_where_lt', 'mask_where_gt'):
                                    out.append(_call('Scalar', nm, [x, py(value)], kw))
                                for nm in ('mask_where_between', 'mask_where_outside'):
                                    out.append(_call('Scalar', nm, [x, py(-0.5), py(0.75)], kw))
                                for m in (True, False):
                                    out.append(_call('Scalar', 'mask_where', [x, py(m)], kw))
                            out.append(_call('Scalar', 'clip', [x, py(0.25), py(0.75)], {'remask': py(remask)}))
                            out.append(_call('Scalar', 'clip', [x, py(None), py(0.75)], {'remask': py(remask)}))
    # the same idea for vectors: zero vectors through unit / reciprocal-like members
    for cls in ('Vector3', 'Pair', 'Vector'):
        for shape in ([], [2]):
            v = q(rng, cls, shape=shape, plain=True, mask='F')
            v['zrow'] = [0]
            v['derivs'] = {'t': dict(v, seed=rng.randrange(1 << 20), units='KM')}
            v['derivs']['t'].pop('zrow')
            for nm in ('unit', 'norm', 'norm_sq', 'with_norm', '__abs__', 'element_div', 'perp', 'proj', 'sep',
                       'ucross', 'reciprocal'):
                if hasattr(CLASSES[cls], nm):
                    ops = [v] if nm in ('unit', 'norm', 'norm_sq', 'with_norm', '__abs__', 'reciprocal') else \
                        [v, {'k': 'ref', 'i': 0}]
                    out.append(_call(cls, nm, ops))
    return out


def targeted(rng, n):
    out = unit_powers(rng) + corner_grid(rng) + boundary_grid(rng)
    for _ in range(n):
        m = Mx = q(rng, 'Matrix', numer=rng.choice([[2, 2], [3, 3]]), singular=rng.random() < 0.7,
                   shape=rng.choice([[], [2], [3], [2, 2]]))
        out.append(finish({'type': 'call', 'cls': 'Matrix', 'name': 'inverse', 'how': 'method', 'owner': 'Matrix',
                           'ops': [m], 'kw': ({'nozeros': py(True)} if rng.random() < 0.2 else {})}))
        out.append(finish({'type': 'call', 'cls': 'Matrix', 'name': 'reciprocal', 'how': 'method', 'owner': 'Matrix',
                           'ops': [dict(m, seed=m['seed'] + 1)], 'kw': {}}))
        p = q(rng, 'Pair')
        out.append(finish({'type': 'call', 'cls': 'Pair', 'name': 'rot90', 'how': 'method', 'owner': 'Pair',
                           'ops': [p], 'kw': {}}))
        out.append(finish({'type': 'call', 'cls': 'Pair', 'name': 'swapxy', 'how': 'method', 'owner': 'Pair',
                           'ops': [dict(p, seed=p['seed'] + 1)], 'kw': {}}))
        # Polynomial.eval with array x (the caller's x must not change)
        poly = q(rng, 'Polynomial', shape=rng.choice([[], [2]]), numer=[rng.choice([1, 2, 3, 4])], plain=True)
        x = q(rng, 'Scalar', shape=rng.choice([[], [3], [2]]))
        out.append(finish({'type': 'call', 'cls': 'Polynomial', 'name': 'eval', 'how': 'method', 'owner': 'Polynomial',
                           'ops': [poly, x], 'kw': {}}))
        # unit algebra on shared named constants
        a = q(rng, rng.choice(['Scalar', 'Vector3', 'Pair']), units=rng.choice(UNITS))
        b = q(rng, 'Scalar', shape=a['shape'])
        b.pop('units', None)
        nm = rng.choice(['__mul__', '__truediv__', '__rmul__', '__rtruediv__', '__floordiv__', '__mod__'])
        out.append(finish({'type': 'call', 'cls': a['cls'], 'name': nm, 'how': 'method', 'owner': 'Qube',
                           'ops': [a, b] if rng.random() < 0.6 else [b, a], 'kw': {}}))
        for nm in ('mul_units', 'div_units'):
            u = [{'k': 'units', 'name': rng.choice(UNITS)}, py(None)]
            if rng.random() < 0.5:
                u.reverse()
            if rng.random() < 0.3:
                u = [{'k': 'units', 'name': rng.choice(UNITS)}, {'k': 'units', 'name': rng.choice(UNITS)}]
            out.append(finish({'type': 'call', 'cls': 'Units', 'name': nm, 'how': 'static', 'owner': 'Units',
                               'ops': [None] + u, 'kw': {}}))
        # broadcasting: the documented read-only marking, and nothing else
        r = q(rng, rng.choice(QNAMES[:8]))
        out.append(finish({'type': 'call', 'cls': r['cls'], 'name': 'broadcast_to', 'how': 'method', 'owner': 'Qube',
                           'ops': [r, tup(*([2] + r['shape']))], 'kw': {}}))
        r2 = q(rng, rng.choice(QNAMES[:8]))
        out.append(finish({'type': 'call', 'cls': 'Qube', 'name': 'broadcast', 'how': 'static', 'owner': 'Qube',
                           'ops': [None, r, r2, {'k': 'ref', 'i': 1}], 'kw': {}}))
        # an operand whose derivative has another class than the operand (conversion of the derivatives must not be
        # done on the caller's object)
        cls = rng.choice(['Vector3', 'Pair'])
        a = q(rng, cls, shape=rng.choice([[], [3]]), plain=True, mask='F')
        a['derivs'] = {'t': {'k': 'q', 'cls': 'Vector', 'shape': a['shape'], 'numer': a['numer'],
                             'seed': rng.randrange(1 << 20), 'dtype': 'float', 'mask': 'F'}}
        recv = q(rng, cls, shape=a['shape'], plain=True)
        out.append(finish({'type': 'call', 'cls': cls, 'name': rng.choice(['as_this_type', '__add__', '__sub__', 'dot',
                           '__eq__', 'as_this_type']), 'how': 'method', 'owner': 'Qube', 'ops': [recv, a], 'kw': {}}))
        # builtin protocols
        r = q(rng, rng.choice(QNAMES))
        out.append(finish({'type': 'call', 'cls': r['cls'], 'name': rng.choice(['copy.copy', 'copy.deepcopy', 'list',
                           'str', 'repr', 'float', 'int', 'bool', 'len', 'abs', 'round']), 'how': 'func',
                           'owner': 'builtin', 'ops': [r], 'kw': {}}))
        # constructors from existing objects / arrays (must not touch the source)
        r = q(rng, rng.choice(QNAMES))
        src = rng.choice([{'k': 'ref', 'i': 1}, {'k': 'vals', 'i': 1}, {'k': 'clone', 'i': 1}])
        c2 = rng.choice([r['cls'], r['cls'], 'Scalar', 'Vector', 'Matrix'])
        out.append(finish({'type': 'call', 'cls': c2, 'name': '__init__', 'how': 'ctor', 'owner': c2,
                           'ops': [None, r, src] if False else [None, r], 'kw':
                           ({'mask': {'k': 'maskof', 'i': 1}} if rng.random() < 0.3 else {})}))
    return out


# --------------------------------------------------------------------------------------------------------------
MUTS_NUM = ['setitem_all', 'setitem_0', 'setitem_masked', 'setitem_bool', 'iadd', 'isub', 'imul', 'itruediv',
            'set_units', 'insert_deriv', 'delete_deriv', 'delete_derivs', 'deriv_setitem', 'deriv_imul', 'as_readonly',
            'values_write', 'vals_write', 'mask_write', 'deriv_values_write', 'ifloordiv', 'imod']
MUTS_BOOL = ['setitem_all', 'setitem_0', 'setitem_masked', 'setitem_bool', 'ior', 'iand', 'ixor', 'as_readonly',
             'values_write', 'mask_write']
DERIVES = ['copy', 'copy', 'copy_norec', 'copy_ro', '__copy__', 'deepcopy']
SHARED = ['share_mask', 'share_mask_ro', 'share_mask', 'clone', 'wod', 'slice', 'slice0', 'reshape', 'flatten', 'swap_axes', 'neg', 'add0', 'as_float',
          'without_mask', 'remask', 'fancy', 'broadcast']


def sequences(rng, n, nshared):
    out = []
    for i in range(n + nshared):
        cls = rng.choice(QNAMES)
        src = q(rng, cls, shape=rng.choice([[], [3], [2, 3], [1], [2, 1]]))
        src.pop('pyscalar', None)
        if rng.random() < 0.6 and CLASSES[cls].DERIVS_OK and src['dtype'] == 'float' and 'derivs' not in src:
            src['derivs'] = {'t': {'k': 'q', 'cls': cls, 'shape': src['shape'], 'numer': src['numer'],
                                   'seed': rng.randrange(1 << 20), 'dtype': 'float', 'mask': rng.choice(['F', 'A'])}}
        if src.get('mask') == 'V':
            src['mask'] = 'A'
        pool = MUTS_BOOL if cls == 'Boolean' else MUTS_NUM
        if i < n:
            derive = rng.choice(DERIVES)
            if rng.random() < 0.3:
                src['ro'] = True
            muts = [{'m': rng.choice(pool)} for _ in range(rng.choice([1, 2, 3, 5, 8]))]
            side = rng.choice(['src', 'derived'])
        else:
            derive = rng.choice(SHARED)
            src.pop('ro', None)
            muts = [{'m': rng.choice(['setitem_all', 'values_write', 'mask_write', 'iadd'])}]
            side = 'src'
            if derive.startswith('share_mask'):
                src['mask'] = 'A'
                api = [m for m in pool if m not in ('mask_write', 'values_write', 'vals_write', 'deriv_values_write')]
                muts = [{'m': rng.choice(api)} for _ in range(rng.choice([1, 2, 4]))]
        for m in muts:
            if m['m'] in ('delete_deriv', 'deriv_setitem', 'deriv_imul', 'deriv_values_write') and 'key' not in m:
                m['key'] = 't'
        case = {'type': 'seq', 'src': src, 'derive': derive, 'side': side, 'muts': muts}
        case['kind'] = 'seq:' + derive
        case['id'] = 'seq ' + _json(case)
        case['nontrivial'] = True
        out.append(case)
    return out


def _json(c):
    import json
    return json.dumps({k: c[k] for k in ('src', 'derive', 'side', 'muts')}, sort_keys=True)


def catalogued(rng, n):
    """calls of the catalogued members (those with an effect summary in the Lean model)"""
    out = []
    def call(recv, name, cat, args=(), how='method', kw=None):
        c = finish({'type': 'call', 'cls': recv['cls'], 'name': name, 'how': how, 'owner': 'Qube',
                    'ops': [recv] + list(args), 'kw': kw or {}})
        c['cat'] = cat
        c['kind'] = 'cat:' + cat
        out.append(c)
    for _ in range(n):
        cls = rng.choice(QNAMES[:8])
        r = q(rng, cls, shape=rng.choice([[3], [2, 3], [1], [2, 1], [4]]))
        r.pop('pyscalar', None)
        if r.get('mask') == 'V':
            r['mask'] = 'A'
        r.pop('singular', None)
        r['dtype'] = 'bool' if cls == 'Boolean' else 'float'
        nro = dict(r); nro.pop('ro', None)
        call(r, 'copy', 'copy')
        call(r, 'clone', 'clone')
        call(r, 'wod', 'wod', how='prop')
        if cls != 'Boolean':
            call(r, '__neg__', 'arith')
        call(r, '__getitem__', 'viewing', [{'k': 'ellipsis'}])
        call(r, '__getitem__', 'viewing', [{'k': 'slice', 'v': [0, 1, None]}])
        call(r, 'reshape', 'viewing', [tup(*(r['shape'] + [1]))])
        call(r, 'swap_axes', 'viewing' if len(r['shape']) > 1 else 'self', [py(0), py(-1)])
        call(nro, 'broadcast_to', 'broadcast', [tup(*([2] + r['shape']))])
        call(nro, 'broadcast_to', 'broadcast', [tup(*([2] + r['shape']))], kw={'recursive': py(False)})
        call(nro, 'broadcast_to', 'broadcast', [tup(*([7] + [s + 5 for s in r['shape']]))])      # raises, after marking
        m = q(rng, 'Matrix', shape=rng.choice([[2], [3], [2, 2]]), numer=rng.choice([[2, 2], [3, 3]]),
              singular=rng.random() < 0.6)
        m.pop('pyscalar', None)
        if m.get('mask') == 'V':
            m['mask'] = 'A'
        m['dtype'] = 'float'
        if m.get('mask') == 'T':
            m['mask'] = 'A'
        for d in m.get('derivs', {}).values():
            d.pop('denom', None)
            d['mask'] = 'F'
        if m.get('derivs'):
            m['mask'] = 'A'
            m.pop('ro', None)        # (a read-only mask would be replaced by a copy in the derivatives)
        call(m, 'inverse', 'inverse')
        p = q(rng, 'Pair', shape=rng.choice([[3], [2, 3], [1]]))
        p.pop('pyscalar', None)
        if p.get('mask') == 'V':
            p['mask'] = 'A'
        p['dtype'] = 'float'
        call(p, 'rot90', 'rot90')
    return out


def possible_members():
    """(owner, name) of the functions in which the translator found a POSSIBLE write site"""
    try:
        import c07_py2lean as T
        sites, _ = T.scan()
        out = {}
        for s in sites:
            key = (s['fn'], s['kind'], s['target'])
            if s['root'][0] == 'may':
                out.setdefault(tuple(s['fn'].split('.', 1)), 4)
            elif s['root'][0] == 'param' and key not in T.ALLOW:
                out[tuple(s['fn'].split('.', 1))] = 12      # a write site flagged by T2 drives case generation
        return out
    except Exception:
        return set()


def units_catalogue(rng):
    """catalogued Units helpers (model tie: operand itself / new Units object, nothing old changed)"""
    out = []
    def call(name, cat, ops, how='static', named=False):
        c = finish({'type': 'call', 'cls': 'Units', 'name': name, 'how': how, 'owner': 'Units', 'ops': ops, 'kw': {}})
        c['cat'] = cat
        c['named'] = named
        c['kind'] = 'cat:' + cat
        out.append(c)
    for u in ['KM', 'SECONDS', 'DEG', 'CM', 'RAD']:
        U = {'k': 'units', 'name': u}
        V = {'k': 'units', 'name': rng.choice(UNITS)}
        for nm in ('mul_units', 'div_units'):
            call(nm, 'unitsMulNone', [None, U, py(None)])
            call(nm, 'unitsMulNone', [None, U, py(None), py('nm')], named=True)
            call(nm, 'unitsNew', [None, U, V])
        call('__mul__', 'self', [U, py(None)], how='method')
        call('__truediv__', 'self', [U, py(None)], how='method')
        call('__mul__', 'unitsNew', [U, V], how='method')
        for p in (1, 2, -1, 1.0):
            call('units_power', 'unitsNew', [None, U, py(p)])
            call('__pow__', 'unitsNew', [U, py(p)], how='method')
        call('as_units', 'self', [None, U][1:] if False else [None, U])
    return out


def alias_sequences(rng, n):
    """c = a.copy(); c.insert_deriv(k, a or a derivative of a); mutate c's derivative; observe a"""
    out = []
    for _ in range(n):
        cls = rng.choice(['Scalar', 'Vector3', 'Pair', 'Matrix'])
        src = q(rng, cls, shape=rng.choice([[3], [2, 3], [2]]), plain=True, mask=rng.choice(['F', 'A']))
        src['derivs'] = {'t': {'k': 'q', 'cls': cls, 'shape': src['shape'], 'numer': src['numer'],
                               'seed': rng.randrange(1 << 20), 'dtype': 'float', 'mask': rng.choice(['F', 'A'])}}
        what = rng.choice(['other', 't'])
        tail = rng.choice([[], [{'m': 'deriv_setitem', 'key': 'n'}], [{'m': 'deriv_values_write', 'key': 'n'}],
                           [{'m': 'deriv_setitem_0', 'key': 'n'}], [{'m': 'deriv_setitem_0', 'key': 'n'}],
                           [{'m': 'setitem_all'}], [{'m': 'deriv_setitem', 'key': 't'}],
                           [{'m': 'delete_deriv', 'key': 'n'}]])
        case = {'type': 'seq', 'src': src, 'derive': 'copy', 'side': 'derived',
                'muts': [{'m': 'insert_alias', 'key': 'n', 'what': what}] + tail}
        case['kind'] = 'seq:alias'
        case['id'] = 'seq ' + _json(case)
        case['nontrivial'] = True
        out.append(case)
    return out


def gen_cases(rng, tier):
    thorough = tier == 'thorough'
    rows = S.api_table()
    cases = []
    monitored = possible_members()
    for cname, name, how, owner in rows:
        own = owner == cname
        k = (24 if own else 8) if thorough else (8 if own else 3)
        if (owner, name) in monitored:
            # functions with POSSIBLE (may-alias) write sites get 4x the draws, functions with a write site that T2
            # flags as tainted 12x (the table of write sites drives the search for the concrete failing input)
            k *= monitored[(owner, name)]
        if cname == 'Units':
            k *= 2
        for _ in range(k):
            c = one_call(rng, cname, name, how, owner)
            if c is not None:
                cases.append(c)
    cases += targeted(rng, 150 if thorough else 30)
    cases += catalogued(rng, 300 if thorough else 60)
    cases += units_catalogue(rng)
    cases += alias_sequences(rng, 400 if thorough else 80)
    cases += sequences(rng, 6000 if thorough else 1000, 1000 if thorough else 200)
    return cases


def neighbours(case):
    """simplified variants of a failing/mismatching case"""
    out = []
    if case['type'] == 'call':
        for i, d in enumerate(case['ops']):
            if isinstance(d, dict) and d.get('k') == 'q':
                for key in ('derivs', 'units', 'ro', 'pyscalar'):
                    if key in d:
                        dd = dict(d); dd.pop(key)
                        c = dict(case, ops=case['ops'][:i] + [dd] + case['ops'][i + 1:])
                        out.append(finish(c))
                if d.get('mask', 'F') != 'F':
                    c = dict(case, ops=case['ops'][:i] + [dict(d, mask='F')] + case['ops'][i + 1:])
                    out.append(finish(c))
        if case.get('kw'):
            out.append(finish(dict(case, kw={})))
    else:
        for j in range(len(case['muts'])):
            c = dict(case, muts=[case['muts'][j]])
            c['id'] = 'seq ' + _json(c)
            out.append(c)
    for c in out:
        c.setdefault('req', None)
    return out
