"""C05 — dump of a real polymath object (the abstraction function of the tie) and the Python transcription of the
Lean predicate `PMV.WF.wfClauses` (lean/PMV/Model/WF.lean).  The dump reads the object's `__dict__` directly and
NEVER calls a polymath method (so that dumping cannot change or repair what it observes)."""
import numbers
import numpy as np
from polymath import Qube

CLAUSES = ['attrs', 'vshape', 'mask', 'ranks', 'sizes', 'default', 'cls_item', 'cls_kind', 'cls_units', 'cls_derivs',
           'ro_arrays', 'd_float', 'd_shape', 'd_nested', 'd_attrs', 'd_ro', 'd_wf']

CLASS_NAMES = ['Qube', 'Scalar', 'Boolean', 'Vector', 'Vector3', 'Pair', 'Matrix', 'Matrix3', 'Quaternion', 'Polynomial']


def kind_of(v):
    """numeric kind of a values / default entry, judged without polymath's helpers"""
    if isinstance(v, np.ndarray) or isinstance(v, np.generic):
        k = v.dtype.kind
        return 'float' if k == 'f' else 'int' if k in 'iu' else 'bool' if k == 'b' else 'other'
    if isinstance(v, bool):
        return 'bool'
    if isinstance(v, numbers.Integral):
        return 'int'
    if isinstance(v, numbers.Real):
        return 'float'
    return 'other'


def _tup(t):
    return isinstance(t, tuple) and all(isinstance(x, numbers.Integral) and not isinstance(x, bool) and x >= 0 for x in t)


def _nat(x):
    return isinstance(x, numbers.Integral) and not isinstance(x, bool) and x >= 0


def dump(q, depth=0):
    """nested-list wire form of one object:
    (cls kind varr (vshape) vwritable mask (shape) (numer) (denom) (item) rank nrank drank size isize nsize dsize
     (default-shape) default-kind units readonly complete ((key dump)...) ((attr same)...))
    mask := (S b) python bool | (N b) numpy bool_ | (A (shape) isbool writable) | (X) anything else"""
    d = q.__dict__
    complete = True
    names = ['_values_', '_mask_', '_shape_', '_numer_', '_denom_', '_item_', '_rank_', '_nrank_', '_drank_',
             '_size_', '_isize_', '_nsize_', '_dsize_', '_default_', '_units_', '_readonly_', '_derivs_']
    for n in names:
        if n not in d:
            complete = False
    cls = type(q).__name__
    if cls not in CLASS_NAMES:
        # a user subclass: judged by the constraints of its nearest polymath ancestor
        for c in type(q).__mro__:
            if c.__name__ in CLASS_NAMES:
                cls = c.__name__
                break
    v = d.get('_values_')
    varr = isinstance(v, np.ndarray)
    kind = kind_of(v)
    vshape = [int(x) for x in np.shape(v)] if kind != 'other' or varr else []
    vwrit = bool(v.flags.writeable) if varr else True
    m = d.get('_mask_')
    if isinstance(m, bool):
        mask = ['S', m]
    elif isinstance(m, np.bool_):
        mask = ['N', bool(m)]
    elif isinstance(m, np.ndarray):
        mask = ['A', [int(x) for x in m.shape], m.dtype.kind == 'b', bool(m.flags.writeable)]
    else:
        mask = ['X']
    tups = []
    for n in ('_shape_', '_numer_', '_denom_', '_item_'):
        t = d.get(n)
        if _tup(t):
            tups.append([int(x) for x in t])
        else:
            complete = False
            tups.append([])
    nats = []
    for n in ('_rank_', '_nrank_', '_drank_', '_size_', '_isize_', '_nsize_', '_dsize_'):
        x = d.get(n)
        if _nat(x):
            nats.append(int(x))
        else:
            complete = False
            nats.append(0)
    df = d.get('_default_')
    dkind = kind_of(df)
    dshape = [int(x) for x in np.shape(df)] if dkind != 'other' else []
    units = d.get('_units_') is not None
    ro = d.get('_readonly_')
    if not isinstance(ro, bool):
        complete = False
        ro = bool(ro)
    derivs = d.get('_derivs_')
    dl = []
    if not isinstance(derivs, dict):
        complete = False
        derivs = {}
    for k in sorted(derivs, key=str):
        dv = derivs[k]
        if not isinstance(k, str) or not isinstance(dv, Qube) or depth > 3:
            complete = False
            continue
        dl.append([key_sx(k), dump(dv, depth + 1)])
    attrs = []
    for k in sorted(d):
        if isinstance(k, str) and k.startswith('d_d'):
            attrs.append([key_sx(k[3:]), d[k] is derivs.get(k[3:])])
    return [cls, kind, varr, vshape, vwrit, mask] + tups + nats + [dshape, dkind, units, ro, complete, dl, attrs]


def key_sx(k):
    """derivative keys as wire atoms (no blanks / parentheses; the empty key is legal in polymath)"""
    return 'k:' + ''.join(c if c.isalnum() or c == '_' else '%%%02x' % ord(c) for c in k)


# ---------------------------------------------------------------------------------------------------------------
# Python transcription of PMV.WF (kept clause for clause in the order of CLAUSES).  `table` is the class table read
# from the live classes (c05_py2lean.class_table()).

def prod(l):
    r = 1
    for x in l:
        r *= x
    return r


def body_clauses(o, table):
    (cls, kind, varr, vshape, vwrit, mask, shape, numer, denom, item, rank, nrank, drank, size, isize, nsize, dsize,
     dshape, dkind, units, ro, complete, derivs, attrs) = o
    t = table[cls]
    c = {}
    c['attrs'] = bool(complete) and (varr or vshape == [])
    c['vshape'] = vshape == shape + numer + denom
    c['mask'] = (mask[0] == 'S') or (mask[0] == 'A' and mask[2] and mask[1] == shape)
    c['ranks'] = nrank == len(numer) and drank == len(denom) and rank == nrank + drank and item == numer + denom
    c['sizes'] = size == prod(shape) and isize == prod(item) and nsize == prod(numer) and dsize == prod(denom)
    c['default'] = dshape == item and dkind == kind
    c['cls_item'] = (t['nrank'] is None or len(numer) == t['nrank']) and (t['numer'] is None or numer == t['numer'])
    c['cls_kind'] = {'float': t['floats_ok'], 'int': t['ints_ok'], 'bool': t['bools_ok']}.get(kind, False)
    c['cls_units'] = (not units) or t['units_ok']
    c['cls_derivs'] = (not derivs and not denom) or t['derivs_ok']
    c['ro_arrays'] = (not ro) or ((not varr or not vwrit) and (mask[0] != 'A' or not mask[3]))
    return c


BODY = CLAUSES[:11]


def clauses(o, table):
    """verdict list in the order of CLAUSES"""
    c = body_clauses(o, table)
    (cls, kind, varr, vshape, vwrit, mask, shape, numer, denom, item, rank, nrank, drank, size, isize, nsize, dsize,
     dshape, dkind, units, ro, complete, derivs, attrs) = o
    ds = [d for _, d in derivs]
    c['d_float'] = all(d[1] == 'float' for d in ds)
    c['d_shape'] = all(d[6] == shape and d[7] == numer for d in ds)
    c['d_nested'] = all(not d[22] and not d[23] for d in ds)
    keys = [k for k, _ in derivs]
    c['d_attrs'] = sorted(keys) == sorted(a for a, _ in attrs) and all(s for _, s in attrs)
    c['d_ro'] = (not ro) or all(d[20] for d in ds)
    c['d_wf'] = all(all(body_clauses(d, table)[n] for n in BODY) for d in ds)
    return [bool(c[n]) for n in CLAUSES]


def failed(verdicts):
    return [n for n, v in zip(CLAUSES, verdicts) if not v]
