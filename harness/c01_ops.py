"""Shared by c01.py and c02.py: the catalogue of arithmetic / math / product operations, operand building,
the runner of the REAL code (warnings recorded, np.errstate untouched), the domain predicates (plain NumPy /
Fractions, independent of the Lean model) and the request builders for the two model drivers.

Values are exact dyadics: every operand value is v8/8 with a small integer v8 (integer kinds use multiples of 8),
so float64 arithmetic (+ - * and comparisons, floor division, modulo) is exact on the Python side.
"""
import itertools, math, warnings
from fractions import Fraction
import numpy as np
from absn import *
import common as C

# ------------------------------------------------------------------ operand classes
#  key: (class name, item shape, dtype)
KINDS = {
    'S': ('Scalar', (), 'float'), 'Si': ('Scalar', (), 'int'), 'B': ('Boolean', (), 'bool'),
    'V3': ('Vector3', (3,), 'float'), 'V2': ('Vector', (2,), 'float'), 'V4': ('Vector', (4,), 'float'),
    'P': ('Pair', (2,), 'float'),
    'M2': ('Matrix', (2, 2), 'float'), 'M3': ('Matrix', (3, 3), 'float'), 'R': ('Matrix3', (3, 3), 'float'),
    'Q': ('Quaternion', (4,), 'float'),
    'N': ('number', (), 'float'), 'Ni': ('number', (), 'int'), 'A': ('ndarray', (), 'float'),
    'PL0': ('Polynomial', (1,), 'float'), 'PL1': ('Polynomial', (2,), 'float'), 'PL2': ('Polynomial', (3,), 'float'),
    'PL3': ('Polynomial', (4,), 'float'),
}
# further spellings of a plain number
KINDS.update({'Nb': ('number', (), 'int'), 'Nf64': ('number', (), 'float'), 'Ni64': ('number', (), 'int')})
NUMFLAV = {'Nb': bool, 'Nf64': np.float64, 'Ni64': np.int64}
CLS = dict(CLASSES)
CLS['Polynomial'] = polymath.Polynomial


def isz(o):
    return int(np.prod(KINDS[o['k']][1], dtype=int))


def values_of(o):
    """plain ndarray of the operand's values, shape = leading shape + item"""
    cls, item, dt = KINDS[o['k']]
    a = np.array(o['v8'], dtype='int64').reshape(tuple(o['shape']) + item)
    if dt == 'float':
        # 'scale' = k: every value is multiplied by the exact power of two 2**-k (tiny but perfectly conditioned data)
        return a / 8.0 * 2.0 ** (-o.get('scale', 0))
    if dt == 'int':
        return a // 8
    return a != 0


def build(o, share=None):
    """the real operand; `share` = an already built Qube whose mask ARRAY OBJECT is reused (tests `mask0 is mask1`)"""
    cls, item, dt = KINDS[o['k']]
    vals = values_of(o)
    if cls == 'number':
        if o['k'] in NUMFLAV:                 # Python bool, NumPy scalars: all are numbers.Real
            return NUMFLAV[o['k']](vals)
        return float(vals) if dt == 'float' else int(vals)
    if cls == 'ndarray':
        return np.array(vals, dtype='float64')
    if share is not None and isinstance(share._mask_, np.ndarray):
        mask = share._mask_
    else:
        mask = mk_mask(o['mask'], o['shape'])
    if vals.shape == ():
        vals = vals[()].item()
    obj = CLS[cls](vals, mask)
    if o.get('ro'):
        obj = obj.as_readonly()
    return obj


def opd_mask_bits(o):
    """expanded mask of an operand as an ndarray of its leading shape"""
    if KINDS[o['k']][0] in ('number', 'ndarray'):
        return np.zeros(tuple(o['shape']), dtype=bool)
    return np.array(mask_bits(o['mask'], o['shape']), dtype=bool).reshape(tuple(o['shape']))


# ------------------------------------------------------------------ domain predicates (the specification)
def frac(a):
    return np.vectorize(lambda x: Fraction(float(x)), otypes=[object])(a) if np.size(a) else np.zeros(np.shape(a), dtype=object)


def det_exact(m):
    """exact determinant of one small matrix of dyadics"""
    m = [[Fraction(float(x)) for x in row] for row in m]
    n = len(m)
    if n == 2:
        return m[0][0] * m[1][1] - m[0][1] * m[1][0]
    return (m[0][0] * (m[1][1] * m[2][2] - m[1][2] * m[2][1]) - m[0][1] * (m[1][0] * m[2][2] - m[1][2] * m[2][0])
            + m[0][2] * (m[1][0] * m[2][1] - m[1][1] * m[2][0]))


def singular(vals):
    """vals: (..., n, n) -> bool array (...), exact"""
    lead = vals.shape[:-2]
    out = np.zeros(lead, dtype=bool)
    for i in np.ndindex(*lead):
        out[i] = det_exact(vals[i]) == 0
    return out


def is_whole(e):
    return e == np.floor(e)


def pow_undefined(x, e):
    """base < 0 with a fractional exponent, or 0 to a negative power (broadcasts)"""
    x, e = np.broadcast_arrays(np.asarray(x, dtype=float), np.asarray(e, dtype=float))
    return ((x < 0) & ~is_whole(e)) | ((x == 0) & (e < 0))


EXP_CUT = 709.0        # anything above np.log(float max) = 709.78 in the generator is 800

# ------------------------------------------------------------------ the catalogue
# each entry: kinds per operand position (list of alternatives), call, fail (-> (operand index | 'out', bool ndarray)
# on the shape the code computes it on) or None, path (C01 model path), c02 (driver op, params) or None,
# ref (reference value function on plain arrays for the C02 oracle) or None, fast = documented ValueError allowed
def _b(x):
    return x


def _sc(o):
    """number / ndarray operands act as unmasked scalars"""
    return o


SC = ['S', 'Si', 'B']          # scalar-like Qubes
NUM = ['N', 'Ni']


def _div_fail(vals):
    return (1, np.asarray(vals[1]) == 0)


OPS = {}


def op(name, **kw):
    OPS[name] = kw


BIN = {'add': lambda a, b: a + b, 'sub': lambda a, b: a - b, 'mul': lambda a, b: a * b,
       'div': lambda a, b: a / b, 'floordiv': lambda a, b: a // b, 'mod': lambda a, b: a % b,
       'pow': lambda a, b: a ** b}
NPREF = {'add': np.add, 'sub': np.subtract, 'mul': np.multiply, 'div': np.divide, 'floordiv': np.floor_divide,
         'mod': np.mod}

for _n in ('add', 'sub', 'mul'):
    op(_n, n=2, call=BIN[_n], fail=None, ref=NPREF[_n], elementwise=True)
for _n in ('div', 'floordiv', 'mod'):
    op(_n, n=2, call=BIN[_n], fail=_div_fail, ref=NPREF[_n], elementwise=True)
op('pow', n=2, call=BIN['pow'], fail=lambda v: ('out', pow_undefined(v[0], v[1])),
   ref=lambda x, e: np.power(np.asarray(x, dtype=float), np.asarray(e, dtype=float)), elementwise=True)
op('neg', n=1, call=lambda a: -a, fail=None, ref=np.negative)
op('abs', n=1, call=lambda a: abs(a), fail=None, ref=np.abs)
op('pos', n=1, call=lambda a: +a, fail=None, ref=lambda x: x)
op('sqrt', n=1, call=lambda a, check=True: a.sqrt(check=check), fail=lambda v: (0, v[0] < 0), ref=np.sqrt, fast='check')
op('log', n=1, call=lambda a, check=True: a.log(check=check), fail=lambda v: (0, v[0] <= 0), ref=np.log, fast='check')
op('exp', n=1, call=lambda a, check=True: a.exp(check=check), fail=lambda v: (0, v[0] > EXP_CUT), ref=np.exp, fast='check')
op('arcsin', n=1, call=lambda a, check=True: a.arcsin(check=check), fail=lambda v: (0, np.abs(v[0]) > 1), ref=np.arcsin, fast='check')
op('arccos', n=1, call=lambda a, check=True: a.arccos(check=check), fail=lambda v: (0, np.abs(v[0]) > 1), ref=np.arccos, fast='check')
op('sin', n=1, call=lambda a: a.sin(), fail=None, ref=np.sin)
op('cos', n=1, call=lambda a: a.cos(), fail=None, ref=np.cos)
op('tan', n=1, call=lambda a: a.tan(), fail=None, ref=np.tan)
op('arctan', n=1, call=lambda a: a.arctan(), fail=None, ref=np.arctan)
op('arctan2', n=2, call=lambda a, b: a.arctan2(b), fail=None, ref=np.arctan2, elementwise=True)
op('reciprocal', n=1, call=lambda a, nozeros=False: a.reciprocal(nozeros=nozeros), fail=lambda v: (0, v[0] == 0),
   ref=lambda x: 1. / x, fast='nozeros')
# further element-wise Scalar methods (mask passes through; no domain restriction)
op('sign', n=1, call=lambda a: a.sign(), fail=None, ref=np.sign)
op('sign0', n=1, call=lambda a: a.sign(zeros=False), fail=None, ref=lambda x: np.where(x == 0, 1., np.sign(x)))
op('int', n=1, call=lambda a: a.int(), fail=None, ref=np.floor)
op('frac', n=1, call=lambda a: a.frac(), fail=None, ref=lambda x: x % 1.)
op('as_int', n=1, call=lambda a: a.as_int(), fail=None, ref=None)
op('as_float', n=1, call=lambda a: a.as_float(), fail=None, ref=lambda x: x)
op('absm', n=1, call=lambda a: a.abs(), fail=None, ref=np.abs)
op('round', n=1, call=lambda a: round(a, 0), fail=None, ref=None)
# vector / matrix / quaternion products
op('dot', n=2, call=lambda a, b: a.dot(b), fail=None, ref=lambda x, y: np.sum(x * y, axis=-1))
op('cross', n=2, call=lambda a, b: a.cross(b), fail=None,
   ref=lambda x, y: np.cross(x, y))
op('outer', n=2, call=lambda a, b: a.outer(b), fail=None, ref=lambda x, y: x[..., :, None] * y[..., None, :])
op('element_mul', n=2, call=lambda a, b: a.element_mul(b), fail=None, ref=lambda x, y: x * y)
op('element_div', n=2, call=lambda a, b: a.element_div(b), fail=lambda v: (1, np.any(v[1] == 0, axis=-1)),
   ref=lambda x, y: x / y)
op('norm', n=1, call=lambda a: a.norm(), fail=None, ref=lambda x: np.sqrt(np.sum(x * x, axis=-1)))
op('norm_sq', n=1, call=lambda a: a.norm_sq(), fail=None, ref=lambda x: np.sum(x * x, axis=-1))
op('unit', n=1, call=lambda a: a.unit(), fail=lambda v: (0, np.all(v[0] == 0, axis=-1)),
   ref=lambda x: x / np.sqrt(np.sum(x * x, axis=-1))[..., None])
op('vdiv', n=2, call=lambda a, b: a / b, fail=_div_fail, ref=lambda x, y: x / np.asarray(y)[..., None])
op('vmul', n=2, call=lambda a, b: a * b, fail=None, ref=lambda x, y: x * np.asarray(y)[..., None])
op('svmul', n=2, call=lambda a, b: a * b, fail=None, ref=lambda x, y: np.asarray(x)[..., None] * y)
op('mdiv', n=2, call=lambda a, b: a / b, fail=_div_fail, ref=lambda x, y: x / np.asarray(y)[..., None, None])
op('matvec', n=2, call=lambda a, b: a * b, fail=None, ref=lambda x, y: np.einsum('...ij,...j->...i', x, y))
op('matmul', n=2, call=lambda a, b: a * b, fail=None, ref=lambda x, y: np.einsum('...ij,...jk->...ik', x, y))
# Matrix3 * Scalar "rotates a scalar": returns the Scalar itself, ignoring the matrix (known finding KF-C01-1)
op('rotscalar', n=2, call=lambda a, b: a * b, fail=None, ref=None)
op('inverse', n=1, call=lambda a, nozeros=False: a.inverse(nozeros=nozeros), fail=lambda v: (0, singular(v[0])),
   ref=None, fast='nozeros')
# every spelling of the matrix inverse
op('mrecip', n=1, call=lambda a: a.reciprocal(), fail=lambda v: (0, singular(v[0])), ref=None)
op('rdivm', n=1, call=lambda a: 1. / a, fail=lambda v: (0, singular(v[0])), ref=None)
op('mpowm1', n=1, call=lambda a: a ** -1, fail=lambda v: (0, singular(v[0])), ref=None)
op('mmdiv', n=2, call=lambda a, b: a / b, fail=lambda v: (1, singular(v[1])), ref=None)
op('matpow', n=2, call=lambda a, b: a ** b, fail=None, ref=None)
op('qmul', n=2, call=lambda a, b: a * b, fail=None, ref=None)
op('qrecip', n=1, call=lambda a: a.reciprocal(), fail=lambda v: (0, np.all(v[0] == 0, axis=-1)),
   ref=lambda x: x * np.array([1., -1., -1., -1.]) / np.sum(x * x, axis=-1)[..., None])
op('qdiv', n=2, call=lambda a, b: a / b, fail=lambda v: (1, np.all(v[1] == 0, axis=-1)), ref=None)
# rotation constructors (angle operands)
op('x_rotation', n=1, call=lambda a: Matrix3.x_rotation(a), fail=None, ref=None)
op('y_rotation', n=1, call=lambda a: Matrix3.y_rotation(a), fail=None, ref=None)
op('z_rotation', n=1, call=lambda a: Matrix3.z_rotation(a), fail=None, ref=None)
op('axis_rotation', n=1, call=lambda a: Matrix3.axis_rotation(a, 1), fail=None, ref=None)
op('pole_rotation', n=2, call=lambda a, b: Matrix3.pole_rotation(a, b), fail=None, ref=None)
op('m3_from_euler', n=3, call=lambda a, b, c: Matrix3.from_euler(a, b, c), fail=None, ref=None)
op('q_from_euler', n=3, call=lambda a, b, c: Quaternion.from_euler(a, b, c), fail=None, ref=None)
op('q_from_rotation', n=2, call=lambda a, b: Quaternion.from_rotation(a, b),
   fail=lambda v: (1, np.all(v[1] == 0, axis=-1)), ref=None)
# compositions defined in the source as compositions
op('perp', n=2, call=lambda a, b: a.perp(b), fail=lambda v: (1, np.all(v[1] == 0, axis=-1)), ref=None)
op('proj', n=2, call=lambda a, b: a.proj(b), fail=lambda v: (1, np.all(v[1] == 0, axis=-1)), ref=None)
op('ucross', n=2, call=lambda a, b: a.ucross(b),
   fail=lambda v: ('out', np.all(np.cross(*np.broadcast_arrays(v[0], v[1])) == 0, axis=-1)), ref=None)
op('with_norm', n=1, call=lambda a: a.with_norm(2.), fail=lambda v: (0, np.all(v[0] == 0, axis=-1)), ref=None)


# peripheral-class operations (Vector3 / Pair / Matrix3 / Quaternion / Polynomial helpers): judged by the direct oracle
# "result masked iff an operand element that broadcasts onto it is masked or the operation is invalid there"
def _zero(v):
    return np.all(v == 0, axis=-1)


def _bz(*zs):
    shp = np.broadcast_shapes(*[np.shape(z) for z in zs])
    m = np.zeros(shp, dtype=bool)
    for z in zs:
        m = m | np.broadcast_to(z, shp)
    return ('out', m)


op('spin', n=3, call=lambda a, b, c: a.spin(b, c), fail=lambda v: _bz(_zero(v[1]), np.zeros(np.shape(v[2]), bool),
                                                                       np.zeros(np.shape(v[0])[:-1], bool)), ref=None)
op('with_norm2', n=2, call=lambda a, b: a.with_norm(b), fail=lambda v: (0, _zero(v[0])), ref=None)
op('sep', n=2, call=lambda a, b: a.sep(b), fail=lambda v: _bz(_zero(v[0]), _zero(v[1])), ref=None)
op('cpm', n=1, call=lambda a: a.cross_product_as_matrix(), fail=None, ref=None)
op('vector_scale', n=2, call=lambda a, b: a.vector_scale(b), fail=lambda v: (1, _zero(v[1])), ref=None)
op('vector_unscale', n=2, call=lambda a, b: a.vector_unscale(b), fail=lambda v: (1, _zero(v[1])), ref=None)
op('swapxy', n=1, call=lambda a: a.swapxy(), fail=None, ref=None)
op('rot90', n=1, call=lambda a: a.rot90(), fail=None, ref=None)
op('pangle', n=1, call=lambda a: a.angle(), fail=None, ref=None)
op('longitude', n=1, call=lambda a: a.longitude(), fail=None, ref=None)
op('latitude', n=1, call=lambda a: a.latitude(), fail=lambda v: (0, _zero(v[0])), ref=None)
op('from_ra_dec_length', n=3, call=lambda a, b, c: Vector3.from_ra_dec_length(a, b, c), fail=None, ref=None)
op('from_cylindrical', n=3, call=lambda a, b, c: Vector3.from_cylindrical(a, b, c), fail=None, ref=None)
op('v3_from_scalars', n=3, call=lambda a, b, c: Vector3.from_scalars(a, b, c), fail=None, ref=None)
op('rotate', n=2, call=lambda a, b: a.rotate(b), fail=None, ref=None)
op('unrotate', n=2, call=lambda a, b: a.unrotate(b), fail=None, ref=None)
op('conj', n=1, call=lambda a: a.conj(), fail=None, ref=None)
op('q_from_parts', n=2, call=lambda a, b: Quaternion.from_parts(a, b), fail=None, ref=None)
op('poly_eval', n=2, call=lambda a, b: a.eval(b), fail=None, ref=None)
op('poly_add', n=2, call=lambda a, b: a + b, fail=None, ref=None)
op('poly_sub', n=2, call=lambda a, b: a - b, fail=None, ref=None)
op('poly_mul', n=2, call=lambda a, b: a * b, fail=None, ref=None)
op('poly_neg', n=1, call=lambda a: -a, fail=None, ref=None)
op('poly_deriv', n=1, call=lambda a: a.deriv(), fail=None, ref=None)
op('eval_quadratic', n=4, call=lambda x, a, b, c: x.eval_quadratic(a, b, c), fail=None, ref=None)

# in-place operators: the target is a fresh copy; the result IS the target
import operator as _op
INPLACE = {'iadd': ('add', _op.iadd), 'isub': ('sub', _op.isub), 'imul': ('mul', _op.imul), 'idiv': ('div', _op.itruediv),
           'ifloordiv': ('floordiv', _op.ifloordiv), 'imod': ('mod', _op.imod), 'ipow': ('pow', _op.ipow)}


def _inplace_call(f):
    def call(a, b):
        t = a.copy() if isinstance(a, Qube) else a
        return f(t, b)
    return call


def _matdiv_fail(v):
    x = v[1]
    if x.ndim >= 2 and x.shape[-1] == x.shape[-2] and x.shape[-1] in (2, 3):
        return (1, singular(x))
    return (1, np.asarray(x) == 0)


for _n, (_base, _f) in INPLACE.items():
    op(_n, n=2, call=_inplace_call(_f), fail=OPS[_base]['fail'], ref=None, inplace=_base)
op('imatmul', n=2, call=_inplace_call(_op.imul), fail=None, ref=None, inplace='matmul')
op('imatdiv', n=2, call=_inplace_call(_op.itruediv), fail=lambda v: (1, singular(v[1])), ref=None, inplace='matdiv')
op('imatdiv3', n=2, call=_inplace_call(_op.itruediv), fail=None, ref=None, inplace='matdiv')   # Matrix3: reciprocal = transpose
op('ivmul', n=2, call=_inplace_call(_op.imul), fail=None, ref=None, inplace='vmul')
op('ivdiv', n=2, call=_inplace_call(_op.itruediv), fail=_div_fail, ref=None, inplace='vdiv')
op('ivmod', n=2, call=_inplace_call(_op.imod), fail=_div_fail, ref=None, inplace='mod')
op('ivfloordiv', n=2, call=_inplace_call(_op.ifloordiv), fail=_div_fail, ref=None, inplace='floordiv')
op('ivadd', n=2, call=_inplace_call(_op.iadd), fail=None, ref=None, inplace='add')
op('ivsub', n=2, call=_inplace_call(_op.isub), fail=None, ref=None, inplace='sub')

# ------------------------------------------------------------------ operand provenance: views of one parent object
def py_index(sel):
    """('i', k) -> k ; ('s', start, stop, step) -> slice"""
    if sel[0] == 'i':
        return sel[1]
    return slice(sel[1], sel[2], sel[3])


def child(par, sel):
    """the operand dict describing parent[sel] (values and expanded mask sliced with plain NumPy)"""
    cls, item, dt = KINDS[par['k']]
    idx = py_index(sel)
    v = np.array(par['v8'], dtype='int64').reshape(tuple(par['shape']) + item)[idx]
    bits = opd_mask_bits(par)[idx]
    shape = list(np.shape(bits))
    if par['mask'] in ('T', 'F'):
        m = par['mask']
    elif not shape:
        m = 'T' if bool(bits) else 'F'
    else:
        m = [bool(x) for x in np.asarray(bits).ravel()]
    return {'k': par['k'], 'shape': shape, 'v8': [int(x) for x in np.asarray(v).ravel()], 'mask': m}


# ------------------------------------------------------------------ the CALLER's NumPy floating-point error state
import contextlib


@contextlib.contextmanager
def ambient(state):
    """None: NumPy's default state, untouched.  'ignore' | 'warn' | 'raise': the call runs inside
    np.errstate(all=state); 'seterr-ignore': after a global np.seterr(all='ignore') (restored afterwards).
    What polymath returns must not depend on it."""
    if state is None:
        yield
    elif state.startswith('seterr-'):
        old = np.seterr(all=state.split('-', 1)[1])
        try:
            yield
        finally:
            np.seterr(**old)
    else:
        with np.errstate(all=state):
            yield


AMBIENT = ['ignore', 'warn', 'raise', 'seterr-ignore']

# ------------------------------------------------------------------ running the real code
def run_real(case):
    """-> (result or None, exception or None, [warning category names])"""
    spec = OPS[case['op']]
    objs = []
    if case.get('prov'):
        # the operands are distinct views (rows / slices / strided / reversed) of ONE parent object,
        # so their mask arrays share a base with different offsets
        parent = build(case['prov']['par'])
        objs = [parent[py_index(sel)] for sel in case['prov']['sels']]
    else:
        for k, o in enumerate(case['opds']):
            share = objs[0] if (case.get('share') and k == 1 and isinstance(objs[0], Qube)) else None
            objs.append(build(o, share))
    if case.get('alias'):                     # the very same object on both sides
        objs[1] = objs[0]
    if case.get('swap'):                      # reflected form: operands given in swapped order
        objs = objs[::-1]
    with warnings.catch_warnings(record=True) as w, ambient(case.get('errstate')):
        warnings.simplefilter('always')
        try:
            r = spec['call'](*objs, **case.get('params', {}))
            e = None
        except Exception as ex:
            r, e = None, ex
    return r, e, [x.category.__name__ for x in w]


def logical_opds(case):
    """operands in the order the OPERATION sees them (after swap)"""
    o = list(case['opds'])
    if case.get('alias'):
        o[1] = o[0]
    return o[::-1] if case.get('swap') else o


def lead_bcast(shapes):
    try:
        return list(np.broadcast_shapes(*[tuple(s) for s in shapes]))
    except ValueError:
        return None


def expected_mask(case):
    """operand masks broadcast onto the result OR the operation's failure set -- plain NumPy.
    Returns (shape, bool ndarray) or None when the operands do not broadcast."""
    spec = OPS[case['op']]
    opds = logical_opds(case)
    out = lead_bcast([o['shape'] for o in opds])
    if out is None:
        return None
    m = np.zeros(tuple(out), dtype=bool)
    for o in opds:
        m = m | np.broadcast_to(opd_mask_bits(o), tuple(out))
    f = fail_set(case)
    if f is not None:
        m = m | np.broadcast_to(f[1], tuple(out))
    return out, m


def fail_set(case):
    """(where, bool ndarray) computed from the operand VALUES (hidden ones included, as the code does)"""
    spec = OPS[case['op']]
    if spec['fail'] is None:
        return None
    if case.get('params', {}).get('check') is False or case.get('params', {}).get('nozeros') is True:
        return None
    opds = logical_opds(case)
    vals = [values_of(o).astype(float) if KINDS[o['k']][2] != 'bool' else values_of(o).astype(float) for o in opds]
    where, bits = spec['fail'](vals)
    return where, np.asarray(bits, dtype=bool)


def undefined_unmasked(case):
    """is some UNMASKED operand element outside the domain? (only then may a fast path raise ValueError;
    values hidden underneath a mask must not make it raise)"""
    spec = OPS[case['op']]
    opds = logical_opds(case)
    vals = [values_of(o).astype(float) for o in opds]
    where, bits = spec['fail'](vals)
    bits = np.asarray(bits, dtype=bool)
    out = lead_bcast([o['shape'] for o in opds])
    m = np.zeros(tuple(out), dtype=bool)
    for o in opds:
        m = m | np.broadcast_to(opd_mask_bits(o), tuple(out))
    bits = np.broadcast_to(bits, tuple(out)) & ~m
    return bool(bits.any())


# ------------------------------------------------------------------ wire forms
def mask_wire(o):
    """C01 wire form of an operand's mask (views stay views)"""
    m = o['mask'] if KINDS[o['k']][0] not in ('number', 'ndarray') else 'F'
    if m in ('T', 'F'):
        return m == 'T'
    if isinstance(m, dict):
        return ['V', list(m['view']), [bool(x) for x in m['bits']]]
    return [bool(x) for x in m]


def opd_wire(o):
    return [list(o['shape']), mask_wire(o)]


def fail_wire(shape, bits):
    if len(shape) == 0:
        return bool(np.asarray(bits).ravel()[0])
    return [list(shape), [bool(x) for x in np.asarray(bits).ravel()]]


def c02_opd(o, item=None):
    n = isz(o)
    if KINDS[o['k']][0] in ('number', 'ndarray'):
        m = False
    else:
        m = mask_sx(o['mask'], o['shape'])
    return [list(o['shape']), n, [int(x) for x in o['v8']], m]


def rat(v, lim=65536):
    """canonical exact rendering of a float that is (a rounding of) a small rational"""
    v = float(v)
    if not math.isfinite(v):
        return repr(v)
    fr = Fraction(v).limit_denominator(lim)
    if abs(float(fr) - v) <= 1e-11 * max(1.0, abs(v)):
        return str(fr.numerator) if fr.denominator == 1 else '%d/%d' % (fr.numerator, fr.denominator)
    return repr(v)
