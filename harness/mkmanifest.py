"""Writes /verif/MANIFEST.json from the table below (kept in one place so it stays valid)."""
import json, os
VERIF = os.path.dirname(os.path.dirname(os.path.abspath(__file__)))

CLAIMED = {
 'C14': dict(
   text='Kernel-checked theorems (PMV/Props/C14.lean) that the code-shaped element functions and lane reductions of the '
        'Lean model equal the documented truth tables (Kleene and/or/any/all for every lane length and every mask '
        'representation branch, strict &,|,^,~, ==/!= table with complement/symmetry/reflexivity, ordered comparisons, '
        'tvl_ comparisons, truth testing), tied to /repo on every run by a correspondence check that sends the same '
        'operands to the real polymath code and to the compiled model and diffs canonical outputs (exhaustive over '
        '{T,F,masked} arrays; all representations; all axes).',
   design='§3 C14', technique='Lean 4 proof (truth tables by case analysis, lanes by induction) + model/code correspondence',
   note='Trusted: Lean kernel; hand-written model Model/Logic3.lean (checked against the code by the correspondence run); '
        'NumPy axis handling. Empty-lane corner under a scalar True mask is known finding KF-C14-1.'),
}
PENDING = {}

def main():
    props = [json.loads(l) for l in open(os.path.join(VERIF, 'properties.jsonl'))]
    checks, na = [], []
    for p in props:
        pid = p['id']
        if pid in CLAIMED:
            c = CLAIMED[pid]
            checks.append({
                'property_id': pid,
                'quick_cmd': './check %s --tier quick' % pid,
                'thorough_cmd': './check %s --tier thorough' % pid,
                'evidence_file': 'evidence/%s.json' % pid,
                'replay_cmd_template': './check %s --replay {path}' % pid,
                'engine': 'lean-pmv',
                'level_claimed': {'category': 'proof', 'text': c['text'], 'design_ref': c['design']},
                'level_note': c['note'],
                'technique': c['technique'],
            })
        else:
            na.append({'property_id': pid, 'reason': PENDING.get(pid, 'model and theorems not built yet in this round; '
                       'see DESIGN.md §3 for the planned Lean proof (no other technique is substituted)')})
    m = {
        'version': 1,
        'setup_cmd': 'cd lean && lake build',
        'hooks': {'guard': 'POLYMATH_VERIF', 'enable': 'no hooks are needed: all observations use public attributes',
                  'baseline_off_cmd': 'cd /repo && /venv/bin/python -m pytest -ra -q -p no:cacheprovider --timeout=900 '
                                      '--continue-on-collection-errors',
                  'source_commits': [], 'add_only': True},
        'engines': [{'name': 'lean-pmv', 'path': 'lean', 'serves_properties': sorted(CLAIMED),
                     'kind_free_text': 'Lean 4 models + theorems (lake project PMV), compiled model driver, Python '
                                       'correspondence harness (harness/)'}],
        'checks': checks,
        'not_applicable': na,
        'notes': 'All checks: ./check Cnn --tier quick|thorough (cwd /verif, env VERIF_SEED). Exit 0 held, 1 violation, 2 infrastructure.',
    }
    json.dump(m, open(os.path.join(VERIF, 'MANIFEST.json'), 'w'), indent=1)

if __name__ == '__main__':
    main()
