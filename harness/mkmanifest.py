"""Writes /verif/MANIFEST.json from the table below (kept in one place so it stays valid)."""
import json, os
VERIF = os.path.dirname(os.path.dirname(os.path.abspath(__file__)))

import importlib, sys
sys.path.insert(0, os.path.dirname(os.path.abspath(__file__)))

def discover():
    """a property is claimed iff harness/cNN.py exists and defines MANIFEST (dict: text, design, technique, note)"""
    claimed, pending = {}, {}
    for i in range(1, 100):
        pid = 'C%02d' % i
        path = os.path.join(VERIF, 'harness', pid.lower() + '.py')
        if not os.path.exists(path):
            continue
        src = open(path).read()
        ns = {}
        # MANIFEST / NOT_APPLICABLE are plain literals at module level; evaluate just those assignments
        import ast
        for node in ast.parse(src).body:
            if isinstance(node, ast.Assign) and len(node.targets) == 1 and isinstance(node.targets[0], ast.Name) \
                    and node.targets[0].id in ('MANIFEST', 'NOT_APPLICABLE'):
                ns[node.targets[0].id] = ast.literal_eval(node.value)
        if 'MANIFEST' in ns:
            claimed[pid] = ns['MANIFEST']
        elif 'NOT_APPLICABLE' in ns:
            pending[pid] = ns['NOT_APPLICABLE']
    return claimed, pending

CLAIMED, PENDING = discover()

def main():
    props = [json.loads(l) for l in open(os.path.join(VERIF, 'properties.jsonl'))]
    checks, na = [], []
    for p in props:
        pid = p['id']
        if pid in CLAIMED:
            c = CLAIMED[pid]
            checks.append({
                'property_id': pid,
                'quick_cmd': './check %s --tier quick' % pid,
                'thorough_cmd': './check %s --tier thorough' % pid,
                'evidence_file': 'evidence/%s.json' % pid,
                'replay_cmd_template': './check %s --replay {path}' % pid,
                'engine': 'lean-pmv',
                'level_claimed': {'category': 'proof', 'text': c['text'], 'design_ref': c['design']},
                'level_note': c['note'],
                'technique': c['technique'],
            })
        else:
            na.append({'property_id': pid, 'reason': PENDING.get(pid, 'model and theorems not built yet in this round; '
                       'see DESIGN.md §3 for the planned Lean proof (no other technique is substituted)')})
    m = {
        'version': 1,
        'setup_cmd': '/venv/bin/python harness/setup.py',
        'hooks': {'guard': 'POLYMATH_VERIF', 'enable': 'no hooks are needed: all observations use public attributes',
                  'baseline_off_cmd': 'cd /repo && /venv/bin/python -m pytest -ra -q -p no:cacheprovider --timeout=900 '
                                      '--continue-on-collection-errors',
                  'source_commits': [], 'add_only': True},
        'engines': [{'name': 'lean-pmv', 'path': 'lean', 'serves_properties': sorted(CLAIMED),
                     'kind_free_text': 'Lean 4 models + theorems (lake project PMV), compiled model driver, Python '
                                       'correspondence harness (harness/)'}],
        'checks': checks,
        'not_applicable': na,
        'notes': 'All checks: ./check Cnn --tier quick|thorough (cwd /verif, env VERIF_SEED). Exit 0 held, 1 violation, 2 infrastructure.',
    }
    json.dump(m, open(os.path.join(VERIF, 'MANIFEST.json'), 'w'), indent=1)

if __name__ == '__main__':
    main()
