"""C20 histories on ONE Polynomial object: query (deriv / eval / roots / arithmetic), modify the RESULT in place, query
again.  Demanded (C20 only):
  * every query call leaves the polynomial and its other operands as they were immediately before that call;
  * every answer equals the answer of a polynomial freshly built from the polynomial's CURRENT state at the time of
    the call (c20_oracle judges single calls against numpy.poly*), whatever was done to earlier results.
Not demanded: that modifying a result in place leaves the polynomial unchanged (results may share storage with it).

Direct oracle only (the functional Lean model has no object identity); judged on the real code."""
import struct, warnings
import numpy as np
from absn import *
import common as C
from polymath import Polynomial


def mkpoly_d(o):
    vals = np.array(o['vals'], dtype=float).reshape(list(o['shape']) + [o['len']])
    p = Polynomial(vals, mk_mask(o['mask'], o['shape']))
    if o.get('d') is not None:
        p.insert_deriv('t', Polynomial(np.array(o['d'], dtype=float).reshape(list(o['shape']) + [o['len']])))
    return p


def fbits(x):
    return struct.unpack('<Q', struct.pack('<d', float(x) + 0.0))[0]


def dump(r, depth=0):
    """canonical content of a result: class, shape, expanded mask, value bits at unmasked places, derivatives"""
    if isinstance(r, (bool, int, float, np.bool_, np.floating, np.integer)):
        return ['py', fbits(r)]
    assert isinstance(r, Qube), type(r)
    item = tuple(r._numer_) + tuple(getattr(r, '_denom_', ()))
    m = expanded_mask(r).ravel()
    v = np.broadcast_to(np.asarray(r._values_, dtype=float), tuple(r._shape_) + item).reshape(len(m), -1)
    cells = ['m' if m[i] else [fbits(x) for x in v[i]] for i in range(len(m))]
    ders = []
    if depth == 0:
        ders = [[k, dump(d, 1)] for k, d in sorted(r._derivs_.items())]
    return [type(r).__name__, list(r._shape_), list(item), cells, ders]


def operand(q):
    """the other operand of a query, built once so that it can be snapshotted"""
    if q[0] == 'eval':
        return Scalar(np.array(q[1], dtype=float).reshape(q[2]))
    if q[0] in ('add', 'sub', 'rsub', 'mul'):
        return mkpoly_d(q[1])
    return None


def query(p, q, other):
    k = q[0]
    if k == 'deriv': return p.deriv(recursive=bool(q[1]))
    if k == 'eval': return p.eval(other)
    if k == 'roots': return p.roots()
    if k == 'neg': return -p
    if k == 'smul': return p * float(q[1])
    if k == 'pow': return p ** int(q[1])
    if k == 'invline': return p.invert_line()
    if k == 'add': return p + other
    if k == 'sub': return p - other
    if k == 'rsub': return p.__rsub__(other)
    if k == 'mul': return p * other
    raise KeyError(k)


def rebuild(p):
    """a polynomial freshly built from the CURRENT content of p (new arrays, no cache, no shared objects)"""
    def one(x):
        m = x._mask_
        m = np.array(m, copy=True) if isinstance(m, np.ndarray) else bool(m)
        return Polynomial(np.array(x._values_, dtype=float, copy=True), m)
    f = one(p)
    for k, d in p._derivs_.items():
        f.insert_deriv(k, one(d))
    return f


def mutate(r, mut):
    """modify a result in place, the way its owner may; returns False if this result cannot be modified that way"""
    k = mut[0]
    if not isinstance(r, Qube):
        return False
    try:
        if k == 'imul':
            r *= float(mut[1])
        elif k == 'idiv':
            r /= float(mut[1])
        elif k == 'iadd':
            if isinstance(r, Polynomial):
                r += Polynomial(np.full(r._numer_, float(mut[1])))
            else:
                r += float(mut[1])
        elif k == 'isub':
            if isinstance(r, Polynomial):
                r -= Polynomial(np.full(r._numer_, float(mut[1])))
            else:
                r -= float(mut[1])
        elif k == 'setitem':
            if isinstance(r, Polynomial):
                val = Polynomial(np.full(r._numer_, float(mut[1])))
            else:
                val = Scalar(float(mut[1]))
            if r._shape_:
                r[0] = val
            else:
                r[...] = val
        elif k == 'insert_deriv':
            z = type(r)(np.full(tuple(r._shape_) + tuple(r._numer_), float(mut[1])))
            r.insert_deriv('u', z, override=True)
        elif k == 'delete_derivs':
            r.delete_derivs()
        else:
            raise KeyError(k)
    except (ValueError, TypeError, IndexError):
        return False                      # e.g. a read-only or zero-size result: nothing was modified
    return True


def run_query(p, q):
    try:
        with warnings.catch_warnings():
            warnings.simplefilter('error')
            return dump(query(p, q, operand(q)))
    except Exception as e:
        return C.exc_name(e)


def qname(q):
    return q[0] + (':wod' if q[0] == 'deriv' and not q[1] else '')


def judge(case):
    a, steps = case['a'], case['steps']
    p = mkpoly_d(a)
    for i, st in enumerate(steps):
        q = st['q']
        prev = [(qname(s['q']), s['mut'][0]) for s in steps[:i] if s.get('mut')]
        hist = 'first call' if not prev else 'after ' + ', '.join('%s-result %s' % x for x in prev)
        same = [x for x in prev if x[0] == qname(q)]
        when = 'fresh-call' if not prev else ('after-own-result-modified' if same else 'after-other-result-modified')
        # the reference: a polynomial freshly built from p as it is NOW
        want = run_query(rebuild(p), q)
        other = operand(q)
        p_before = dump(p)
        o_before = dump(other) if other is not None else None
        try:
            with warnings.catch_warnings():
                warnings.simplefilter('error')
                r = query(p, q, other)
                got = dump(r)
        except Exception as e:
            r, got = None, C.exc_name(e)
        if dump(p) != p_before:
            return ('hist:%s:self-modified' % qname(q), '%s() changed the polynomial %s it was called on [%s]'
                    % (qname(q), a['vals'], hist))
        if other is not None and dump(other) != o_before:
            return ('hist:%s:operand-modified' % qname(q), '%s() changed its other operand [%s]' % (qname(q), hist))
        if got != want:
            return ('hist:%s:%s' % (qname(q), when),
                    'history on one Polynomial %s: %s() answers %s, a polynomial freshly built from its current state '
                    'answers %s [history: %s]' % (a['vals'], qname(q), C.sx(got)[:300], C.sx(want)[:300], hist))
        if st.get('mut') and r is not None:
            mutate(r, st['mut'])
    return None
