"""C18 harness internals: objects, alphabet, tracer (statement-level, sys.settrace), traced run -> request line and
canonical observation, twin run (cache on / Qube.DISABLE_CACHE=True) -> direct oracle."""
import operator, os, sys
import numpy as np
import polymath
from polymath import Qube, Scalar, Boolean, Vector, Vector3, Pair, Matrix, Matrix3, Quaternion, Polynomial, Units
import common as C
import c18_py2lean as T2

KEYS = ('antimask', 'corners', 'slicer', 'wod', 'unshrunk', 'shrunk')


# ------------------------------------------------------------------------------------------------ objects
def _s3m(): return Scalar(np.array([1., 2., 3.]), np.array([False, True, False]))
def _s3(): return Scalar(np.array([1., 2., 3.]))
def _s0(): return Scalar(1.5)
def _s0d():
    a = Scalar(1.5); a.insert_deriv('t', Scalar(2.)); return a
def _s3d():
    a = Scalar(np.array([1., 2., 3.]), np.array([False, False, True]))
    a.insert_deriv('t', Scalar(np.array([.5, .25, 2.]))); return a
def _s23m(): return Scalar(np.arange(6.).reshape(2, 3), np.array([[True, False, True], [True, False, False]]))
def _i3(): return Scalar(np.array([5, 6, 7]), np.array([False, False, True]))
def _i0d():
    a = Scalar(5); a.insert_deriv('t', Scalar(2.)); return a
def _b3(): return Boolean(np.array([True, False, True]), np.array([False, True, False]))
def _b0(): return Boolean(True)
def _v2d():
    a = Vector(np.arange(6.).reshape(2, 3), np.array([False, True]))
    a.insert_deriv('t', Vector(np.ones((2, 3)))); return a
def _v0(): return Vector3(np.array([1., 2., 3.]))
def _m2(): return Matrix(np.arange(8.).reshape(2, 2, 2) + 1.)
def _s3ro():
    a = _s3d(); return a.as_readonly()

def _m3():
    c, s_ = np.cos(.5), np.sin(.5)
    return Matrix3(np.array([np.eye(3), [[c, s_, 0.], [-s_, c, 0.], [0., 0., 1.]]]))
def _q2(): return Quaternion(np.array([[1., 0., 0., 0.], [.5, .5, .5, .5]]), np.array([False, True]))
def _p2():
    a = Polynomial(np.array([[1., 2., 3.], [0., 1., 4.]]))
    return a
def _pr2(): return Pair(np.array([[1, 2], [3, 4]]), np.array([True, False]))
def _s3dd():
    a = Scalar(np.array([1., 2., 3.]), np.array([False, True, False]))
    a.insert_deriv('t', Scalar(np.array([.5, .25, 2.])))
    a.insert_deriv('xy', Scalar(np.arange(6.).reshape(3, 2) + 1., drank=1))       # a derivative with a denominator
    return a
def _s23bm():
    # a writable array of values under a READ-ONLY broadcast view as mask (a mask shared by broadcasting)
    return Scalar(np.arange(6.).reshape(2, 3), np.broadcast_to(np.array([False, True, False]), (2, 3)))

def _s0du():
    # an object that already carries units (km) and a derivative: a unit change of another SCALE is one step away
    a = Scalar(1.5, units=Units.KM); a.insert_deriv('t', Scalar(2., units=Units.KM)); return a
def _s3du():
    a = Scalar(np.array([1., 2., 3.]), np.array([False, True, False]), units=Units.RAD)
    a.insert_deriv('t', Scalar(np.array([.5, .25, 2.]), units=Units.RAD)); return a

OBJECTS = {'S0du': _s0du, 'S3du': _s3du, 'M3': _m3, 'Q2': _q2, 'P2': _p2, 'Pr2': _pr2, 'S3dd': _s3dd, 'S23bm': _s23bm, 'S3m': _s3m, 'S3': _s3, 'S0': _s0, 'S0d': _s0d, 'S3d': _s3d, 'S23m': _s23m, 'I3': _i3, 'I0d': _i0d,
           'B3': _b3, 'B0': _b0, 'V2d': _v2d, 'V0': _v0, 'M2': _m2, 'S3ro': _s3ro}

DERIVED = {'plus1': lambda a: a + 1, 'minus1': lambda a: a - 1, 'times2': lambda a: a * 2, 'div2': lambda a: a / 2,
           'floordiv2': lambda a: a // 2, 'mod2': lambda a: a % 2, 'div0': lambda a: a / 0}
QUERIES = ['q:antimask', 'q:corners', 'q:slicer', 'q:wod', 'q:count', 'shun:arr', 'shun:F', 'shun:T', 'unheld',
           # entirely masked results / nothing selected, with and without shape=
           'shun:arr:ns', 'shun:F:ns', 'shun:am0', 'shun:am0:ns', 'shun:amm', 'shun:amm:ns', 'unheld:ns',
           'q:median', 'holdw', 'q:heldw'] + ['q:' + k for k in DERIVED]
ARITH = ['iadd', 'isub', 'imul', 'itruediv', 'ifloordiv', 'imod', 'ipow']
LOGIC = ['iand', 'ior', 'ixor']
# divisors whose VALUES mask the result (zeros at some positions / the number 0) although they carry no mask
DIVS = ['itruediv', 'ifloordiv', 'imod']
MUTS = ([o + ':' + k for o in ARITH for k in ('num', 'arr', 'obj', 'objm', 'objT', 'objd')] +
        [o + ':' + k for o in DIVS for k in ('zero', 'objz', 'arrz', 'objzd')] +
        [o + ':' + k for o in LOGIC for k in ('bool', 'arr', 'obj', 'objm', 'objT')] +
        ['set:0:num', 'set:0:masked', 'set:sl:obj', 'set:sl:objm', 'set:all:num', 'set:all:objd', 'set:bm:num',
         'set:mi:num'] +
        # REJECTED calls: a right-hand side / operand whose shape does not fit (unmasked, mask True, array mask)
        ['set:sl:bad', 'set:sl:badT', 'set:sl:badm', 'set:bm:badT', 'iadd:bad', 'iadd:badT', 'isub:badarr', 'imul:bad',
         'itruediv:badT', 'iand:bad'] +
        ['insd:t', 'insd:u', 'insds', 'deld:t', 'deld:zz', 'delds', 'delds:pt',
         'units:km', 'units:none', 'units:sec', 'ro', 'ro:nr', 'hold:arr', 'hold:am0', 'hold:amm'] +
        # compatible units of a DIFFERENT SCALE (km -> m, rad -> deg, s -> min): only the scale factor changes
        ['units:m', 'units:deg', 'units:rad', 'units:min'] +
        # non-default argument forms (the override forms also work on a read-only object)
        ['deld:t:o', 'delds:o', 'units:km:o', 'insd:t:no', 'insds:o'])


# mutators applied to the HELD SHRUNK object s (read-only): what is allowed on a read-only object, the override
# forms, and a rejected item assignment; followed by `unheld` they show whether s's cached original is still right
SOPS = ['s:insd', 's:deld:o', 's:units:o', 's:set', 's:insds']


def is_query(op):
    return op in QUERIES


def expects_mutator(op):
    """operations that must show up as a call of a table mutator on the object (there is no `__ipow__`:
    `a **= x` rebinds the name; `hold` only shrinks)"""
    return op in MUTS and not op.startswith(('ipow', 'hold'))


def _alphabet(name):
    ops = list(QUERIES) + list(MUTS) + list(SOPS)
    if name.startswith('B'):
        ops = [o for o in ops if o != 'q:median']
    if not name.startswith(('S', 'I')):
        ops = [o for o in ops if o != 'q:median']
    return ops

ALPHABET = {n: _alphabet(n) for n in OBJECTS}

_CQ = ['q:antimask', 'q:corners', 'q:slicer', 'q:wod']
COMPACT = {
    'S3m': _CQ + ['set:sl:badT', 'iadd:bad', 'iadd:num', 'imul:objm', 'set:0:masked', 'set:sl:obj', 'insd:t', 'units:km', 'ro', 'shun:arr', 'shun:amm:ns', 'shun:am0:ns', 'q:times2'],
    'S3': _CQ + ['set:sl:badT', 'set:sl:badm', 'isub:arr', 'itruediv:zero', 'imod:objm', 'imod:objz', 'ifloordiv:arrz', 'set:bm:num', 'set:mi:num', 'insd:t', 'deld:t', 'hold:arr', 'unheld', 'shun:am0:ns', 's:insd', 's:units:o'],
    'S0': _CQ + ['iadd:num', 'imul:num', 'iadd:objm', 'set:all:num', 'set:sl:objm', 'insd:t', 'shun:arr', 'ro'],
    'S0d': _CQ + ['iadd:num', 'isub:arr', 'imul:num', 'itruediv:num', 'imod:num', 'ifloordiv:num', 'imod:objz', 'itruediv:objzd', 'deld:t', 'units:km', 'units:m', 'ro', 'ro:nr', 'q:plus1'],
    'S3d': _CQ + ['set:sl:badT', 'imul:bad', 'iadd:num', 'imul:num', 'iadd:objd', 'imul:objm', 'set:0:masked', 'delds', 'ro', 'ro:nr', 'shun:arr', 'holdw', 'q:heldw'],
    'S23m': _CQ + ['set:sl:badT', 'set:bm:badT', 'set:0:num', 'set:sl:objm', 'iadd:objm', 'imul:objT', 'shun:arr', 'hold:arr', 'unheld', 'unheld:ns', 'hold:amm', 'shun:amm:ns', 's:insd', 's:deld:o', 'q:mod2', 'imod:arrz', 'itruediv:objz'],
    'I3': _CQ + ['iand:objm', 'ior:arr', 'ixor:obj', 'iadd:num', 'ifloordiv:obj', 'ifloordiv:objz', 'imod:objm', 'imod:zero', 'insd:t'],
    'I0d': _CQ + ['iand:bool', 'ior:objm', 'iadd:num', 'imul:num', 'deld:t', 'ro'],
    'B3': _CQ + ['set:sl:bad', 'iand:bad', 'iand:objm', 'ior:objm', 'ixor:objm', 'iand:bool', 'ior:arr', 'set:0:masked', 'shun:arr'],
    'B0': _CQ + ['iand:objm', 'ior:bool', 'ixor:objT', 'set:all:num', 'set:sl:objm', 'ro'],
    'V2d': _CQ + ['iadd:objm', 'imul:num', 'imul:objm', 'itruediv:num', 'itruediv:objz', 'set:0:masked', 'deld:t', 'units:km', 'units:m'],
    'V0': _CQ + ['iadd:obj', 'imul:num', 'imul:objT', 'set:all:num', 'insd:t'],
    'M2': _CQ + ['imul:num', 'imul:obj', 'iadd:objm', 'set:0:masked', 'ro'],
    'S3ro': _CQ + ['iadd:num', 'insd:u', 'deld:t', 'deld:t:o', 'units:km', 'units:km:o', 'units:deg', 'units:rad', 'set:0:num', 'shun:arr'],
    'S0du': _CQ + ['units:m', 'units:km', 'units:none', 'iadd:num', 'imul:num', 'q:plus1'],
    'S3du': _CQ + ['units:deg', 'units:rad', 'iadd:objm', 'imul:num', 'set:0:masked', 'shun:arr'],
    'M3': _CQ + ['imul:obj', 'imul:num', 'itruediv:num', 'itruediv:objz', 'set:0:masked', 'insd:t'],
    'Q2': _CQ + ['imul:num', 'iadd:objm', 'itruediv:objz', 'set:0:masked', 'ro'],
    'P2': _CQ + ['iadd:obj', 'isub:objm', 'imul:num', 'itruediv:num', 'itruediv:objz', 'set:0:masked'],
    'Pr2': _CQ + ['iadd:objm', 'imul:num', 'ifloordiv:objz', 'imod:zero', 'iand:objm', 'set:sl:obj'],
    'S3dd': _CQ + ['iadd:num', 'imul:num', 'imul:objd', 'itruediv:objzd', 'set:0:masked', 'deld:t', 'deld:xy', 'shun:arr'],
    'S23bm': _CQ + ['iadd:num', 'iadd:objm', 'set:0:num', 'set:bm:num', 'imod:arrz', 'shun:arr', 'ro'],
}


# the quick tier goes to depth 3 only over these (4 queries + 5 symbols per object: at least one rejected call, one
# value-masking divisor, set_units, the held wod / held shrunk object, a clone fast path, `a[:] = v`); depth <= 2 uses
# the full compact alphabets above; everything else is left to the thorough tier
QUICK3 = {
    'S3m': _CQ + ['set:sl:badT', 'imul:objm', 'units:km', 'set:0:masked', 'iadd:num'],
    'S3': _CQ + ['set:sl:badm', 'imod:objz', 'hold:arr', 'unheld', 's:insd'],
    'S0': _CQ + ['iadd:num', 'set:all:num', 'set:sl:objm', 'iadd:objm', 'shun:arr'],
    'S0d': _CQ + ['iadd:num', 'units:m', 'imod:objz', 'units:km', 'q:plus1'],
    'S3d': _CQ + ['imul:objm', 'ro:nr', 'holdw', 'q:heldw', 'ro'],
    'S23m': _CQ + ['set:bm:badT', 'set:sl:objm', 'imod:arrz', 'shun:arr', 'iadd:objm'],
    'I3': _CQ + ['iand:objm', 'imod:zero', 'ifloordiv:objz', 'iadd:num', 'insd:t'],
    'I0d': _CQ + ['iand:bool', 'ior:objm', 'iadd:num', 'imul:num', 'deld:t'],
    'B3': _CQ + ['set:sl:bad', 'iand:objm', 'ixor:objm', 'ior:arr', 'set:0:masked'],
    'B0': _CQ + ['iand:objm', 'ixor:objT', 'set:all:num', 'set:sl:objm', 'ro'],
    'V2d': _CQ + ['iadd:objm', 'imul:objm', 'itruediv:objz', 'set:0:masked', 'units:km'],
    'V0': _CQ + ['iadd:obj', 'imul:objT', 'set:all:num', 'insd:t', 'imul:num'],
    'M2': _CQ + ['imul:obj', 'iadd:objm', 'set:0:masked', 'imul:num', 'ro'],
    'S3ro': _CQ + ['iadd:num', 'insd:u', 'deld:t:o', 'units:km:o', 'shun:arr'],
}


# ------------------------------------------------------------------------------------------------ operations
def _same(a, kind):
    """an operand of a's class and shape: obj (unmasked), objm (array/partial mask), objT (mask True), objd (+deriv)"""
    cls = type(a)
    vshape = np.shape(a._values_)
    if a.is_bool():
        vals = np.ones(vshape, dtype=bool) if vshape else True
    elif a.is_int():
        vals = np.full(vshape, 3) if vshape else 3
    else:
        vals = np.full(vshape, 2.) if vshape else 2.
    if isinstance(vals, np.ndarray) and vals.size:
        vals.flat[0] = vals.flat[0] * 0 + 1
    if kind == 'objm':
        if a._shape_:
            m = np.zeros(a._shape_, dtype=bool); m.flat[-1] = True
        else:
            m = True
    elif kind == 'objT':
        m = True
    else:
        m = False
    b = cls(vals, m)
    if kind == 'objd' and b.is_float() and cls.DERIVS_OK:
        b.insert_deriv('t', cls(vals))
        b.insert_deriv('w', cls(vals))
    return b


def _scalar_like(a, kind):
    """a Scalar operand of a's leading shape (for *, /, //, %)"""
    if a._shape_:
        vals = np.full(a._shape_, 2.); vals.flat[0] = 4.
        if a.is_int():
            vals = vals.astype(int)
    else:
        vals = 2 if a.is_int() else 2.
    if kind in ('objz', 'objzd'):
        # unmasked, zero at the last position (the only position of a shapeless operand)
        if a._shape_:
            vals.flat[-1] = 0
        else:
            vals = 0 if a.is_int() else 0.
    if kind == 'objm':
        if a._shape_:
            m = np.zeros(a._shape_, dtype=bool); m.flat[-1] = True
        else:
            m = True
    elif kind == 'objT':
        m = True
    else:
        m = False
    b = Scalar(vals, m)
    if kind in ('objd', 'objzd') and b.is_float():
        b.insert_deriv('t', Scalar(vals)); b.insert_deriv('w', Scalar(vals))
    return b


def _bad(a, kind, scalar=False):
    """an operand whose leading shape (last axis one longer than a's, or (5,) for a shapeless a's slice) cannot be
    broadcast into a: kind bad (unmasked) | badT (mask True) | badm (array mask) | badarr (plain ndarray)"""
    shape = (a._shape_[:-1] + (a._shape_[-1] + 1,)) if a._shape_ else (5,)
    item = () if scalar else a._item_
    if a.is_bool() and not scalar:
        vals = np.ones(shape + item, dtype=bool)
    elif a.is_int():
        vals = np.full(shape + item, 3)
    else:
        vals = np.full(shape + item, 3.)
    if kind == 'badarr':
        return vals
    m = False
    if kind == 'badT':
        m = True
    elif kind == 'badm':
        m = np.zeros(shape, dtype=bool); m.flat[0] = True
    return (Scalar if scalar else type(a))(vals, m)


def _antimask_arg(a):
    if a._shape_:
        am = np.ones(a._shape_, dtype=bool); am.flat[0] = False
        return am
    return np.array(True)


def _am(a, kind):
    """antimask arguments: arr (first element dropped), F, T, am0 (an ARRAY of False: nothing selected), amm (exactly
    the masked elements selected: an entirely masked result)"""
    if kind == 'arr': return _antimask_arg(a)
    if kind == 'F': return False
    if kind == 'T': return True
    if kind == 'am0': return np.zeros(a._shape_, dtype=bool) if a._shape_ else np.array(False)
    if kind == 'amm':
        return np.broadcast_to(np.asarray(a._mask_, dtype=bool), a._shape_).copy() if a._shape_ else np.array(bool(a._mask_))
    raise KeyError(kind)


IOPS = {'iadd': operator.iadd, 'isub': operator.isub, 'imul': operator.imul, 'itruediv': operator.itruediv,
        'ifloordiv': operator.ifloordiv, 'imod': operator.imod, 'ipow': operator.ipow,
        'iand': operator.iand, 'ior': operator.ior, 'ixor': operator.ixor}


def apply_op(st, op):
    """run one operation on st['a']; returns the canonical ANSWER (queries) or 'ok' (mutators); exceptions propagate"""
    a = st['a']
    p = op.split(':')
    h = p[0]
    if h == 'q' and p[1] != 'heldw':
        what = p[1]
        if what == 'antimask': return canon_bools(a.antimask, a._shape_)
        if what == 'corners': return canon_corners(a.corners)
        if what == 'slicer': return canon_slicer(a._slicer)
        if what == 'wod': return canon_obj(a.wod)
        if what == 'count': return int(a.count_masked())
        if what == 'median': return canon_obj(a.median())
        if what in DERIVED:
            # a NEW object that starts with a copy of a's cache (clone(retain_cache=True) fast paths)
            b = DERIVED[what](a)
            born_stale = stale_entries(b, 'new') if isinstance(b, Qube) else []
            return [canon_obj(b), canon_bools(b.antimask, b._shape_), canon_corners(b.corners), canon_obj(b.wod),
                    ['stale'] + born_stale]
    if h == 'holdw':
        # keep the derivative-free twin that a.wod hands out (a view object in its own right)
        w = a.wod
        if w is a:
            st['w'] = None
            return 'self'
        if w._cache_ is a._cache_:
            # foreign defect (C17, fixed by b114b78 on wt-C17): the clone shares the parent's cache DICTIONARY;
            # questions asked of w would then be answered into a's cache.  Not exercised until merged.
            st['w'] = None
            return 'shares-cache-dict'
        st['w'] = w
        return 'ok'
    if h == 'q' and p[1] == 'heldw':
        w = st.get('w')
        if w is None:
            return 'none'
        born = stale_entries(w, 'heldwod')
        return [canon_bools(w.antimask, w._shape_), canon_corners(w.corners), canon_obj(w, ro=False), ['stale'] + born]
    if h == 'shun':
        am = _am(a, p[1])
        s = a.shrink(am)
        # with `ns`: no shape= (an entirely masked result is then a shapeless masked object)
        r = s.unshrink(am) if p[-1] == 'ns' else s.unshrink(am, a._shape_)
        return canon_obj(r, ro=False)
    if h == 'hold':
        am = _am(a, p[1])
        st['s'] = a.shrink(am); st['am'] = am
        # evidence for the classification of finding KF-C18-1 (never used to judge the property)
        st['held_state'] = canon_obj(a, ro=False)
        if Qube.DISABLE_CACHE and st['s'] is not a:
            # without the cache un-shrinking neither reads nor pops anything: the answer at shrink time
            st['held_snapshot'] = canon_obj(st['s'].unshrink(am, a._shape_), ro=False)
        return 'ok'
    if h == 'unheld':
        if st.get('s') is None:
            return 'none'
        st['now_state'] = canon_obj(a, ro=False)
        try:
            st['now_reference'] = canon_obj(a.mask_where(np.logical_not(st['am'])), ro=False)
        except Exception:
            st['now_reference'] = None
        if p[-1] == 'ns':
            return canon_obj(st['s'].unshrink(st['am']), ro=False)
        return canon_obj(st['s'].unshrink(st['am'], a._shape_), ro=False)
    if h in IOPS:
        k = p[1]
        if h in ('iand', 'ior', 'ixor') and not k.startswith('bad'):
            if k == 'bool': arg = True
            elif k == 'arr': arg = np.ones(a._shape_, dtype=bool) if a._shape_ else np.bool_(True)
            else:
                vs = a._shape_
                vals = np.ones(vs, dtype=bool) if vs else True
                m = False
                if k == 'objm':
                    if vs:
                        m = np.zeros(vs, dtype=bool); m.flat[-1] = True
                    else:
                        m = True
                if k == 'objT': m = True
                arg = Boolean(vals, m)
        elif k.startswith('bad'):
            if h in ('iand', 'ior', 'ixor'):
                arg = Boolean(np.ones((a._shape_[-1] + 1,) if a._shape_ else (5,), dtype=bool), k == 'badT')
            else:
                arg = _bad(a, k, scalar=h not in ('iadd', 'isub'))
        elif k == 'num': arg = 2 if a.is_int() and h not in ('itruediv',) else 2.
        elif k == 'zero': arg = 0
        elif k == 'arr':
            arg = np.full(np.shape(a._values_), 2 if a.is_int() else 2.) if np.shape(a._values_) else \
                np.array(2 if a.is_int() else 2.)
        elif k == 'arrz':
            # a plain ndarray of the leading shape with a zero at the last position
            arg = np.full(a._shape_, 2 if a.is_int() else 2.)
            if a._shape_:
                arg.flat[-1] = 0
            else:
                arg = np.array(0 if a.is_int() else 0.)
        elif h in ('iadd', 'isub'):
            arg = _same(a, k)
        else:
            arg = _scalar_like(a, k) if not (isinstance(a, Matrix) and h == 'imul' and k == 'obj') else _same(a, k)
        IOPS[h](a, arg)
        return 'ok'
    if h == 'set':
        idx = {'0': 0, 'sl': slice(0, 2), 'all': Ellipsis, 'bm': None, 'mi': None}[p[1]]
        if not a._shape_:
            idx = () if p[1] in ('0', 'all') else Ellipsis
        elif p[1] == 'bm':
            idx = np.zeros(a._shape_, dtype=bool); idx.flat[0] = True; idx.flat[-1] = True
        elif p[1] == 'mi':
            idx = Scalar(np.array([0, 1]), np.array([False, True]))
        k = p[2]
        if k.startswith('bad'):
            val = _bad(a, k)
        elif k == 'num':
            val = True if a.is_bool() else (7 if a.is_int() else 7.)
            if a._rank_:
                val = type(a)(np.full(a._item_, val))
        elif k == 'masked':
            val = type(a)(np.ones(a._item_, dtype=a._values_.dtype if isinstance(a._values_, np.ndarray) else type(a._values_)) if a._item_
                          else (True if a.is_bool() else 1 if a.is_int() else 1.), True)
        else:
            b = _same(a, k)
            val = b[idx] if a._shape_ else b
        a[idx] = val
        return 'ok'
    if h == 's':
        s_ = st.get('s')
        if s_ is None or s_ is a:
            return 'none'
        what = p[1]
        vs = np.shape(s_._values_)
        if what == 'insd':
            s_.insert_deriv('t', type(s_)(np.full(vs, .5) if vs else .5))
        elif what == 'insds':
            s_.insert_derivs({'t': type(s_)(np.full(vs, .25) if vs else .25),
                              'v': type(s_)(np.full(vs, 4.) if vs else 4.)}, override=True)
        elif what == 'deld':
            s_.delete_deriv('t', override=True)
        elif what == 'units':
            s_.set_units(Units.KM, override=True)
        elif what == 'set':
            s_[0] = 7.
        return 'ok'
    if h == 'insd' and len(p) > 2:
        cls = type(a)
        vs = np.shape(a._values_)
        a.insert_deriv(p[1], cls(np.full(vs, .75) if vs else .75), override=False)
        return 'ok'
    if h == 'insds' and len(p) > 1:
        cls = type(a)
        vs = np.shape(a._values_)
        a.insert_derivs({'t': cls(np.full(vs, .25) if vs else .25)}, override=True)
        return 'ok'
    if h == 'deld' and len(p) > 2:
        a.delete_deriv(p[1], override=True); return 'ok'
    if h == 'delds' and len(p) > 1 and p[1] == 'o':
        a.delete_derivs(override=True); return 'ok'
    if h == 'units' and len(p) > 2:
        a.set_units({'km': Units.KM}[p[1]], override=True); return 'ok'
    if h == 'insd':
        cls = type(a)
        vs = np.shape(a._values_)
        a.insert_deriv(p[1], cls(np.full(vs, .5) if vs else .5))
        return 'ok'
    if h == 'insds':
        cls = type(a)
        vs = np.shape(a._values_)
        a.insert_derivs({'t': cls(np.full(vs, .25) if vs else .25), 'v': cls(np.full(vs, 4.) if vs else 4.)})
        return 'ok'
    if h == 'deld':
        a.delete_deriv(p[1]); return 'ok'
    if h == 'delds':
        if len(p) > 1: a.delete_derivs(preserve=['t'])
        else: a.delete_derivs()
        return 'ok'
    if h == 'units':
        a.set_units({'km': Units.KM, 'none': None, 'sec': Units.SECONDS, 'm': Units.M, 'deg': Units.DEG,
                     'rad': Units.RAD, 'min': Units.MIN}[p[1]]); return 'ok'
    if h == 'ro':
        if len(p) > 1: a.as_readonly(recursive=False)
        else: a.as_readonly()
        return 'ok'
    raise KeyError(op)


# ------------------------------------------------------------------------------------------------ canonical forms
def canon_bools(x, shape):
    return [bool(v) for v in np.broadcast_to(np.asarray(x, dtype=bool), shape).ravel()]


def canon_corners(c):
    if c is None:
        return 'None'
    return [[int(v) for v in c[0]], [int(v) for v in c[1]]]


def canon_slicer(s):
    return [[int(x.start), int(x.stop)] for x in s]


def _vals(q, parent_mask=False):
    """values at unmasked elements only (hidden values are not observable), as reprs"""
    v = np.asarray(q._values_)
    m = np.broadcast_to(np.asarray(q._mask_, dtype=bool) | np.asarray(parent_mask, dtype=bool), q._shape_)
    v = np.broadcast_to(v, q._shape_ + q._item_) if v.shape != q._shape_ + q._item_ and v.ndim <= len(q._shape_ + q._item_) else v
    out = []
    if v.shape[:len(q._shape_)] != q._shape_:
        return ['malformed:%s' % (v.shape,)]
    flat_m = m.ravel()
    vv = v.reshape((int(np.prod(q._shape_, dtype=int)),) + q._item_) if v.size or not q._shape_ else v
    for i, mm in enumerate(flat_m):
        out.append('--' if mm else repr(vv[i].tolist()))
    return out


def canon_units(u):
    # not str(u): Units.__str__ is fragile (defect 13 of DESIGN §2.7 sets .name of the shared constants to None)
    return 'None' if u is None else repr((tuple(u.exponents), tuple(u.triple)))


def canon_obj(q, ro=True):
    """class, shape, values at unmasked elements, units, read-only flag, derivatives (under the parent's mask)"""
    if not isinstance(q, Qube):
        return ['plain', repr(q)]
    return [type(q).__name__, [int(x) for x in q._shape_], _vals(q), canon_units(q._units_),
            bool(q._readonly_) if ro else '-',
            [[k, _vals(d, q._mask_)] for k, d in sorted(q._derivs_.items())]]


# ------------------------------------------------------------------------------------------------ references
def ref_corners(q):
    shape = q._shape_
    if len(shape) == 0:
        return 'None'
    anti = ~np.broadcast_to(np.asarray(q._mask_, dtype=bool), shape)
    zero = [0] * len(shape)
    if not anti.any():
        return [zero, zero]
    lo, hi = [], []
    for ax in range(len(shape)):
        other = tuple(k for k in range(len(shape)) if k != ax)
        occ = np.nonzero(anti.any(axis=other))[0]
        lo.append(int(occ[0])); hi.append(int(occ[-1]) + 1)
    return [lo, hi]


def same_values(x, y):
    x, y = np.asarray(x), np.asarray(y)
    if x.shape != y.shape or x.dtype.kind != y.dtype.kind:
        return False
    return bool(np.array_equal(x, y, equal_nan=(x.dtype.kind == 'f')))


def antimask_representation_mismatch(q):
    """a cached antimask that is a single bool next to an array mask (or the reverse): `_find_corners` assumes they
    have the same representation"""
    c = q._cache_
    if 'antimask' not in c:
        return False
    return isinstance(c['antimask'], np.ndarray) != isinstance(q._mask_, np.ndarray)


def stale_entries(q, label='self'):
    """cached entries of q (and of its derivatives) that differ from their recomputation from the current arrays"""
    bad = []
    c = q._cache_
    shape = q._shape_
    mask = np.broadcast_to(np.asarray(q._mask_, dtype=bool), shape)
    if 'antimask' in c:
        try:
            ok = np.array_equal(np.broadcast_to(np.asarray(c['antimask'], dtype=bool), shape), ~mask)
        except ValueError:
            ok = False
        if not ok: bad.append(label + '.antimask')
    if 'corners' in c:
        if canon_corners(c['corners']) != ref_corners(q): bad.append(label + '.corners')
    if 'slicer' in c:
        r = ref_corners(q)
        if r == 'None' or canon_slicer(c['slicer']) != [[a, b] for a, b in zip(r[0], r[1])]:
            bad.append(label + '.slicer')
    if 'wod' in c and q._derivs_:
        w = c['wod']
        ok = (type(w) is type(q) and same_values(w._values_, q._values_) and w._shape_ == shape
              and np.array_equal(np.broadcast_to(np.asarray(w._mask_, dtype=bool), shape), mask)
              and w._units_ == q._units_ and bool(w._readonly_) == bool(q._readonly_) and not w._derivs_)
        if not ok: bad.append(label + '.wod')
    if label == 'self':
        for k, d in q._derivs_.items():
            bad += stale_entries(d, 'd_d' + k)
    return bad


# ------------------------------------------------------------------------------------------------ table + tracer
_TI = None


def table_info():
    global _TI
    if _TI is None:
        root = T2.repo_root()
        tab, failures = T2.generate(root)
        code_map = {}
        for q, info in tab.items():
            if '/' not in q:         # "<Class>/<function>" rows are receiver-specific variants of the same code
                code_map[(os.path.realpath(os.path.join(root, info['file'])), info['line'])] = ('mut', q)
            lists, index = T2.distinct_event_lists(info)
            info['distinct_index'] = index
            info['bearing'] = {c for p in info['paths'] for c in p['sig']}
            info['dsig'] = [T2.ordered_dedupe(p['sig']) for p in info['paths']]
        for f, name, lines in T2.query_functions(root):
            for l in lines:
                code_map[(os.path.realpath(os.path.join(root, f)), l)] = ('query', name)
        _TI = {'tab': tab, 'failures': failures, 'code_map': code_map}
    return _TI


def snapshot(a):
    v, m = a._values_, a._mask_
    return {'vid': id(v), 'vbytes': np.asarray(v).tobytes(), 'mid': id(m), 'mbytes': np.asarray(m).tobytes(),
            'units': a._units_, 'ro': bool(a._readonly_),
            'derivs': sorted((k, id(d)) for k, d in a._derivs_.items()),
            'dbytes': sorted((k, np.asarray(d._values_).tobytes(), np.asarray(d._mask_).tobytes(), bool(d._readonly_))
                             for k, d in a._derivs_.items())}


def facts(a):
    m = a._mask_
    mrep = 'arr' if isinstance(m, np.ndarray) else ('sT' if m else 'sF')
    return [isinstance(a._values_, np.ndarray), mrep, bool(a._derivs_), bool(a._readonly_)]


def cache_view(a):
    c = a._cache_
    keys = [k for k in KEYS if k in c] + sorted(k for k in c if k not in KEYS)
    shares = '-'
    if 'wod' in c and isinstance(a._values_, np.ndarray):
        shares = c['wod']._values_ is a._values_
    return keys, shares


class Tracer:
    """records, for operations on `target`: top-level cached-query calls and top-level mutator calls (with the
    statements executed in every mutator frame whose self is the target, and the queries made meanwhile)"""

    def __init__(self, target):
        self.target = target
        self.ti = table_info()
        self.stack = []          # active mutator frames on target
        self.qdepth = 0
        self.qname = None
        self.qtouch = False
        self.tokens = []         # finished top-level tokens
        self.root = None

    def first_arg(self, frame):
        code = frame.f_code
        if code.co_argcount == 0:
            return None
        return frame.f_locals.get(code.co_varnames[0])

    def gtrace(self, frame, event, arg):
        if event != 'call':
            return None
        code = frame.f_code
        info = self.ti['code_map'].get((code.co_filename, code.co_firstlineno))
        if info is None:
            return None
        if self.first_arg(frame) is not self.target:
            return None
        kind, name = info
        if kind == 'query':
            self.qdepth += 1
            if self.qdepth == 1:
                self.qname, self.qtouch = name, False
            elif name == 'antimask' and self.qname == 'shrink':
                self.qtouch = True
            return self.qtrace
        if self.qdepth > 0:
            return None
        rec = {'q': name, 'last': None, 'exc': False, 'map': self.ti['tab'][name]['stmt_map']}
        if not self.stack:
            self.root = {'q': name, 'tokens': [], 'excmarks': set(), 'pre': snapshot(self.target),
                         'cls': type(self.target).__name__}
        self.stack.append(rec)
        return self.mtrace

    def chain(self):
        return tuple((r['q'], r['last']) for r in self.stack)

    def qtrace(self, frame, event, arg):
        if event == 'return':
            self.qdepth -= 1
            if self.qdepth == 0:
                name = self.qname
                extra = None
                if name == 'shrink':
                    fill = (arg is self.target) and ('unshrunk' in self.target._cache_) and not self.target._shape_
                    extra = [self.qtouch, bool(fill)]
                if self.stack:
                    self.root['tokens'].append(('q', name, extra))
                else:
                    self.tokens.append({'t': 'q', 'name': name, 'extra': extra, 'view': cache_view(self.target)})
        return self.qtrace

    def mtrace(self, frame, event, arg):
        rec = self.stack[-1]
        if event == 'line':
            rec['exc'] = False
            stmt = rec['map'].get(frame.f_lineno)
            if stmt is not None and stmt != rec['last']:
                rec['last'] = stmt
                self.root['tokens'].append(('s', self.chain()))
        elif event == 'exception':
            rec['exc'] = True
            if rec['last'] is not None:
                self.root['excmarks'].add(self.chain())
        elif event == 'return':
            raised = rec['exc'] and arg is None
            self.stack.pop()
            if not self.stack:
                root = self.root
                self.root = None
                root.update({'t': 'm', 'raised': raised, 'ret_none': arg is None, 'post': snapshot(self.target), 'facts': facts(self.target),
                             'view': cache_view(self.target)})
                self.tokens.append(root)
        return self.mtrace


def fill_names(q):
    name, extra = q[1], q[2]
    if name == '_slicer': return 'slicer'
    if name == 'shrink': return ['shrink', bool(extra[0]), bool(extra[1])]
    return name


def observed_writes(pre, post):
    w = set()
    if pre['vid'] != post['vid'] or pre['vbytes'] != post['vbytes']: w.add('values')
    if pre['mid'] != post['mid'] or pre['mbytes'] != post['mbytes']: w.add('mask')
    if pre['units'] is not post['units'] and pre['units'] != post['units']: w.add('units')
    if pre['ro'] != post['ro']: w.add('readonly')
    if pre['derivs'] != post['derivs'] or pre['dbytes'] != post['dbytes']: w.add('derivs')
    return w


def ev_sx(e):
    if e[0] == 'write': return ['write', e[1], e[2]]
    if e[0] == 'cacheDel': return ['cacheDel', e[1]]
    if e[0] == 'assumeVarr': return ['assumeVarr', bool(e[1])]
    if e[0] == 'call': return ['call', e[1]]
    return e[0]


def mut_step(tok):
    """a top-level mutator token -> (model step, marker or None)"""
    ti = table_info()
    q0 = tok['q']
    if tok.get('cls', '') + '/' + q0 in ti['tab']:
        q0 = tok['cls'] + '/' + q0          # the receiver's class dispatches `self.m()` differently
    info = ti['tab'][q0]
    post = tok['facts']
    dyn_all = [t[1] for t in tok['tokens'] if t[0] == 's' and t[1] in info['bearing']]
    dyn = T2.ordered_dedupe(dyn_all)
    written = observed_writes(tok['pre'], tok['post'])
    match = None
    for i, p in enumerate(info['paths']):
        if info['dsig'][i] == dyn and (p['end'] == 'raise') == bool(tok['raised']):
            match = i
            break
    if match is not None:
        p = info['paths'][match]
        predicted = {e[1] for e in p['events'] if e[0] == 'write'}
        slots = p['fill_slots']
        fills = [[] for _ in slots]
        seen = set()
        for t in tok['tokens']:
            if t[0] == 's':
                if t[1] in info['bearing']:
                    seen.add(t[1])
            else:
                g = len(seen)
                cand = [j for j, c in enumerate(slots) if c == g] or [j for j, c in enumerate(slots) if c < g][-1:] \
                    or [j for j, c in enumerate(slots) if c > g][:1]
                if not cand:
                    return None, 'unpredicted-fill:%s:%s' % (q0, t[1])
                fills[cand[0]].append(fill_names(t))
        if not written <= predicted:
            return None, 'unpredicted-write:%s:%s' % (q0, ','.join(sorted(written - predicted)))
        return ['m', q0, info['distinct_index'][match], post, fills], None
    if not tok['raised']:
        return None, 'unmatched-path:%s' % q0
    # an exception cut the path at a point where the table says a helper may raise (`mayRaise`): the prefix is a
    # step the theorems speak about
    for i, p in enumerate(info['paths']):
        for ex in p['exits']:
            if dyn == ex['pre'] or (ex['next'] is not None and dyn == ex['pre'] + (ex['next'],)
                                    and ex['next'] not in ex['pre']):
                pre_events = p['events'][:ex['k']]
                predicted = {e[1] for e in pre_events if e[0] == 'write'}
                if not written <= predicted:
                    continue
                slots = p['fill_slots'][:ex['nfills']]
                fills = [[] for _ in slots]
                seen, ok = set(), True
                for t in tok['tokens']:
                    if t[0] == 's':
                        if t[1] in info['bearing']:
                            seen.add(t[1])
                    else:
                        g = len(seen)
                        cand = [j for j, c in enumerate(slots) if c == g] or [j for j, c in enumerate(slots) if c < g][-1:]
                        if not cand:
                            ok = False; break
                        fills[cand[0]].append(fill_names(t))
                if ok:
                    return ['mp', q0, info['distinct_index'][i], ex['k'], post, fills], None
    # an exception left the mutator in the middle of a path: explicit events of the statements that ran
    evs, fills, predicted = [], [], set()
    for t in tok['tokens']:
        if t[0] == 'q':
            evs.append('mayFill'); fills.append([fill_names(t)])
            continue
        chain = t[1]
        qn, line = chain[-1]
        sev = ti['tab'][qn]['stmt_events'].get((qn, line), [])
        for e in sev:
            if e[0] == 'write':
                predicted.add(e[1])
                if chain in tok['excmarks']:
                    continue            # the statement that raised did not complete its write
            if e[0] in ('ret',):
                continue
            evs.append(ev_sx(e))
    if not written <= predicted:
        return None, 'unpredicted-write:%s:%s' % (q0, ','.join(sorted(written - predicted)))
    return ['x', evs, post, fills], None


def q_step(tok):
    name, extra = tok['name'], tok['extra']
    if name == '_slicer': return ['q', 'slicer']
    if name == 'shrink': return ['q', 'shrink', bool(extra[0]), bool(extra[1])]
    return ['q', name]


def run_one(objname, ops, disable):
    """execute the history under the tracer; returns (initial facts, per-op list of tokens, outcomes)"""
    prev = Qube.DISABLE_CACHE
    Qube.DISABLE_CACHE = disable
    try:
        a = OBJECTS[objname]()
        st = {'a': a, 's': None}
        init = [not a._shape_] + facts(a)
        per_op = []
        for op in ops:
            tr = Tracer(a)
            sys.settrace(tr.gtrace)
            try:
                try:
                    apply_op(st, op)
                    out = 'ok'
                except Exception as e:
                    out = C.exc_name(e)
            finally:
                sys.settrace(None)
            # Python does not always deliver an 'exception' event to a frame that an exception leaves from inside an
            # `except` block; the outcome of the whole operation settles it for the last mutator call
            if out != 'ok' and tr.tokens and tr.tokens[-1]['t'] == 'm' and tr.tokens[-1]['ret_none']:
                tr.tokens[-1]['raised'] = True
            per_op.append((tr.tokens, out, cache_view(a)))
        return init, per_op
    finally:
        Qube.DISABLE_CACHE = prev


def run_traced(objname, ops):
    init, on = run_one(objname, ops, False)
    _, off = run_one(objname, ops, True)
    steps, obs = [], []
    exact = True
    for op, (toks, out, view), (toks2, out2, view2) in zip(ops, on, off):
        if [(t['t'], t.get('name', t.get('q'))) for t in toks] != [(t['t'], t.get('name', t.get('q'))) for t in toks2] \
                or out != out2:
            steps.append(['q', 'count']); obs.append('twin-trace-differs:%s/%s' % (out, out2))
            continue
        if out == 'ok' and expects_mutator(op) and not any(t['t'] == 'm' for t in toks):
            # the tracer did not see the mutator (table incomplete / source not the traced one): never vacuous
            steps.append(['q', 'count']); obs.append('untraced-mutator:%s' % op)
            continue
        if not toks:
            steps.append(['q', 'count'])
            obs.append([view[0], view[1], True if exact else '-', view2[0]])
            continue
        for t, t2 in zip(toks, toks2):
            if t['t'] == 'q':
                step, marker = q_step(t), None
            else:
                step, marker = mut_step(t)
                if step is not None and step[0] == 'x':
                    exact = False
            if marker is not None:
                steps.append(['q', 'count']); obs.append(marker)
                continue
            steps.append(step)
            obs.append([t['view'][0], t['view'][1], True if exact else '-', t2['view'][0]])
    return {'req': ['c18', ['init'] + init] + steps, 'obs': obs}


# ------------------------------------------------------------------------------------------------ direct oracle
def run_plain(objname, ops, disable):
    prev = Qube.DISABLE_CACHE
    Qube.DISABLE_CACHE = disable
    try:
        a = OBJECTS[objname]()
        st = {'a': a, 's': None}
        answers, stale, snaps, reps = [], [], [], []
        st['snaps'] = snaps
        st['reps'] = reps
        for op in ops:
            try:
                ans = apply_op(st, op)
            except Exception as e:
                ans = C.exc_name(e)
            answers.append(ans)
            stale.append([] if disable else stale_entries(a))
            reps.append(False if disable else antimask_representation_mismatch(a))
            snaps.append({k: st.get(k) for k in ('held_state', 'held_snapshot', 'now_state', 'now_reference')})
        # final interrogation of every view
        final = []
        for q in ('q:antimask', 'q:corners', 'q:slicer', 'q:wod', 'q:count'):
            try:
                final.append(apply_op(st, q))
            except Exception as e:
                final.append(C.exc_name(e))
        r = ref_corners(a)
        refs = [canon_bools(~np.broadcast_to(np.asarray(a._mask_, dtype=bool), a._shape_), a._shape_), r,
                'TypeError' if r == 'None' else [[x, y] for x, y in zip(r[0], r[1])],
                canon_obj(a)[:5] + [[]], int(np.broadcast_to(np.asarray(a._mask_, dtype=bool), a._shape_).sum())]
        return answers, stale, final, refs, st
    finally:
        Qube.DISABLE_CACHE = prev


def last_mutator(ops, k):
    for j in range(k, -1, -1):
        if not is_query(ops[j]):
            return ops[j]
    return '-'


def run_twins(objname, ops):
    """None, or (signature, what): the property judged directly on the real code"""
    ans_on, stale_on, fin_on, refs_on, st_on = run_plain(objname, ops, False)
    ans_off, _, fin_off, refs_off, st_off = run_plain(objname, ops, True)
    held_at = None
    snaps_on, snaps_off = st_on['snaps'], st_off['snaps']
    for k, op in enumerate(ops):
        if op.startswith('hold:'):
            held_at = k
        if st_on['reps'][k]:
            rejected = isinstance(ans_on[k], str) and ans_on[k] not in ('ok', 'none', 'self') and not is_query(op)
            return ('antimask-representation:%s:%s' % ('after-rejected' if rejected else 'after', op),
                    'history %s on %s: after step %d (%s, outcome %s) the mask is %s but the cached antimask is %s; '
                    'corners/_slicer then raise ValueError in _find_corners, with Qube.DISABLE_CACHE=True they answer'
                    % (ops[:k + 1], objname, k, op, ans_on[k] if isinstance(ans_on[k], str) else 'answer',
                       'an array' if isinstance(st_on['a']._mask_, np.ndarray) else 'a single bool', 'of the other kind'))
        if stale_on[k]:
            return ('stale:%s:after:%s' % (','.join(stale_on[k]), last_mutator(ops, k)),
                    'history %s on %s: after step %d (%s) the cached %s differ(s) from recomputation from the current arrays'
                    % (ops[:k + 1], objname, k, op, stale_on[k]))
        if ans_on[k] == 'shares-cache-dict':
            return ('foreign:wod-shares-cache-dict',
                    'a.wod shares the cache DICTIONARY of its parent (qube.py wod copies _cache_ by reference): %s on %s'
                    % (ops[:k + 1], objname))
        if isinstance(ans_on[k], list) and ans_on[k] and isinstance(ans_on[k][-1], list) and ans_on[k][-1][:1] == ['stale'] \
                and len(ans_on[k][-1]) > 1:
            return ('derived-stale:%s:%s' % (op, ','.join(ans_on[k][-1][1:])),
                    'history %s on %s: the new object returned by step %d (%s) is born with cached %s that differ from '
                    'recomputation from its own arrays' % (ops[:k + 1], objname, k, op, ans_on[k][-1][1:]))
        if ans_on[k] != ans_off[k]:
            if op.startswith('unheld') and held_at is not None and kf_c18_1(k, ans_on, ans_off, snaps_on, snaps_off):
                sig = 'twin-differs:unheld:original-mutated-after-shrink'
            else:
                sig = 'twin-differs:%s:after:%s' % (op, last_mutator(ops, k))
            return (sig, 'history %s on %s: step %d (%s) answers %s with the cache and %s with Qube.DISABLE_CACHE=True'
                    % (ops[:k + 1], objname, k, op, C.sx(tosx(ans_on[k]))[:300], C.sx(tosx(ans_off[k]))[:300]))
    names = ['antimask', 'corners', 'slicer', 'wod', 'count']
    for n, x, y, r in zip(names, fin_on, fin_off, refs_on):
        if x != y:
            return ('twin-differs:final-%s:after:%s' % (n, last_mutator(ops, len(ops) - 1)),
                    'history %s on %s: final %s is %s with the cache, %s without' % (ops, objname, n, x, y))
        if x != r:
            return ('wrong:final-%s:after:%s' % (n, last_mutator(ops, len(ops) - 1)),
                    'history %s on %s: final %s is %s, recomputation from the arrays gives %s' % (ops, objname, n, x, r))
    return None


def kf_c18_1(k, ans_on, ans_off, snaps_on, snaps_off):
    """is the difference at step k exactly finding KF-C18-1?  (i) the original has changed since it was shrunk;
    (ii) without the cache the answer is still the one of shrink time (the shrunk COPY); (iii) with the cache it is
    the CURRENT original masked outside the antimask (the cached REFERENCE).  Anything else is another defect."""
    on, off = snaps_on[k], snaps_off[k]
    return (on['held_state'] is not None and on['now_state'] != on['held_state']
            and off.get('held_snapshot') is not None and ans_off[k] == off['held_snapshot']
            and on['now_reference'] is not None and ans_on[k] == on['now_reference'])


def tosx(o):
    if isinstance(o, (list, tuple)):
        return [tosx(x) for x in o]
    if isinstance(o, (bool, int, str, np.bool_, np.integer)):
        return o
    return repr(o)


def build(objname):
    return OBJECTS[objname]()
