"""C03 helpers: building operands in two storage variants, the operation catalogue on the REAL code,
expression-tree evaluation and the canonical observation `obs`.

A leaf operand is a dict
    {'t': 'F'|'I'|'B'|'P'|'V', 'shape': [...], 'vals': flat list, 'alt': flat list, 'mask': wire mask,
     'derivs': {key: leaf}, 'units': None|'km'|...}
`vals` is the storage of variant A, `alt` the storage of variant B: identical wherever the element is unmasked,
arbitrary (adversarial) underneath the mask.  Derivatives are leaves of their own (own mask, own hidden storage).
A tree node is ['v', i] (leaf i of the environment) or [opname, params(list), child, child, ...].
"""
import pickle, struct, warnings
import numpy as np
from absn import *
import common as C

from polymath import Polynomial
ITEM = {'F': (), 'I': (), 'B': (), 'P': (2,), 'V': (3,), 'Q': (2,), 'M2': (2, 2), 'M3': (3, 3), 'Y': (4,)}
CLS = {'F': Scalar, 'I': Scalar, 'B': Boolean, 'P': Pair, 'V': Vector3, 'Q': Pair, 'M2': Matrix, 'M3': Matrix, 'Y': Polynomial}
DTYPE = {'F': 'float64', 'I': 'int64', 'B': 'bool', 'P': 'int64', 'V': 'float64', 'Q': 'float64', 'M2': 'float64', 'M3': 'float64',
         'Y': 'float64'}
UNITS = {None: None, 'km': Units.KM, 's': Units.SECONDS, 'rad': Units.RAD, 'km2': Units.KM ** 2}


# ------------------------------------------------------------------ operands
def build(leaf, variant):
    """the real polymath object for a leaf, with storage variant 'A' or 'B'"""
    t = leaf['t']
    shape = tuple(leaf['shape'])
    data = leaf['vals'] if variant == 'A' else leaf['alt']
    arr = np.array(data, dtype=DTYPE[t]).reshape(shape + ITEM[t])
    derivs = {k: build(d, variant) for k, d in leaf.get('derivs', {}).items()}
    kw = {}
    if leaf.get('units'):
        kw['units'] = UNITS[leaf['units']]
    if derivs:
        kw['derivs'] = derivs
    return CLS[t](arr, mk_mask(leaf['mask'], shape), **kw)


# ------------------------------------------------------------------ canonical observation
def fbits(x):
    x = float(x)
    if x != x:
        return 'nan'
    return struct.unpack('<Q', struct.pack('<d', x + 0.0))[0]


def obs_qube(q, parent_mask=None):
    shape = tuple(q._shape_)
    m = np.array(expanded_mask(q))
    if parent_mask is not None and parent_mask.shape == m.shape:
        m = m | parent_mask
    vals = np.broadcast_to(np.asarray(q._values_), shape + tuple(q._item_))
    n = int(np.prod(shape, dtype=int))
    isz = int(np.prod(q._item_, dtype=int))
    flat = vals.reshape(n, isz) if n * isz else vals.reshape(0, max(isz, 1))
    mf = m.reshape(n)
    shown = []
    for i in range(n):
        if not mf[i]:
            shown.append([fbits(x) for x in flat[i]] if isz != 1 or q._item_ else fbits(flat[i][0]))
    kind = np.asarray(q._values_).dtype.kind
    # 'O': a shapeless integer object holds a Python int, which outgrows int64 silently (hidden int64 extremes) - integer kind
    kind = {'f': 'f', 'i': 'i', 'u': 'i', 'b': 'b', 'O': 'i'}.get(kind, kind)
    units = '-' if q._units_ is None or q._units_ == Units.UNITLESS else 'u' + '_'.join(
        str(e) for e in q._units_.exponents) + '_%r' % (round(float(q._units_.factor), 12),)
    derivs = []
    if parent_mask is None:
        for k in sorted(q._derivs_):
            derivs.append([k, obs_qube(q._derivs_[k], m)])
    return [type(q).__name__, kind, list(shape), list(q._item_), [bool(x) for x in mf], units, shown, derivs]


def obs(r):
    if isinstance(r, Qube):
        return obs_qube(r)
    if isinstance(r, (bool, np.bool_)):
        return ['pybool', bool(r)]
    if isinstance(r, (int, np.integer)):
        return ['pyint', fbits(r)]
    if isinstance(r, (float, np.floating)):
        return ['pyfloat', fbits(r)]
    if isinstance(r, tuple):
        return ['tuple'] + [obs(x) for x in r]
    return ['other', type(r).__name__]


# ------------------------------------------------------------------ the catalogue (real code)
def _ax(p):
    return tuple(p) if isinstance(p, list) else p


def _idx(pattern, i):
    if pattern == 'i': return i
    if pattern == ':i': return (slice(None), i)
    if pattern == 'i:': return (i, slice(None))
    if pattern == '...i': return (Ellipsis, i)
    if pattern == 'i...': return (i, Ellipsis)
    if pattern == '0i': return (0, i)
    if pattern == 'ni': return (None, i)
    if pattern == 'sl_i': return (slice(1, None), i)
    raise KeyError(pattern)


def _with_digits(x, digits, ref):
    """the object with a requested (possibly lossy) pickle precision"""
    x.set_pickle_digits(tuple(digits) if isinstance(digits, list) else digits, tuple(ref) if isinstance(ref, list) else ref)
    return x


UNARY = {
    'neg': lambda x: -x, 'abs': lambda x: abs(x), 'pos': lambda x: +x,
    'sqrt': lambda x: x.sqrt(), 'sqrt_nc': lambda x: x.sqrt(check=False),
    'log': lambda x: x.log(), 'log_nc': lambda x: x.log(check=False),
    'exp': lambda x: x.exp(), 'exp_c': lambda x: x.exp(check=True),
    'sin': lambda x: x.sin(), 'cos': lambda x: x.cos(), 'tan': lambda x: x.tan(),
    'arcsin': lambda x: x.arcsin(), 'arcsin_nc': lambda x: x.arcsin(check=False),
    'arccos': lambda x: x.arccos(), 'arccos_nc': lambda x: x.arccos(check=False),
    'arctan': lambda x: x.arctan(), 'sign': lambda x: x.sign(),
    'recip': lambda x: x.reciprocal(), 'recip_nz': lambda x: x.reciprocal(nozeros=True),
    'wod': lambda x: x.wod, 'frac': lambda x: x.frac(), 'int': lambda x: x.int(),
    'not': lambda x: ~x, 'logical_not': lambda x: x.logical_not(),
    'as_float': lambda x: x.as_float(), 'copy': lambda x: x.copy(), 'as_int': lambda x: x.as_int(),
    'as_numeric': lambda x: x.as_numeric(), 'as_bool': lambda x: x.as_bool(), 'vint': lambda x: x.int(),
    'masked_single': lambda x: x.masked_single(), 'zero': lambda x: x.zero(), 'identity': lambda x: x.identity(),
    'without_derivs': lambda x: x.without_derivs(), 'unmasked_count': lambda x: x.count_unmasked(),
    'pickle': lambda x: pickle.loads(pickle.dumps(x)),
    'flatten': lambda x: x.flatten(),
    'norm': lambda x: x.norm(), 'norm_sq': lambda x: x.norm_sq(), 'unit': lambda x: x.unit(),
    'to_scalar0': lambda x: x.to_scalar(0),
    'expand_mask': lambda x: x.expand_mask(), 'collapse_mask': lambda x: x.collapse_mask(),
    'count_masked': lambda x: x.count_masked(), 'is_all_masked': lambda x: x.is_all_masked(),
    'as_mask_where_nonzero': lambda x: x.as_mask_where_nonzero(),
    'as_mask_where_zero': lambda x: x.as_mask_where_zero(),
    'as_mask_where_nonzero_or_masked': lambda x: x.as_mask_where_nonzero_or_masked(),
    'as_mask_where_zero_or_masked': lambda x: x.as_mask_where_zero_or_masked(),
    'bool': lambda x: bool(x),
}

# unary with parameters: name -> f(x, *params)
UNARYP = {
    'pow': lambda x, e: x ** e,
    'mulc': lambda x, c: x * c, 'rmulc': lambda x, c: c * x, 'addc': lambda x, c: x + c, 'subc': lambda x, c: x - c,
    'rsubc': lambda x, c: c - x, 'divc': lambda x, c: x / c, 'rdivc': lambda x, c: c / x,
    'floordivc': lambda x, c: x // c, 'modc': lambda x, c: x % c,
    'ltc': lambda x, c: x < c, 'gec': lambda x, c: x >= c, 'eqc': lambda x, c: x == c, 'nec': lambda x, c: x != c,
    'mw_lt': lambda x, lim, rep, rm: x.mask_where_lt(lim, replace=rep, remask=rm),
    'mw_le': lambda x, lim, rep, rm: x.mask_where_le(lim, replace=rep, remask=rm),
    'mw_gt': lambda x, lim, rep, rm: x.mask_where_gt(lim, replace=rep, remask=rm),
    'mw_ge': lambda x, lim, rep, rm: x.mask_where_ge(lim, replace=rep, remask=rm),
    'mw_eq': lambda x, lim, rep, rm: x.mask_where_eq(lim, replace=rep, remask=rm),
    'mw_ne': lambda x, lim, rep, rm: x.mask_where_ne(lim, replace=rep, remask=rm),
    'mw_between': lambda x, lo, hi, rep, rm: x.mask_where_between(lo, hi, replace=rep, remask=rm),
    'mw_outside': lambda x, lo, hi, rep, rm: x.mask_where_outside(lo, hi, replace=rep, remask=rm),
    'clip': lambda x, lo, hi, rm: x.clip(lo, hi, remask=rm),
    'sum': lambda x, ax: x.sum(axis=_ax(ax)), 'mean': lambda x, ax: x.mean(axis=_ax(ax)),
    'max': lambda x, ax: x.max(axis=_ax(ax)), 'min': lambda x, ax: x.min(axis=_ax(ax)),
    'argmax': lambda x, ax: x.argmax(axis=_ax(ax)), 'argmin': lambda x, ax: x.argmin(axis=_ax(ax)),
    'median': lambda x, ax: x.median(axis=_ax(ax)), 'sort': lambda x, ax: x.sort(axis=ax),
    'any': lambda x, ax: x.any(axis=_ax(ax)), 'all': lambda x, ax: x.all(axis=_ax(ax)),
    'tvl_any': lambda x, ax: x.tvl_any(axis=_ax(ax)), 'tvl_all': lambda x, ax: x.tvl_all(axis=_ax(ax)),
    'rms': lambda x: x.rms(),
    'pickle_d': lambda x, digits, ref: pickle.loads(pickle.dumps(_with_digits(x, digits, ref))),
    'inverse': lambda x: x.inverse(), 'inverse_nz': lambda x: x.inverse(nozeros=True),
    'mrecip': lambda x: x.reciprocal(), 'mrecip_nz': lambda x: x.reciprocal(nozeros=True),
    'transpose': lambda x: x.transpose(), 'unitary': lambda x: x.unitary(), 'is_diagonal': lambda x: x.is_diagonal(),
    'row_vector': lambda x, k: x.row_vector(k), 'm_to_scalar': lambda x, i, j: x.to_scalar(i, j),
    'roots': lambda x: x.roots(), 'poly_eval': lambda x, c: x.eval(c), 'poly_deriv': lambda x: x.deriv(),
    # the same public methods with their option values
    'sign_o': lambda x, zeros, builtins: x.sign(zeros=zeros, builtins=builtins),
    'int_o': lambda x, top, remask, clip, inclusive: x.int(top=top, remask=remask, clip=clip, inclusive=inclusive),
    'round': lambda x, d: round(x, d),
    'red_o': lambda x, name, ax, builtins, masked: getattr(x, name)(axis=_ax(ax), builtins=builtins, masked=masked),
    'fn_nr': lambda x, name: getattr(x, name)(recursive=False),
    'as_builtin': lambda x, masked: x.as_builtin(masked=masked),
    'to_scalar': lambda x, k: x.to_scalar(k),
    'mask_where_eq_o': lambda x, m, rep, rm: x.mask_where_eq(m, replace=rep, remask=rm),
    'mw_between_o': lambda x, lo, hi, ends, rep, rm: x.mask_where_between(lo, hi, mask_endpoints=ends, replace=rep, remask=rm),
    'mw_outside_o': lambda x, lo, hi, ends, rep, rm: x.mask_where_outside(lo, hi, mask_endpoints=ends, replace=rep, remask=rm),
    'clip_o': lambda x, lo, hi, rm, inc: x.clip(lo, hi, remask=rm, inclusive=inc),
    'shrink': lambda x, bits, sh: x.shrink(np.array(bits, dtype=bool).reshape(sh)),
    'unshrink': lambda x, bits, sh: x.unshrink(np.array(bits, dtype=bool).reshape(sh)),
    'shrink_unshrink': lambda x, bits, sh: x.shrink(np.array(bits, dtype=bool).reshape(sh)).unshrink(
        np.array(bits, dtype=bool).reshape(sh)),
    'slice': lambda x, a, b, s: x[slice(a, b, s)],
    'intidx': lambda x, k: x[k],
    'reshape': lambda x, sh: x.reshape(tuple(sh)),
    'swap_axes': lambda x, a, b: x.swap_axes(a, b),
    'broadcast_to': lambda x, sh: x.broadcast_to(tuple(sh)),
    'mask_where_bits': lambda x, bits, sh, rep, rm: x.mask_where(np.array(bits, dtype=bool).reshape(sh), replace=rep, remask=rm),
}

BINARY = {
    'add': lambda a, b: a + b, 'sub': lambda a, b: a - b, 'mul': lambda a, b: a * b, 'div': lambda a, b: a / b,
    'floordiv': lambda a, b: a // b, 'mod': lambda a, b: a % b, 'powS': lambda a, b: a ** b,
    'arctan2': lambda a, b: a.arctan2(b),
    'eq': lambda a, b: a == b, 'ne': lambda a, b: a != b, 'lt': lambda a, b: a < b, 'le': lambda a, b: a <= b,
    'gt': lambda a, b: a > b, 'ge': lambda a, b: a >= b,
    'tvl_eq': lambda a, b: a.tvl_eq(b), 'tvl_ne': lambda a, b: a.tvl_ne(b), 'tvl_lt': lambda a, b: a.tvl_lt(b),
    'tvl_le': lambda a, b: a.tvl_le(b), 'tvl_gt': lambda a, b: a.tvl_gt(b), 'tvl_ge': lambda a, b: a.tvl_ge(b),
    'maximum': lambda a, b: Scalar.maximum(a, b), 'minimum': lambda a, b: Scalar.minimum(a, b),
    'and': lambda a, b: a & b, 'or': lambda a, b: a | b, 'xor': lambda a, b: a ^ b,
    'tvl_and': lambda a, b: a.tvl_and(b), 'tvl_or': lambda a, b: a.tvl_or(b),
    'stack': lambda a, b: Qube.stack(a, b),
    'dot': lambda a, b: a.dot(b), 'cross': lambda a, b: a.cross(b), 'sep': lambda a, b: a.sep(b),
    'mask_where': lambda a, b: a.mask_where(b.as_mask_where_nonzero_or_masked()),
    'remask_or': lambda a, b: a.remask_or(b.as_mask_where_nonzero_or_masked()),
}
BINARYP = {
    'getitem': lambda x, i, pattern: x[_idx(pattern, i)],
    'where': lambda a, b, _: a.mask_where(b.as_mask_where_nonzero_or_masked()),
}
# several operands AND parameters: name -> f(operands..., *params)
MULTIP = {
    'clipc_lu': lambda x, lo, hi, axis, rm: x.clip_component(axis, lo, hi, remask=rm),
    'clipc_l': lambda x, lo, axis, rm: x.clip_component(axis, lo, None, remask=rm),
    'clipc_u': lambda x, hi, axis, rm: x.clip_component(axis, None, hi, remask=rm),
    'clip_lu': lambda x, lo, hi, rm, inc: x.clip(lo, hi, remask=rm, inclusive=inc),
    'clip_l': lambda x, lo, rm: x.clip(lo, None, remask=rm),
    'clip_u': lambda x, hi, rm, inc: x.clip(None, hi, remask=rm, inclusive=inc),
    'clip2d_lu': lambda x, lo, hi, rm: x.clip2d(lo, hi, remask=rm),
    'clip2d_l': lambda x, lo, rm: x.clip2d(lo, None, remask=rm),
    'clip2d_u': lambda x, hi, rm: x.clip2d(None, hi, remask=rm),
    'solve_quadratic_am': lambda a, b, c: Scalar.solve_quadratic(a, b, c, include_antimask=True),
    'solve_quadratic_all': lambda a, b, c: Scalar.solve_quadratic(a, b, c),
    'mw_between_q': lambda x, lo, hi, ends, rm: x.mask_where_between(lo, hi, mask_endpoints=ends, remask=rm),
    'mw_outside_q': lambda x, lo, hi, ends, rm: x.mask_where_outside(lo, hi, mask_endpoints=ends, remask=rm),
    'mw_ge_q': lambda x, lim, rm: x.mask_where_ge(lim, remask=rm),
    'int_top': lambda x, top, rm, cl: x.int(top=None, remask=rm, clip=cl),
}
TERNARY = {
    'stack3': lambda a, b, c: Qube.stack(a, b, c),
    'maximum3': lambda a, b, c: Scalar.maximum(a, b, c),
    'eval_quadratic': lambda x, a, b: x.eval_quadratic(a, b, 1.),
    'solve_quadratic0': lambda a, b, c: Scalar.solve_quadratic(a, b, c)[0],
    'solve_quadratic1': lambda a, b, c: Scalar.solve_quadratic(a, b, c)[1],
}


def apply_op(name, params, args):
    if name in UNARY:
        return UNARY[name](*args)
    if name in UNARYP:
        return UNARYP[name](args[0], *params)
    if name in BINARY:
        return BINARY[name](*args)
    if name in BINARYP:
        return BINARYP[name](args[0], args[1], *params)
    if name in MULTIP:
        return MULTIP[name](*args, *params)
    if name in TERNARY:
        return TERNARY[name](*args)
    raise KeyError(name)


class Raised(Exception):
    def __init__(self, name):
        self.name = name


def eval_nodes(tree, env, variant):
    """post-order evaluation of every node on the real code.
    Returns (list of (path, opname, canonical obs | exception enum), warning list)."""
    out = []
    bigint = []
    objs = [build(l, variant) for l in env]

    def ev(node, path):
        if node[0] == 'v':
            return objs[node[1]]
        name, params = node[0], node[1]
        args = [ev(ch, path + (k,)) for k, ch in enumerate(node[2:])]
        try:
            r = apply_op(name, params, args)
        except Exception as e:
            out.append((path, name, C.exc_name(e)))
            raise Raised(C.exc_name(e))
        out.append((path, name, obs(r)))
        if isinstance(r, Qube) and np.asarray(r._values_).dtype.kind == 'O':
            bigint.append(name)         # a Python int left the int64 range (shapeless integer object)
        return r

    with warnings.catch_warnings(record=True) as wlist:
        warnings.simplefilter('always')
        try:
            ev(tree, ())
        except Raised:
            pass
    ws = sorted({'%s:%s' % (type(w.message).__name__, str(w.message)[:40]) for w in wlist})
    if bigint:
        ws.append('bigint:' + bigint[0])
    return out, ws


def tree_ops(tree):
    if tree[0] == 'v':
        return []
    res = [tree[0]]
    for ch in tree[2:]:
        res += tree_ops(ch)
    return res


def tree_depth(tree):
    if tree[0] == 'v':
        return 0
    return 1 + max([tree_depth(ch) for ch in tree[2:]] or [0])


# ------------------------------------------------------------------ statement-level programs on SHARED objects
INPLACE = {
    'iadd': lambda x, y: x.__iadd__(y), 'isub': lambda x, y: x.__isub__(y), 'imul': lambda x, y: x.__imul__(y),
    'itruediv': lambda x, y: x.__itruediv__(y), 'ifloordiv': lambda x, y: x.__ifloordiv__(y),
    'imod': lambda x, y: x.__imod__(y), 'ipow': lambda x, y: x.__ipow__(y) if hasattr(x, '__ipow__') else x.__pow__(y),
    'iand': lambda x, y: x.__iand__(y), 'ior': lambda x, y: x.__ior__(y), 'ixor': lambda x, y: x.__ixor__(y),
}


def run_prog(prog, env, variant):
    """a program is a list of statements over the leaves of `env`, built ONCE and then mutated:
         ['let', tree]                           bind the result of an expression to a NEW name (slot len(objs))
         ['query', tree]                         observe the result of an expression
         ['set', i, pattern, index_tree, rhs]    x_i[index] = rhs   (rhs: tree or number), then observe x_i
         ['iop', name, i, rhs]                   x_i <op>= rhs      (rhs: tree or number), then observe x_i
       returns the list of (statement label, canonical observation | exception enum)"""
    objs = [build(l, variant) for l in env]
    out = []

    def ev(node):
        if not isinstance(node, list):
            return node
        if node[0] == 'v':
            return objs[node[1]]
        args = [ev(ch) for ch in node[2:]]
        return apply_op(node[0], node[1], args)

    with warnings.catch_warnings(record=True):
        warnings.simplefilter('always')
        for st in prog:
            kind = st[0]
            try:
                if kind == 'let':
                    label = 'let:' + st[1][0]
                    objs.append(ev(st[1]))
                    out.append((label, obs(objs[-1])))
                elif kind == 'query':
                    label = 'query:' + st[1][0]
                    out.append((label, obs(ev(st[1]))))
                elif kind == 'set':
                    it = st[3]
                    label = 'setitem-' + (env[it[1]]['t'] if isinstance(it, list) and it[0] == 'v' and it[1] < len(env) else 'T')
                    x = objs[st[1]]
                    x[_idx(st[2], ev(st[3]))] = ev(st[4])
                    out.append((label, obs(x)))
                elif kind == 'iop':
                    label = st[1]
                    x = objs[st[2]]
                    r = INPLACE[st[1]](x, ev(st[3]))
                    if r is not x and isinstance(r, Qube):
                        objs[st[2]] = r
                    out.append((label, obs(objs[st[2]])))
                else:
                    raise KeyError(kind)
            except Exception as e:
                out.append((label, C.exc_name(e)))
    return out
