"""C02 — undefined results are masked, never NaN / pole infinity / warning / exception."""
import math
import numpy as np
from absn import *
import common as C
import c01_ops as K
from c01_ops import OPS, KINDS
import c01 as G          # operand generator, shape tables

PROP = 'C02'
LEAN_MODULES = ['PMV.Props.C02']
PARALLEL = True
MANIFEST = {
    'text': 'Kernel-checked theorems (PMV/Props/C02.lean) about the per-element, code-shaped semantics of the Lean model '
            '(PMV/Model/Elem.lean) in a trap monad whose primitives are PARTIAL (division, floor division, modulo, sqrt, '
            'log, exp, arcsin, arccos, LAPACK inverse trap outside their domain): for every cell, hidden values included, '
            'the default forms never trap (no_trap_*: zero replacement, domain guards, NaN/inf scrub keep every primitive '
            'inside its domain, so no warning/NaN/inf can arise even at masked elements), the result is masked exactly '
            'when an operand is masked or the operation is undefined there and otherwise carries the reference value '
            '(masked_iff_undefined_*), the same for the derivative formulas that divide again, and the check=False / '
            'nozeros=True forms either succeed or raise ValueError, never warn (fastpath_only_valueerror).  Tied to /repo '
            'on every run: the real operations are driven over arrays mixing defined and undefined points in every '
            'position (all-undefined, shape (), zero-size, int and float kinds, masked undefined points, either operand '
            'side) with warnings recorded; mask and exact values at unmasked elements must equal the compiled model\'s '
            'answer, and a direct oracle demands no warning, no exception, no unmasked non-finite value or derivative, '
            'mask = operand masks U domain predicate, values = NumPy reference.',
    'design': 'DESIGN.md §3 C02, DESIGN.d/C02.md',
    'technique': 'Lean 4 proof (trap-freedom and refinement to the mathematical domain predicate, any ordered field) + '
                 'model/code correspondence',
    'note': 'Trusted: Lean kernel; hand-written model Model/Elem.lean (checked by the correspondence run); libm and LAPACK '
            'are parameters with stated contracts (sqrt s = 0 iff s = 0; inv traps iff det = 0). IEEE overflow of finite '
            'operands and rounding of det are outside the theorems.',
}
RULE = ('restricted-domain operation x operand kinds (Scalar float/int, Boolean, number, ndarray, Vector, Matrix, '
        'Quaternion) x shape pairs incl. () and zero-size x mask representations x pole placements drawn from the trouble '
        'values of the operation (all-undefined and masked-undefined included) x default / fast-path forms x with/without '
        'derivatives; non-trivial = some element undefined or masked; distinct = distinct request line')
ASSUMPTIONS = ['"undefined" is the list in the property statement (DESIGN §8.6); IEEE overflow of finite operands is not a '
               'domain failure',
               'singular matrices: only matrices whose float determinant is exactly 0.0 iff the rational determinant is 0',
               'values that pass through libm are compared with the NumPy reference inside the oracle (rtol 1e-12), the '
               'model answers `u` (unmasked) for them; rational results are compared exactly']
TRUSTED_EXTRA = ['libm contract: sqrt(s) == 0 iff s == 0; primitives are exact on exactly representable results',
                 'LAPACK contract: inv raises/warns iff det == 0 (parameter of the model)']

EXACT = {'div', 'floordiv', 'mod', 'reciprocal', 'element_div', 'vdiv', 'qrecip', 'inverse', 'pow'}
LIBM = {'sqrt', 'log', 'exp', 'arcsin', 'arccos', 'sin', 'cos', 'tan', 'arctan', 'arctan2', 'unit', 'norm'}


# ------------------------------------------------------------------ observation
def warn_kind(names_msgs):
    return ['warn', 'any']


def elems(r, exact, expo=None):
    m = expanded_mask(r).ravel()
    item = r._item_
    n = int(np.prod(r._shape_, dtype=int))
    v = np.broadcast_to(np.asarray(r._values_), r._shape_ + item).reshape((n,) + item) if n else np.zeros((0,) + item)
    out = []
    for i in range(n):
        if m[i]:
            out.append('m')
        elif expo is not None:
            out.append(K.rat(v[i]) if expo[i] else 'u')
        elif not exact:
            out.append('u')
        elif item:
            out.append([K.rat(x) for x in v[i].ravel()])
        else:
            out.append(K.rat(v[i]))
    return out


def obs(r, exact, expo=None):
    if not isinstance(r, Qube):
        return 'not-a-qube:' + type(r).__name__
    return ['ok', list(r._shape_), elems(r, exact, expo)]


def whole_expo(case):
    """per result element: is the exponent a whole number (then the power is rational)"""
    a, e = K.logical_opds(case)
    out = K.lead_bcast([a['shape'], e['shape']])
    ev = np.broadcast_to(K.values_of(e).astype(float), tuple(out)).ravel()
    return [bool(x == math.floor(x)) for x in ev]


def run_case(case):
    if case.get('deriv'):
        return run_deriv(case)
    return K.run_real(case)


def run_deriv(case):
    """operands: x, (y), dx, (dy): x carries d_da = dx, y carries d_db = dy"""
    import warnings
    op = case['op']
    od = case['opds']
    if case['deriv'] == 'rhsd':
        # the RIGHT operand (divisor) carries d_db = dy; the left one has no derivatives
        x, y, dy = [K.build(o) for o in od]
        y.insert_deriv('b', dy)
        f = {'div': lambda: x / y, 'vdiv': lambda: x / y, 'element_div': lambda: x.element_div(y), 'mdiv': lambda: x / y}[op]
    elif case['deriv'] == 'rhs':
        # x carries d_da = dx; the right operand is ANY spelling of a divisor: Python int/float/bool, NumPy scalar,
        # 0-d array, array, Scalar (without derivatives)
        x, y, dx = [K.build(o) for o in od]
        x.insert_deriv('a', dx)
        f = {'div': lambda: x / y, 'floordiv': lambda: x // y, 'mod': lambda: x % y, 'vdiv': lambda: x / y,
             'element_div': lambda: x.element_div(y), 'mdiv': lambda: x / y}[op]
    elif op == 'div':
        x, y, dx, dy = [K.build(o) for o in od]
        x.insert_deriv('a', dx); y.insert_deriv('b', dy)
        f = lambda: x / y
    else:
        x, dx = [K.build(o) for o in od]
        x.insert_deriv('a', dx)
        f = {'reciprocal': lambda: x.reciprocal(), 'log': lambda: x.log(), 'sqrt': lambda: x.sqrt(),
             'arcsin': lambda: x.arcsin(), 'pow': lambda: x ** case['expo'], 'unit': lambda: x.unit(),
             'norm': lambda: x.norm(), 'exp': lambda: x.exp(check=True), 'arccos': lambda: x.arccos(),
             'qrecip': lambda: x.reciprocal(), 'inverse': lambda: x.inverse(), 'mrecip': lambda: x.reciprocal()}[op]
    with warnings.catch_warnings(record=True) as w, K.ambient(case.get('errstate')):
        warnings.simplefilter('always')
        try:
            r = f(); e = None
        except Exception as ex:
            r, e = None, ex
    return r, e, [x.category.__name__ for x in w]


def impl(case):
    r, e, w = run_case(case)
    if e is not None:
        return C.exc_name(e)
    if w:
        return ['warn', w[0]]
    op = case['op']
    if case.get('deriv'):
        exact = (op in ('div', 'reciprocal', 'qrecip') and case['deriv'] not in ('rhs', 'rhsd')) or (case.get('req') and case['req'][1] == 'div_num_d') or (op == 'pow' and case.get('req') and case['req'][1] == 'recip_d')
        res = [obs(r, exact)]
        for key in (['a', 'b'] if (op == 'div' and case['deriv'] not in ('rhs', 'rhsd')) else ['b'] if case['deriv'] == 'rhsd' else ['a']):
            d = r._derivs_.get(key)
            dexact = (op in ('div', 'reciprocal', 'log') and case['deriv'] not in ('rhs', 'rhsd')) or (case.get('req') and case['req'][1] == 'div_num_d') or (op == 'pow' and case.get('req') and case['req'][1] == 'recip_d')
            res.append(obs(d, dexact) if d is not None else 'no-deriv')
        return res
    if op == 'pow' and case['req'] is not None and case['req'][1] in ('pow0D', 'powArr'):
        return obs(r, True, whole_expo(case))
    if op == 'pow' and case['req'] is not None and case['req'][2] in (['half'], ['mhalf']):
        return obs(r, False)
    return obs(r, op in EXACT)


# ------------------------------------------------------------------ model request
def request(case):
    op = case['op']
    opds = K.logical_opds(case)
    if K.lead_bcast([o['shape'] for o in opds]) is None:
        return None
    W = [K.c02_opd(o) for o in opds]
    kinds = [KINDS[o['k']][0] for o in opds]
    par = case.get('params', {})
    if any(o.get('scale') for o in opds):
        return None                                        # scaled data: judged by the direct oracle only
    if case.get('deriv') == 'rhsd':
        return None
    if case.get('deriv') == 'rhs':
        if op in ('div', 'vdiv') and kinds[1] == 'number' and op == 'div':
            return ['c02', 'div_num_d', [int(opds[1]['v8'][0])], [W[0], K.c02_opd(case['opds'][2])]]
        return None
    if case.get('deriv'):
        if op == 'div':
            return ['c02', 'div_d', [], W]
        name = {'reciprocal': 'recip_d', 'log': 'log_d', 'sqrt': 'sqrt_d', 'norm': 'norm_d', 'unit': 'unit_d',
                'qrecip': 'qrecip_d'}.get(op)
        if name:
            return ['c02', name, [], W]
        if op in ('arcsin', 'arccos'):
            return ['c02', 'arcsin_d', [op == 'arccos'], W]
        if op == 'pow':
            ev = case['expo']
            if ev == -1 and isinstance(ev, int):
                return ['c02', 'recip_d', [], W]
            if ev == 0.5:
                return ['c02', 'sqrt_d', [], W]
            if ev in (-2, 1.5, -1.5, 0.75):               # the generic branch (no easy power)
                return ['c02', 'pow_d', [int(ev * 8)], W]
        return None
    if op == 'div':
        if kinds[1] == 'number':
            return ['c02', 'div_num', [int(opds[1]['v8'][0])], [W[0]]]
        if kinds[0] == 'number':
            return ['c02', 'rdiv_num', [int(opds[0]['v8'][0])], [W[1]]]
        return ['c02', 'div', [], W]
    if op == 'floordiv':
        return ['c02', 'floordiv', [], W]
    if op == 'mod':
        if kinds[1] == 'number':
            return ['c02', 'mod_num', [int(opds[1]['v8'][0])], [W[0]]]
        return ['c02', 'mod', [], W]
    if op == 'reciprocal':
        return ['c02', 'recip', [bool(par.get('nozeros', False))], W]
    if op in ('sqrt', 'log', 'exp', 'arcsin', 'arccos'):
        return ['c02', op, [bool(par.get('check', True))], W]
    if op in ('sin', 'cos', 'tan', 'arctan'):
        return ['c02', 'total1', [], W]
    if op == 'arctan2':
        return ['c02', 'arctan2', [], W]
    if op == 'pow':
        a, e = opds
        if kinds[1] == 'number':
            ev = float(K.values_of(e))
            whole = KINDS[e['k']][2] == 'int'
            if whole and ev in (0, 1, 2, 3, 4, -1):
                return ['c02', 'powEasy', [str(int(ev))], [W[0]]]
            if ev == 0.5:
                return ['c02', 'powEasy', ['half'], [W[0]]]
            if ev == -0.5:
                return ['c02', 'powEasy', ['mhalf'], [W[0]]]
        if not a['shape'] and not e['shape']:
            return ['c02', 'pow0D', [], W]
        return ['c02', 'powArr', [], W]
    if op == 'element_div':
        return ['c02', 'element_div', [], W]
    if op == 'vdiv':
        return ['c02', 'vdiv', [], W]
    if op == 'unit':
        return ['c02', 'unit', [], W]
    if op == 'norm':
        return ['c02', 'norm', [], W]
    if op == 'qrecip':
        return ['c02', 'quat_recip', [], W]
    if op == 'inverse':
        return ['c02', 'mat_inverse', [bool(par.get('nozeros', False))], W]
    return None


# ------------------------------------------------------------------ direct oracle
def signature(case, tag=''):
    s = 'c02:' + G.signature(case) + (':fast' if is_fast(case) else '') + (':deriv' if case.get('deriv') else '')
    if case.get('errstate'):
        # cases run under an ambient NumPy error state name the state AND the kind of failure, so that a known finding
        # about one of them never hides a different failure
        s += ':errstate=' + case['errstate'] + (':' + tag if tag else '')
    return s


def is_fast(case):
    p = case.get('params', {})
    return p.get('check') is False or p.get('nozeros') is True


def deriv_expected_mask(case):
    return None


def base_case(case):
    """the operation without its derivative operands"""
    if not case.get('deriv'):
        return case
    od = case['opds']
    if case['deriv'] in ('rhs', 'rhsd') or case['op'] == 'div':
        opds = od[:2]
    elif case['op'] == 'pow':
        opds = [od[0], {'k': 'N', 'shape': [], 'v8': [int(case['expo'] * 8)]}]
    else:
        opds = od[:1]
    return dict(case, opds=opds, deriv=False)


def oracle(case):
    sig = lambda tag: signature(case, tag)
    r, e, w = run_case(case)
    base = base_case(case)
    opds = K.logical_opds(base)
    if K.lead_bcast([o['shape'] for o in opds]) is None:
        return None
    if w:
        return (sig('warning'), '%s: warning escaped: %s' % (case['op'], w))
    if e is not None:
        if is_fast(case) and isinstance(e, ValueError) and K.undefined_unmasked(dict(base, params={})) :
            return None
        if OPS[case['op']].get('inplace') and isinstance(e, (TypeError, ValueError)):
            return None                                    # the in-place form is not accepted: C19's business
        return (sig('exc=' + type(e).__name__), '%s raised %s: %s' % (case['op'], type(e).__name__, e))
    if not isinstance(r, Qube):
        return (sig('type'), '%s returned %s' % (case['op'], type(r).__name__))
    exp = K.expected_mask(base)
    got = expanded_mask(r)
    if list(r._shape_) != exp[0]:
        return (sig('shape'), 'result shape %s, expected %s' % (list(r._shape_), exp[0]))
    if not np.array_equal(got, exp[1]):
        return (sig('mask'), '%s: mask %s, but operand masks U undefined set = %s'
                % (case['op'], got.astype(int).tolist(), exp[1].astype(int).tolist()))
    item = r._item_
    vals = np.broadcast_to(np.asarray(r._values_, dtype=float), r._shape_ + item)
    um = ~got
    if um.any() and not np.isfinite(vals[um]).all():
        return (sig('nonfinite'), '%s: unmasked non-finite value %s' % (case['op'], vals[um].tolist()))
    ref = OPS[case['op']].get('ref')
    if ref is not None and um.any():
        with np.errstate(all='ignore'):
            lead = [np.broadcast_to(K.values_of(o).astype(float),
                                    tuple(exp[0]) + KINDS[o['k']][1]) for o in opds]
            try:
                rv = np.asarray(ref(*lead), dtype=float)
            except Exception:
                rv = None
        if rv is not None and rv.shape == vals.shape:
            a, b = vals[um], rv[um]
            if not np.allclose(a, b, rtol=1e-12, atol=1e-300):
                return (sig('values'), '%s: unmasked values %s differ from the reference %s' % (case['op'], a.tolist(), b.tolist()))
    for key, d in r._derivs_.items():
        dm = expanded_mask(d)
        dv = np.broadcast_to(np.asarray(d._values_, dtype=float), d._shape_ + d._item_)
        ok = ~got & ~dm
        if ok.any() and not np.isfinite(dv[ok]).all():
            return (sig('deriv-nonfinite'), '%s: derivative d_d%s has a non-finite value where neither result nor derivative is masked'
                    % (case['op'], key))
    if case.get('errstate'):
        # what polymath returns must not depend on the caller's NumPy floating-point error state
        here, dflt = C.sx(impl(case)), C.sx(impl(dict(case, errstate=None)))
        if here != dflt:
            return (sig('differs'), '%s under %s: observation %s differs from the one under NumPy\'s default error state %s'
                    % (case['op'], case['errstate'], here[:200], dflt[:200]))
    return None


# ------------------------------------------------------------------ generation
def mk(case):
    case['req'] = request(case)
    opds = K.logical_opds(base_case(case))
    nt = any(K.opd_mask_bits(o).any() for o in opds)
    if K.lead_bcast([o['shape'] for o in opds]) is not None and OPS[case['op']]['fail'] is not None:
        nt = nt or K.undefined_unmasked(dict(base_case(case), params={}))
    case['nontrivial'] = bool(nt)
    case['kind'] = case['op'] + ':' + '+'.join(o['k'] for o in case['opds']) + (':fast' if is_fast(case) else '') \
        + (':deriv' if case.get('deriv') else '') + ((':errstate=' + case['errstate']) if case.get('errstate') else '')
    return case


BIN = ['div', 'floordiv', 'mod', 'pow']
UN = [('sqrt', 'sqrt'), ('log', 'log'), ('exp', 'exp'), ('arcsin', 'asin'), ('arccos', 'asin'), ('reciprocal', 'div'),
      ('sin', 'angle'), ('cos', 'angle'), ('tan', 'angle'), ('arctan', 'any')]
FAST = {'sqrt': {'check': False}, 'log': {'check': False}, 'exp': {'check': False}, 'arcsin': {'check': False},
        'arccos': {'check': False}, 'reciprocal': {'nozeros': True}}


def all_undefined(o, op):
    bad = {'div': 0, 'sqrt': -8, 'log': 0, 'asin': 16, 'exp': 6400}
    o = dict(o)
    o['v8'] = [bad[op]] * len(o['v8'])
    return o


def gen_cases(rng, tier):
    thorough = tier == 'thorough'
    reps = 40 if thorough else 8
    cases = []
    # 1. binary scalar operators with a restricted domain: every kind pair x shape pairs
    for _ in range(reps):
        for op in BIN:
            for ka in ('S', 'Si', 'B', 'N', 'Ni', 'A'):
                for kb in ('S', 'Si', 'B', 'N', 'Ni', 'A'):
                    if not G.scalar_bin_ok(op, ka, kb):
                        continue
                    for sa, sb in G.SHAPE_PAIRS:
                        if (KINDS[ka][0] == 'number' and sa) or (KINDS[kb][0] == 'number' and sb):
                            continue
                        if not thorough and rng.random() < 0.5:
                            continue
                        a = G.rand_opd(rng, ka, sa, 'base' if op == 'pow' else 'any')
                        b = G.rand_opd(rng, kb, sb, 'expo' if op == 'pow' else 'div')
                        if rng.random() < 0.1 and op != 'pow':
                            b = all_undefined(b, 'div')
                        cases.append(mk({'op': op, 'opds': [a, b]}))
    # 2. unary functions, default and fast forms
    for _ in range(reps * 2):
        for op, role in UN:
            for k in ('S', 'Si'):
                for s in G.SHAPES1:
                    a = G.rand_opd(rng, k, s, role)
                    if rng.random() < 0.12 and role in ('div', 'sqrt', 'log', 'asin', 'exp'):
                        a = all_undefined(a, role)
                    cases.append(mk({'op': op, 'opds': [a]}))
                    if op in FAST and k == 'S':
                        b = G.rand_opd(rng, k, s, role)
                        r = rng.random()
                        if r < 0.35:                                # inside the domain everywhere
                            b['v8'] = [abs(x) % 8 + 1 for x in b['v8']]
                        elif r < 0.75:                              # poles only underneath the mask: must not raise
                            bad = {'div': 0, 'sqrt': -8, 'log': 0, 'asin': 16, 'exp': 6400}[role]
                            bits = mask_bits(b['mask'], b['shape'])
                            b['v8'] = [bad if m else abs(x) % 8 + 1 for x, m in zip(b['v8'], bits)]
                        cases.append(mk({'op': op, 'opds': [b], 'params': dict(FAST[op])}))
    for _ in range(reps):
        for sa, sb in G.SHAPE_PAIRS:
            cases.append(mk({'op': 'arctan2', 'opds': [G.rand_opd(rng, 'S', sa, 'div'), G.rand_opd(rng, 'S', sb, 'div')]}))
    # 3. vectors, matrices, quaternions
    for _ in range(reps * 2):
        for op, ka, kb in (('element_div', 'V3', 'V3'), ('element_div', 'V2', 'V2'), ('element_div', 'P', 'P'),
                           ('vdiv', 'V3', 'S'), ('vdiv', 'V2', 'Si'), ('vdiv', 'Q', 'S'), ('vdiv', 'V3', 'N')):
            for sa, sb in G.SHAPE_PAIRS:
                if KINDS[kb][0] == 'number' and sb:
                    continue
                if not thorough and rng.random() < 0.5:
                    continue
                cases.append(mk({'op': op, 'opds': [G.rand_opd(rng, ka, sa), G.rand_opd(rng, kb, sb, 'div')]}))
        for op, ka in (('unit', 'V3'), ('unit', 'V2'), ('unit', 'P'), ('norm', 'V3'), ('qrecip', 'Q'),
                       ('inverse', 'M2'), ('inverse', 'M3')):
            for s in G.SHAPES1:
                a = G.rand_opd(rng, ka, s)
                if op == 'inverse' and not G.lapack_agrees(a):
                    continue
                cases.append(mk({'op': op, 'opds': [a]}))
        for s in G.SHAPES1:                                         # fast path of inverse: only non-singular input
            a = G.rand_opd(rng, 'M2', s)
            n = int(np.prod(s, dtype=int))
            a['v8'] = [x for _ in range(n) for x in (8, rng.choice([0, 8]), 0, rng.choice([8, 16, -8]))]
            cases.append(mk({'op': 'inverse', 'opds': [a], 'params': {'nozeros': True}}))
    # 4. derivative formulas (they divide again).  The derivative operands themselves are unmasked: remask_or()
    #    REPLACES (does not OR) the masks of derivatives, which is outside this property (reported in DESIGN.d/C02.md)
    def dop(k, s, role='any'):
        o = G.rand_opd(rng, k, s, role)
        o['mask'] = 'F'
        return o
    for _ in range(reps * 2):
        for sa, sb in G.SHAPE_PAIRS:
            if K.lead_bcast([sa, sb]) is None:
                continue
            x, y = G.rand_opd(rng, 'S', sa, 'any'), G.rand_opd(rng, 'S', sb, 'div')
            dx, dy = dop('S', sa), dop('S', sb)
            cases.append(mk({'op': 'div', 'opds': [x, y, dx, dy], 'deriv': True}))
        for op, role in (('reciprocal', 'div'), ('log', 'log'), ('sqrt', 'sqrt'), ('arcsin', 'asin'), ('arccos', 'asin'),
                         ('exp', 'exp')):
            for s in G.SHAPES1:
                x, dx = G.rand_opd(rng, 'S', s, role), dop('S', s)
                cases.append(mk({'op': op, 'opds': [x, dx], 'deriv': True}))
        for ev in (-2, -1, 0.5, -0.5, 1.5, -1.5, 3, 0.75):
            for s in G.SHAPES1:
                x, dx = G.rand_opd(rng, 'S', s, 'base'), dop('S', s)
                cases.append(mk({'op': 'pow', 'opds': [x, dx], 'deriv': True, 'expo': ev}))
        for op, k in (('unit', 'V3'), ('norm', 'V3'), ('unit', 'V2'), ('qrecip', 'Q'), ('norm', 'P')):
            for s in G.SHAPES1:
                x, dx = G.rand_opd(rng, k, s), dop(k, s)
                cases.append(mk({'op': op, 'opds': [x, dx], 'deriv': True}))
    # 4b. every restricted-domain binary operation on a left operand that CARRIES DERIVATIVES, with every spelling of the
    #     right operand: Python int / float / bool, NumPy float64 / int64 scalar, 0-d array, array, Scalar (zero included)
    RHS = ['N', 'Ni', 'Nb', 'Nf64', 'Ni64', 'A', 'S', 'Si']
    for _ in range(reps):
        for op, kx in (('div', 'S'), ('mod', 'S'), ('floordiv', 'S'), ('vdiv', 'V3'), ('vdiv', 'P'), ('vdiv', 'Q'),
                       ('mdiv', 'M2')):
            for ky in RHS:
                for sa, sb in G.SHAPE_PAIRS:
                    if KINDS[ky][0] == 'number' and sb:
                        continue
                    if K.lead_bcast([sa, sb]) is None:
                        continue
                    if KINDS[ky][0] != 'number' and not thorough and rng.random() < 0.6:
                        continue
                    x, y = G.rand_opd(rng, kx, sa), G.rand_opd(rng, ky, sb, 'bool' if ky == 'Nb' else 'div')
                    if KINDS[ky][0] == 'number' and rng.random() < 0.5:
                        y['v8'] = [0]
                    cases.append(mk({'op': op, 'opds': [x, y, dop(kx, sa)], 'deriv': 'rhs'}))
        for sa, sb in G.SHAPE_PAIRS:
            if K.lead_bcast([sa, sb]) is None:
                continue
            cases.append(mk({'op': 'element_div', 'opds': [G.rand_opd(rng, 'V3', sa), G.rand_opd(rng, 'V3', sb, 'div'),
                                                          dop('V3', sa)], 'deriv': 'rhs'}))
        for km in ('M2', 'M3'):
            for s in G.SHAPES1:
                for op in ('inverse', 'mrecip'):
                    a = G.rand_opd(rng, km, s)
                    if G.lapack_agrees(a):
                        cases.append(mk({'op': op, 'opds': [a, dop(km, s)], 'deriv': True}))
    # 4b'. the DIVISOR carries derivatives and has exact zeros (element_div, Vector / Scalar, Scalar / Scalar)
    for _ in range(reps * 2):
        for op, kx, ky in (('element_div', 'V3', 'V3'), ('element_div', 'P', 'P'), ('vdiv', 'V3', 'S'), ('vdiv', 'Q', 'S'),
                           ('div', 'S', 'S'), ('mdiv', 'M2', 'S')):
            for sa, sb in G.SHAPE_PAIRS:
                if K.lead_bcast([sa, sb]) is None or (not thorough and rng.random() < 0.5):
                    continue
                cases.append(mk({'op': op, 'opds': [G.rand_opd(rng, kx, sa), G.rand_opd(rng, ky, sb, 'div'), dop(ky, sb)],
                                 'deriv': 'rhsd'}))
    # 4b''. in-place forms of the restricted-domain binary operators, also on item-rank >= 1 targets (warnings observed)
    INTO = [(sa, sb) for sa, sb in G.SHAPE_PAIRS if K.lead_bcast([sa, sb]) == list(sa)]
    for _ in range(reps):
        for op, kx in (('idiv', 'S'), ('ifloordiv', 'S'), ('imod', 'S'), ('ifloordiv', 'Si'), ('imod', 'Si'), ('ivdiv', 'V3'),
                       ('ivdiv', 'P'), ('ivmod', 'V3'), ('ivmod', 'P'), ('ivmod', 'V2'), ('ivfloordiv', 'V3'), ('ivfloordiv', 'P'),
                       ('ivdiv', 'Q'), ('ivdiv', 'M2')):
            for ky in ('S', 'Si', 'N', 'Ni', 'A'):
                for sa, sb in INTO:
                    if KINDS[ky][0] == 'number' and sb:
                        continue
                    if not thorough and rng.random() < 0.5:
                        continue
                    y = G.rand_opd(rng, ky, sb, 'div')
                    if KINDS[ky][0] == 'number' and rng.random() < 0.5:
                        y['v8'] = [0]
                    cases.append(mk({'op': op, 'opds': [G.rand_opd(rng, kx, sa), y]}))
    # 4c. the matrix inverse in every spelling, also on tiny but perfectly conditioned matrices (entries scaled by exact
    #     powers of two 2**-7 ... 2**-40): masked iff the determinant is EXACTLY zero or the operand is masked
    for _ in range(reps * 2):
        for km in ('M2', 'M3'):
            for s in G.SHAPES1:
                for op in ('inverse', 'mrecip', 'rdivm', 'mpowm1'):
                    a = G.rand_opd(rng, km, s)
                    a['scale'] = rng.choice([0, 7, 10, 14, 20, 27, 40])
                    if G.lapack_agrees(a):
                        cases.append(mk({'op': op, 'opds': [a]}))
            for sa, sb in G.SHAPE_PAIRS:
                if K.lead_bcast([sa, sb]) is None or (not thorough and rng.random() < 0.5):
                    continue
                a, b = G.rand_opd(rng, km, sa), G.rand_opd(rng, km, sb)
                b['scale'] = rng.choice([0, 7, 14, 20, 40])
                if G.lapack_agrees(b):
                    cases.append(mk({'op': 'mmdiv', 'opds': [a, b]}))
    # 5. the caller's NumPy floating-point error state: a slice of the restricted-domain cases is repeated inside
    #    np.errstate(all='ignore' | 'warn' | 'raise') and after a global np.seterr(all='ignore'); the observation must be
    #    the one obtained under NumPy's default state (same model answer, same oracle)
    extra = []
    k = 0
    for c in cases:
        if OPS[c['op']]['fail'] is None and not c.get('deriv'):
            continue
        if rng.random() < (0.35 if c['op'] == 'pow' or c.get('deriv') or is_fast(c) else 0.15):
            d = {x: v for x, v in c.items() if x not in ('req', 'kind', 'nontrivial')}
            d['errstate'] = K.AMBIENT[k % len(K.AMBIENT)]
            k += 1
            extra.append(mk(d))
    return cases + extra


def neighbours(case):
    for k, o in enumerate(case['opds']):
        if 'mask' in o and o['mask'] != 'F':
            c = dict(case, opds=[dict(x) for x in case['opds']])
            c['opds'][k]['mask'] = 'F'
            yield mk(c)
