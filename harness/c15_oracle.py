"""C15 direct oracle: the property judged on the real code with plain NumPy applied to the tagged arrays.
Independent of the Lean model.  `expect(case)` returns the canonical expected observation, 'reject'
(NumPy rejects the arguments, so must polymath), or None (the property is silent)."""
import numpy as np
from c15_objs import *

CLEAN = ('ValueError', 'IndexError', 'TypeError', 'Other:AxisError')


def classes_of(names):
    return [CLS[n] for n in names]


def call(case):
    """run the real code"""
    op, a = case['op'], case['args']
    if op == 'stack':
        objs = [None if o is None else build(o) for o in case['objs']]
        return Qube.stack(*objs, recursive=a['rec'])
    if op == 'from_scalars':
        objs = [build(o) for o in case['objs']]
        return Qube.from_scalars(*objs, recursive=a['rec'], classes=classes_of(a['classes']))
    q = build(case['obj'])
    tup = lambda x: x if isinstance(x, int) else tuple(x)
    if op == 'reshape':
        return q.reshape(tup(a['shape']), a['rec'])
    if op == 'flatten':
        return q.flatten(a['rec'])
    if op == 'swap_axes':
        return q.swap_axes(a['axis1'], a['axis2'], a['rec'])
    if op == 'roll_axis':
        return q.roll_axis(a['axis'], a['start'], a['rec'], a['rank'])
    if op == 'move_axis':
        return q.move_axis(tup(a['source']), tup(a['destination']), a['rec'], a['rank'])
    if op == 'broadcast_to':
        return q.broadcast_to(tuple(a['shape']), a['rec'])
    if op == 'extract_numer':
        return q.extract_numer(a['axis'], a['index'], tuple(classes_of(a['classes'])), a['rec'])
    if op == 'extract_denom':
        return q.extract_denom(a['axis'], a['index'], tuple(classes_of(a['classes'])))
    if op == 'extract_denoms':
        return q.extract_denoms()
    if op == 'slice_numer':
        return q.slice_numer(a['axis'], a['index1'], a['index2'], tuple(classes_of(a['classes'])), a['rec'])
    if op == 'transpose_numer':
        return q.transpose_numer(a['axis1'], a['axis2'], a['rec'])
    if op == 'transpose_denom':
        return q.transpose_denom(a['axis1'], a['axis2'])
    if op == 'reshape_numer':
        return q.reshape_numer(tuple(a['shape']), tuple(classes_of(a['classes'])), a['rec'])
    if op == 'flatten_numer':
        return q.flatten_numer(tuple(classes_of(a['classes'])), a['rec'])
    if op == 'reshape_denom':
        return q.reshape_denom(tuple(a['shape']))
    if op == 'flatten_denom':
        return q.flatten_denom()
    if op == 'join_items':
        return q.join_items(classes_of(a['classes']))
    if op == 'split_items':
        return q.split_items(a['nrank'], classes_of(a['classes']))
    if op == 'swap_items':
        return q.swap_items(classes_of(a['classes']))
    if op == 'to_scalar':
        return q.to_scalar(a['index'], a['rec'])
    if op == 'to_scalars':
        return q.to_scalars(a['rec'])
    if op in ('as_row', 'as_column', 'as_diagonal'):
        return getattr(q, op)(a['rec'])
    if op == 'as_class':
        c = CLS[a['target']]
        return getattr(c, 'as_' + a['target'].lower())(q, recursive=a['rec'])
    raise KeyError(op)


def conversion_problem(case, r):
    """as_<class> conversions (swept, not modelled): class coercion must leave every element where it is.
    Returns None or (tag, text)."""
    o, a = case['obj'], case['args']
    V, M, ds = ref_arrays(o)
    n = prod(o['shape'])
    isz = prod(o['numer']) * prod(o['denom'])
    if not isinstance(r, CLS[a['target']]):
        return ('class', 'result is a %s' % type(r).__name__)
    if list(r._shape_) != list(o['shape']):
        return ('leading', 'leading shape changed to %s' % (r._shape_,))
    def flat_eq(x, Vx, Mx, size):
        if prod(x._numer_) * prod(x._denom_) != size:
            return 'item size changed: %s / %s' % (x._numer_, x._denom_)
        if not np.array_equal(expanded_mask(x), Mx):
            return 'mask changed'
        got = np.broadcast_to(np.asarray(x._values_), tuple(x._shape_) + tuple(x._numer_) + tuple(x._denom_))
        keep = ~Mx.reshape(n)
        if not np.array_equal(np.asarray(got, dtype='float64').reshape(n, size)[keep], Vx.reshape(n, size)[keep]):
            return 'unmasked values changed or moved'
        return None
    p = flat_eq(r, V, M, isz)
    if p:
        return ('values', p)
    for key, dk, Vk, Mk in ds:
        if key in r._derivs_:
            p = flat_eq(r._derivs_[key], Vk, Mk, prod(o['numer']) * prod(dk))
            if p:
                return ('deriv', 'derivative %s: %s' % (key, p))
        elif a['rec'] and not (a['target'] == 'Matrix' and o['cls'] in ('Vector', 'Vector3', 'Pair', 'Quaternion')
                               and len(o['denom']) == 1):
            # recursive=True promises to convert the derivatives: constructor, flatten_numer and (since the repair of
            # the split branch) split_items paths all keep them; only as_matrix of a Vector with one denominator
            # axis goes through join_items, which removes derivatives by design
            return ('derivs-dropped', 'derivative %s is missing from the result although recursive=True' % key)
    return None


# ------------------------------------------------------------------------------------------ leading-axis operations
def np_leading(case, I, shape):
    """the NumPy function applied to the array I of leading positions; returns I' or raises"""
    op, a = case['op'], case['args']
    r = len(shape)
    if op == 'reshape':
        return np.reshape(I, a['shape'] if isinstance(a['shape'], int) else tuple(a['shape']))
    if op == 'flatten':
        return I.ravel()
    if op == 'swap_axes':
        return np.swapaxes(I, a['axis1'], a['axis2'])
    if op in ('roll_axis', 'move_axis'):
        rank = a['rank'] or r
        if rank < r:
            raise ValueError('rank too small')
        I = I.reshape((1,) * (rank - r) + tuple(shape))
        if op == 'roll_axis':
            return np.rollaxis(I, a['axis'], a['start'])
        return np.moveaxis(I, a['source'] if isinstance(a['source'], int) else tuple(a['source']),
                           a['destination'] if isinstance(a['destination'], int) else tuple(a['destination']))
    if op == 'broadcast_to':
        return np.broadcast_to(I, tuple(a['shape']))
    raise KeyError(op)


def gather(o, Ip):
    """expected observation when the leading positions are rearranged to Ip"""
    V, M, ds = ref_arrays(o)
    n = prod(o['shape'])
    isz = prod(o['numer']) * prod(o['denom'])
    out_shape = list(Ip.shape)
    V2 = V.reshape(n, isz)[Ip] if True else None
    M2 = M.reshape(n)[Ip]
    d2 = []
    for key, dk, Vk, Mk in ds:
        d2.append((key, dk, Vk.reshape(n, prod(o['numer']) * prod(dk))[Ip], Mk.reshape(n)[Ip]))
    return out_shape, V2, M2, d2


def expect_leading(case):
    o = case['obj']
    op, a = case['op'], case['args']
    shape = list(o['shape'])
    n = prod(shape)
    I = np.arange(n, dtype='int64').reshape(shape)
    rec = a.get('rec', True)
    if not shape and op in ('roll_axis', 'move_axis'):
        # documented extension: a shapeless object counts as rank 1 and is returned unchanged
        try:
            np_leading(dict(case, args=dict(a, rank=None)), I.reshape((1,)), [1])
        except Exception:
            return None                      # arguments illegal for rank 1: no demand either way
        Ip = I
    elif not shape and op == 'flatten':
        return None                          # flatten of a shapeless object: left alone by design
    elif op == 'broadcast_to' and list(a['shape']) == [] and shape and n == 1:
        # squeeze special case: NumPy rejects, polymath documents "broadcast to ()" of a one-element object.
        # Either a clean rejection or exactly that one element (value, mask, derivatives) is acceptable.
        Ip = I.reshape(())
        out_shape, V2, M2, d2 = gather(o, Ip)
        return ('or-reject', render(o['cls'], out_shape, o['numer'], o['denom'], V2, M2, d2 if rec else []))
    else:
        try:
            Ip = np_leading(case, I, shape)
        except Exception:
            return 'reject'
    Ip = np.asarray(Ip)
    identity = Ip.shape == tuple(shape) and bool((Ip == I).all())
    out_shape, V2, M2, d2 = gather(o, Ip)
    full = render(o['cls'], out_shape, o['numer'], o['denom'], V2, M2, d2)
    bare = render(o['cls'], out_shape, o['numer'], o['denom'], V2, M2, [])
    if rec:
        return full
    if identity and op != 'broadcast_to':
        # identity rearrangement with recursive=False: the code may hand back self (derivatives still attached,
        # correctly arranged) or a derivative-less copy; neither is a relabeling error
        return ('either', full, bare)
    return bare


# ------------------------------------------------------------------------------------------ item operations
def pick_class(names, current, nrank, numer):
    """Qube.cast: the first class of the list that is the current one or admits this numerator"""
    for nme in names:
        if nme == current:
            return current
        r, s = CLS_TABLE[nme]
        if s is not None and tuple(s) != tuple(numer):
            continue
        if r is not None and r != nrank:
            continue
        return nme
    return current


def norm_axis(ax, n):
    if -n <= ax < n:
        return ax % n
    raise ValueError('axis')


def expect_item(case):
    o = case['obj']
    op, a = case['op'], case['args']
    shape, numer, denom = list(o['shape']), list(o['numer']), list(o['denom'])
    L, nr, dr = len(shape), len(numer), len(denom)
    V, M, ds = ref_arrays(o)
    rec = a.get('rec', False)
    cls = o['cls']
    float_only = {'Vector3', 'Matrix', 'Matrix3', 'Quaternion'}

    def result(cls2, numer2, denom2, f, derivs=True, fd=None):
        """f maps a full value array (given its denominator) to the new one"""
        d2 = []
        if derivs and rec:
            for key, dk, Vk, Mk in ds:
                Vk2, dk2 = (fd or f)(Vk, dk)
                d2.append((key, dk2, Vk2, Mk))
        V2, den2 = f(V, denom)
        assert list(den2) == list(denom2), (den2, denom2)
        return render(cls2, shape, numer2, denom2, V2, M, d2)

    try:
        if op in ('extract_numer', 'to_scalar'):
            ax = norm_axis(a['axis'] if op == 'extract_numer' else 0, nr)
            names = a['classes'] if op == 'extract_numer' else ['Scalar']
            ix = a['index']
            if not -numer[ax] <= ix < numer[ax]:
                return 'reject'
            numer2 = numer[:ax] + numer[ax + 1:]
            cls2 = pick_class(names, 'Qube', len(numer2), numer2)
            return result(cls2, numer2, denom, lambda X, dk: (np.take(X, ix, axis=L + ax), dk))
        if op == 'to_scalars':
            outs = ['tuple']
            for ix in range(numer[0]):
                outs.append(result('Scalar', [], denom, lambda X, dk: (np.take(X, ix, axis=L), dk)))
            return outs
        if op == 'extract_denom':
            ax = norm_axis(a['axis'], dr)
            ix = a['index']
            if not -denom[ax] <= ix < denom[ax]:
                return 'reject'
            denom2 = denom[:ax] + denom[ax + 1:]
            cls2 = pick_class([cls] + list(a['classes']), 'Qube', nr, numer)
            return result(cls2, numer, denom2, lambda X, dk: (np.take(X, ix, axis=L + nr + ax), dk[:ax] + dk[ax + 1:]),
                          derivs=False)
        if op == 'extract_denoms':
            if dr == 0:
                rec = True
                return ['tuple', result(cls, numer, denom, lambda X, dk: (X, dk))]
            if dr != 1:
                return 'reject'
            return ['tuple'] + [result(cls, numer, [], lambda X, dk, k=k: (X[..., k], []), derivs=False)
                                for k in range(denom[0])]
        if op == 'slice_numer':
            ax = norm_axis(a['axis'], nr)
            sl = slice(a['index1'], a['index2'])
            n2 = len(range(*sl.indices(numer[ax])))
            numer2 = numer[:ax] + [n2] + numer[ax + 1:]
            cls2 = pick_class(a['classes'], 'Qube', nr, numer2)
            return result(cls2, numer2, denom, lambda X, dk: (X[(slice(None),) * (L + ax) + (sl,)], dk))
        if op == 'transpose_numer':
            a1, a2 = norm_axis(a['axis1'], nr), norm_axis(a['axis2'], nr)
            numer2 = list(numer); numer2[a1], numer2[a2] = numer2[a2], numer2[a1]
            if CLS_TABLE[cls][1] is not None and tuple(numer2) != tuple(CLS_TABLE[cls][1]):
                return 'reject'
            return result(cls, numer2, denom, lambda X, dk: (np.swapaxes(X, L + a1, L + a2), dk))
        if op == 'transpose_denom':
            a1, a2 = norm_axis(a['axis1'], dr), norm_axis(a['axis2'], dr)
            denom2 = list(denom); denom2[a1], denom2[a2] = denom2[a2], denom2[a1]
            return result(cls, numer, denom2, lambda X, dk: (np.swapaxes(X, L + nr + a1, L + nr + a2), denom2), derivs=False)
        if op in ('reshape_numer', 'flatten_numer', 'as_row', 'as_column'):
            if op == 'reshape_numer':
                t, names = list(a['shape']), a['classes']
            elif op == 'flatten_numer':
                t, names = [prod(numer)], a['classes']
            elif op == 'as_row':
                t, names = [1] + numer, ['Matrix']
            else:
                t, names = numer + [1], ['Matrix']
            if any(x < 0 for x in t):
                return None if prod([x for x in t if x >= 0]) and -1 in t else 'reject'
            if prod(t) != prod(numer):
                return 'reject'
            cls2 = pick_class(names, 'Qube', len(t), t)
            return result(cls2, t, denom, lambda X, dk: (X.reshape(shape + t + list(dk)), dk))
        if op in ('reshape_denom', 'flatten_denom'):
            t = list(a['shape']) if op == 'reshape_denom' else [prod(denom)]
            if any(x < 0 for x in t) or prod(t) != prod(denom):
                return 'reject'
            if cls == 'Boolean' and t:
                return 'reject'                  # Boolean admits no denominator
            return result(cls, numer, t, lambda X, dk: (X.reshape(shape + numer + t), t), derivs=False)
        if op == 'join_items':
            if dr == 0:
                return render(cls, shape, numer, denom, V, M, [])        # self.wod
            numer2 = numer + denom
            cls2 = pick_class(a['classes'], 'Qube', len(numer2), numer2)
            return result(cls2, numer2, [], lambda X, dk: (X, []), derivs=False)
        if op == 'split_items':
            k = a['nrank']
            item = numer + denom
            if not 0 <= k <= len(item):
                return None                  # nrank outside 0..rank: not an axis argument, the property is silent
            cls2 = pick_class(a['classes'], 'Qube', k, item[:k])
            if cls2 == 'Boolean' and item[k:]:
                return 'reject'
            return result(cls2, item[:k], item[k:], lambda X, dk: (X, item[k:]), derivs=False)
        if op == 'swap_items':
            cls2 = pick_class(a['classes'], 'Qube', dr, denom)
            if cls2 == 'Boolean' and numer:
                return 'reject'
            perm = list(range(L)) + list(range(L + nr, L + nr + dr)) + list(range(L, L + nr))
            return result(cls2, denom, numer, lambda X, dk: (np.transpose(X, perm), numer), derivs=False)
        if op == 'as_diagonal':
            n0 = numer[0]
            def diag(X, dk):
                Y = np.zeros(tuple(shape) + (n0, n0) + tuple(dk), dtype='int64')
                for i in range(n0):
                    Y[(slice(None),) * L + (i, i)] = X[(slice(None),) * L + (i,)]
                return Y, dk
            return result('Matrix', [n0, n0], denom, diag)
    except ValueError:
        return 'reject'
    return None


# ------------------------------------------------------------------------------------------ stack / from_scalars
def expect_multi(case):
    op, a = case['op'], case['args']
    objs = case['objs']
    real = [o for o in objs if o is not None]
    try:
        out = list(np.broadcast_shapes(*[tuple(o['shape']) for o in real]))
    except ValueError:
        return 'reject'
    rec = a['rec']
    first = real[0]
    numer, denom = list(first['numer']), list(first['denom'])
    refs = [None if o is None else ref_arrays(o) for o in objs]
    keys = sorted({k for r in refs if r for (k, _, _, _) in r[2]})
    # A derivative missing from some operand is filled with a None / zero place-holder.  In `stack` the mask of such a
    # place-holder row follows the representation of the other masks (masked when they are all the scalar True):
    # place-holder rows are not elements of any input, so they are DON'T-CARE ('?') — but every row that comes from
    # an operand that carries the derivative must be that operand's derivative, broadcast like the operand itself.
    def bc(X, item):
        return np.broadcast_to(X, tuple(out) + tuple(X.shape[len(X.shape) - len(item):]))
    if op == 'stack':
        # np.stack of the broadcast operands along a new first axis
        Vs = [bc(r[0], numer + denom) for r in refs]
        Ms = [np.broadcast_to(r[1], tuple(out)) for r in refs]
        V2, M2 = np.stack(Vs), np.stack(Ms)
        d2 = []
        if rec:
            for k in keys:
                dks = [next((dk for (kk, dk, _, _) in r[2] if kk == k), None) for r in refs]
                dk = next(d for d in dks if d is not None)
                if any(d is not None and d != dk for d in dks):
                    return None             # derivative denominators disagree: not a relabeling question
                parts, mparts = [], []
                for r in refs:
                    hit = next(((Vk, Mk) for (kk, _, Vk, Mk) in r[2] if kk == k), None)
                    if hit is None:         # missing derivative: zero, unmasked (documented)
                        parts.append(np.zeros(tuple(out) + tuple(numer) + tuple(dk), dtype='int64'))
                        mparts.append(np.zeros(tuple(out), dtype=bool))
                    else:
                        parts.append(bc(hit[0], numer + dk)); mparts.append(np.broadcast_to(hit[1], tuple(out)))
                d2.append((k, dk, np.stack(parts), np.stack(mparts)))
        exp = render(first['cls'], [len(objs)] + out, numer, denom, V2, M2, d2)
        P = prod(out)
        for ent in exp[6]:                      # [key, denom_k, vals, bits]
            isz = prod(numer) * prod(ent[1])
            for row, r in enumerate(refs):
                if not any(kk == ent[0] for (kk, _, _, _) in r[2]):
                    ent[2][row * P * isz:(row + 1) * P * isz] = ['?'] * (P * isz)
                    ent[3][row * P:(row + 1) * P] = ['?'] * P
        return exp
    if op == 'from_scalars':
        # components become a new FIRST numerator axis; the mask is the union of the component masks
        Vs = [bc(r[0], denom) for r in refs]
        V2 = np.stack(Vs, axis=len(out))
        M2 = np.zeros(tuple(out), dtype=bool)
        for r in refs:
            M2 = M2 | np.broadcast_to(r[1], tuple(out))
        n = len(objs)
        cls2 = pick_class(a['classes'], 'Qube', 1, [n])
        d2 = []
        if rec:
            for k in keys:
                dks = [next((dk for (kk, dk, _, _) in r[2] if kk == k), None) for r in refs]
                dk = next(d for d in dks if d is not None)
                if any(d is not None and d != dk for d in dks):
                    return None
                parts = []
                Mk2 = np.zeros(tuple(out), dtype=bool)
                for r in refs:
                    hit = next(((Vk, Mk) for (kk, _, Vk, Mk) in r[2] if kk == k), None)
                    if hit is None:
                        parts.append(np.zeros(tuple(out) + tuple(dk), dtype='int64'))
                    else:
                        parts.append(bc(hit[0], dk)); Mk2 = Mk2 | np.broadcast_to(hit[1], tuple(out))
                d2.append((k, dk, np.stack(parts, axis=len(out)), Mk2))
        return render(cls2, out, [n], denom, V2, M2, d2)
    return None


LEADING = ('reshape', 'flatten', 'swap_axes', 'roll_axis', 'move_axis', 'broadcast_to')


def expect(case):
    if case['op'] == 'as_class':
        return None                     # judged by conversion_problem on the raw result
    if case['op'] in LEADING:
        return expect_leading(case)
    if case['op'] in ('stack', 'from_scalars'):
        return expect_multi(case)
    return expect_item(case)
