"""C15 — reshaping and item-restructuring operations are pure relabelings."""
import itertools
import numpy as np
from absn import *
import common as C
from c15_objs import *
from c15_oracle import expect, call, CLEAN, conversion_problem

PROP = 'C15'
LEAN_MODULES = ['PMV.Props.C15', 'PMV.Props.C15Items', 'PMV.Props.C15Conv', 'PMV.Props.C15Scalars', 'PMV.Props.C15Denom', 'PMV.Props.C15Swap', 'PMV.Lemmas.C15Calls', 'PMV.Lemmas.Ravel', 'PMV.Lemmas.AxisPerm', 'PMV.Lemmas.AxisOps']
PARALLEL = True
MANIFEST = {
    'text': 'Kernel-checked theorems about a code-shaped Lean model of polymath/extensions/shaper.py, item_ops.py and '
            'Qube.broadcast_to (PMV/Props/C15*.lean; lemmas in PMV/Lemmas/C15Calls, Ravel, AxisPerm, AxisOps): at the level of '
            'the WHOLE object, for reshape, flatten, swap_axes, roll_axis, move_axis (any number of axes, rank= extension) and '
            'broadcast_to, values, mask and EVERY derivative of the result are the input\'s re-indexed by ONE map on the leading '
            'part (by induction over the derivative list, through the constructor and insert_deriv), class/numerator/'
            'denominator and the item part of every index untouched; that map is NumPy\'s own (original arguments vs the '
            'code\'s normalised ones, negatives, -1 targets independent of the item size); axis normalisation is idempotent and '
            'rejects what NumPy rejects; the maps are bijections between valid index sets (ravel/unravel for every shape, axis '
            'permutations for every rank), inverse pairs compose to the identity (swap/swap, roll/roll back, move/move back, '
            'reshape/reshape, flatten/reshape, join_items/split_items, as_row|as_column/flatten_numer), masked counts are '
            'preserved; item operations (reshape_numer, transpose_numer, extract_numer, slice_numer incl. their derivative '
            'recursion; the denominator operations; stack rows) act on the item part / the new axis only; '
            'from_scalars∘to_scalars = id; the value-preserving class conversions are modelled and proved to be class '
            'coercions where they are relabelings (counterexamples for the recorded corner). Tied to /repo on every run by a correspondence check with identifier-tagged values, masks and '
            'derivatives over all classes, item shapes, leading shapes to rank 4, all legal and illegal arguments, operand '
            'provenance (memory layouts, previous shaping operations) and warm caches; the direct oracle is NumPy applied to '
            'the tagged arrays.',
    'design': 'DESIGN.md §3 C15; DESIGN.d/C15.md',
    'technique': 'Lean 4 proof (index maps on functional arrays, induction over shape lists and derivative lists) + '
                 'model/code correspondence',
    'note': 'Trusted: Lean kernel; hand-written models Model/NpShape.lean (NumPy primitives), Model/Shaper.lean, '
            'Model/ItemOps.lean (checked against the code and against NumPy by the correspondence run); harness abstraction. '
            'Nine defects repaired (DESIGN 2.7 #19, #25, #26 and six found here; all merged); one recorded '
            '(KF-C15-conv-leading: as_matrix/as_pair/as_vector3 re-read the raw array; proved as counterexamples on the model). '
            'as_diagonal, the derivative union of stack and multi-axis move inverses are tied but have no '
            'theorem (DESIGN.d/C15.md §6).',
}
RULE = ('operand provenance: fresh C-contiguous arrays, np.asfortranarray copies, transposed views of C bases, '
        'every-second-element views of wider bases (last / first axis), and results of a previous shaping operation '
        '(swap_axes, move_axis, roll_axis, broadcast_to applied to a C-contiguous pre-image), for values, mask arrays '
        'and derivative arrays alike, for every operation, in both tiers; warm caches: 35 % of the operands had '
        'antimask / wod / corners / slicer queried before the call, and every result is checked for cached accessors '
        'that disagree with its arrays; '
        'stack / from_scalars also over operand sets of DIFFERENT leading rank with derivatives on the lower-rank operand '
        'only, on all, or on the higher-rank only (every derivative row coming from a real operand is judged like the '
        'parent; only None place-holder rows are not compared); '
        'objects: every class with every item shape it admits, denominators of rank 0-2, leading shapes of rank 0-4 with axis '
        'lengths 0-3 (quick: all shapes of rank <= 2 plus a seeded sample of rank 3-4; thorough: all 341), every mask '
        'representation (False / True / array / broadcast view), 0-2 derivatives with their own masks and denominators; '
        'arguments: every axis value from -rank-1 to rank (one illegal value on each side), rank= extension, all target '
        'shapes of the same size plus -1 forms, (), wrong sizes, two -1; a case is non-trivial when the object has at '
        'least 2 elements or the call must be rejected; distinct = distinct request line')
ASSUMPTIONS = ['values are identifier tags (ints); float rounding plays no role in these operations',
               'values at masked positions are not compared (hidden values are not observable, C03)',
               'rejections: the oracle demands a clean exception (ValueError/IndexError/TypeError/AxisError) where NumPy '
               'rejects the arguments, not a particular class; the model reproduces the class the code raises',
               'polymath extensions with no NumPy counterpart are judged by their docstring: rank= prepends length-1 axes; '
               'a shapeless object is treated as rank 1 by roll_axis/move_axis and returned unchanged; flatten leaves '
               'rank-0/1 objects alone; broadcast_to(()) of a one-element object squeezes (oracle silent there)']
TRUSTED_EXTRA = ['Model/NpShape.lean as a description of numpy reshape/swapaxes/rollaxis/moveaxis/broadcast_to/transpose '
                 '(compared with real NumPy through the oracle on every case of every run)']


# ------------------------------------------------------------------------------------------------ requests
def request(case):
    op, a = case['op'], case['args']
    none = lambda x: 'none' if x is None else x
    lst = lambda x: [x] if isinstance(x, int) else list(x)
    if op == 'stack':
        return ['c15', 'stack', a['rec'], ['none' if o is None else obj_sx(o) for o in case['objs']]]
    if op == 'from_scalars':
        return ['c15', 'from_scalars', a['rec'], list(a['classes']), [obj_sx(o) for o in case['objs']]]
    o = obj_sx(case['obj'])
    if op == 'reshape':
        return ['c15', op, o, a['rec'], lst(a['shape'])]
    if op == 'flatten':
        return ['c15', op, o, a['rec']]
    if op == 'swap_axes':
        return ['c15', op, o, a['rec'], a['axis1'], a['axis2']]
    if op == 'roll_axis':
        return ['c15', op, o, a['rec'], a['axis'], a['start'], none(a['rank'])]
    if op == 'move_axis':
        return ['c15', op, o, a['rec'], lst(a['source']), lst(a['destination']), none(a['rank'])]
    if op == 'broadcast_to':
        return ['c15', op, o, a['rec'], list(a['shape'])]
    if op in ('extract_numer',):
        return ['c15', op, o, a['rec'], a['axis'], a['index'], list(a['classes'])]
    if op == 'extract_denom':
        return ['c15', op, o, a['axis'], a['index'], list(a['classes'])]
    if op == 'slice_numer':
        return ['c15', op, o, a['rec'], a['axis'], a['index1'], a['index2'], list(a['classes'])]
    if op == 'transpose_numer':
        return ['c15', op, o, a['rec'], a['axis1'], a['axis2']]
    if op == 'transpose_denom':
        return ['c15', op, o, a['axis1'], a['axis2']]
    if op == 'reshape_numer':
        return ['c15', op, o, a['rec'], list(a['shape']), list(a['classes'])]
    if op == 'flatten_numer':
        return ['c15', op, o, a['rec'], list(a['classes'])]
    if op == 'reshape_denom':
        return ['c15', op, o, list(a['shape'])]
    if op in ('flatten_denom', 'extract_denoms'):
        return ['c15', op, o]
    if op in ('join_items', 'swap_items'):
        return ['c15', op, o, list(a['classes'])]
    if op == 'split_items':
        if a['nrank'] > len(case['obj']['numer']) + len(case['obj']['denom']):
            return None         # nrank beyond the item rank: the code builds a malformed object; outside the property
        return ['c15', op, o, a['nrank'], list(a['classes'])]
    if op == 'to_scalar':
        return ['c15', op, o, a['rec'], a['index']]
    if op in ('to_scalars', 'as_row', 'as_column', 'as_diagonal'):
        return ['c15', op, o, a['rec']]
    if op == 'as_class':
        return ['c15', op, o, a['rec'], a['target']]
    return None


def impl(case):
    try:
        r = call(case)
    except Exception as e:
        return C.exc_name(e)
    return observe(r)


def wild_eq(got, exp):
    """structural equality where '?' in the expectation matches anything"""
    if isinstance(exp, str) and exp == '?':
        return True
    if isinstance(exp, (list, tuple)):
        return isinstance(got, (list, tuple)) and len(got) == len(exp) and all(wild_eq(g, e) for g, e in zip(got, exp))
    return C.sx(got) == C.sx(exp)


def signature(case):
    """operation : shapeless|array : scalar-mask|array-mask (a different operation or path is a different finding)"""
    op = case['op']
    o = case.get('obj') or next(x for x in case['objs'] if x is not None)
    return ':'.join([op, o['cls'], 'rank0' if not o['shape'] else 'rankN',
                     'mask' + o['mask'] if isinstance(o['mask'], str) else 'maskA'])


def oracle(case):
    exp = expect(case)
    try:
        raw = call(case)
        got = observe(raw)
    except Exception as e:
        raw, got = None, C.exc_name(e)
    if raw is not None:
        prob = cache_problem(raw)
        if prob:
            return (signature(case) + ':stale-cache', '%s %s: a cached accessor of the result is stale: %s'
                    % (case['op'], case['args'], prob))
    if case['op'] == 'as_class':
        if raw is None:
            return None            # a conversion that refuses the operand is not a relabeling question
        prob = conversion_problem(case, raw)
        if prob:
            return ('as_%s:%s:%s' % (case['args']['target'].lower(), case['obj']['cls'], prob[0]),
                    'as_%s(%s numer %s denom %s, recursive=%s): %s' % (case['args']['target'].lower(), case['obj']['cls'],
                     case['obj']['numer'], case['obj']['denom'], case['args']['rec'], prob[1]))
        return None
    if exp is None:
        return None
    if exp == 'reject':
        if isinstance(got, str) and got in CLEAN:
            return None
        return (signature(case) + ':not-rejected', '%s %s: NumPy rejects these arguments; implementation returned %s'
                % (case['op'], case['args'], C.sx(got)[:300]))
    if isinstance(exp, tuple) and exp[0] == 'or-reject':
        if isinstance(got, str) and got in CLEAN:
            return None
        exp = exp[1]
    if '?' in C.sx(exp if not isinstance(exp, tuple) else ''):
        if isinstance(got, list) and wild_eq(got, exp):
            return None
        return (signature(case) + ':derivs', '%s %s on %s: implementation returned %s, NumPy on the tagged arrays gives %s '
                '(? = place-holder rows, not compared)' % (case['op'], case['args'],
                C.sx([obj_sx(o) for o in case['objs']])[:300], C.sx(got)[:500], C.sx(exp)[:500]))
    if isinstance(exp, tuple) and exp[0] == 'either':
        if C.sx(got) in (C.sx(exp[1]), C.sx(exp[2])):
            return None
        exp = exp[1]
    if C.sx(got) != C.sx(exp):
        return (signature(case), '%s %s on %s: implementation returned %s, NumPy on the tagged arrays gives %s'
                % (case['op'], case['args'], C.sx(obj_sx(case.get('obj') or case['objs'][0]))[:200], C.sx(got)[:400],
                   C.sx(exp)[:400]))
    return None


# ------------------------------------------------------------------------------------------------ generation
ITEMS = {  # class -> list of (numer, kinds)
    'Scalar': [((), ('float', 'int'))], 'Boolean': [((), ('bool',))],
    'Vector': [((1,), ('float',)), ((2,), ('float', 'int')), ((3,), ('float',)), ((4,), ('float',))],
    'Vector3': [((3,), ('float',))], 'Pair': [((2,), ('float', 'int'))], 'Quaternion': [((4,), ('float',))],
    'Matrix': [((2, 2), ('float',)), ((2, 3), ('float',)), ((3, 1), ('float',)), ((1, 2), ('float',)), ((3, 3), ('float',))],
    'Matrix3': [((3, 3), ('float',))],
    'Qube': [((), ('float',)), ((2,), ('float', 'int')), ((2, 3), ('float',)), ((2, 1, 2), ('float',))],
}
DENOMS = [(), (), (), (2,), (3,), (1,), (2, 2), (3, 2), (1, 3)]
CLASS_LISTS = [[], ['Scalar'], ['Vector'], ['Vector3', 'Vector'], ['Pair', 'Vector'], ['Matrix'], ['Matrix3', 'Matrix'],
               ['Quaternion', 'Vector'], ['Scalar', 'Vector', 'Matrix'], ['Matrix', 'Vector', 'Scalar'], ['Pair'], ['Vector3']]


def rand_mask(rng, shape):
    n = prod(shape)
    mode = rng.random()
    if mode < 0.2:
        bits = [False] * n
    elif mode < 0.3:
        bits = [True] * n
    elif mode < 0.45 and len(shape) >= 2 and shape[0] > 1:
        row = [rng.random() < 0.4 for _ in range(n // shape[0])]
        bits = row * shape[0]
    else:
        bits = [rng.random() < 0.4 for _ in range(n)]
    return rng.choice(mask_reps(bits, shape))


def rand_obj(rng, shape, cls=None, numer=None, denom=None, nderiv=None, base=0, kind=None):
    cls = cls or rng.choice(list(ITEMS))
    if numer is None:
        numer, kinds = rng.choice(ITEMS[cls])
    else:
        kinds = [k for n, k in ITEMS[cls] if tuple(n) == tuple(numer)] or [('float',)]
        kinds = kinds[0]
    if denom is None:
        denom = () if cls == 'Boolean' else rng.choice(DENOMS)
    kind = kind or rng.choice(kinds)
    if cls == 'Boolean':
        kind = 'bool'
    if denom:
        kind = 'float' if kind == 'int' and cls not in ('Scalar', 'Vector', 'Pair', 'Qube') else kind
    o = {'cls': cls, 'kind': kind, 'shape': list(shape), 'numer': list(numer), 'denom': list(denom),
         'mask': rand_mask(rng, shape), 'base': base, 'derivs': []}
    if nderiv is None:
        nderiv = rng.choice([0, 0, 1, 2])
    if cls == 'Boolean' or kind != 'float':
        nderiv = 0
    for k in range(nderiv):
        o['derivs'].append({'key': 'tx'[k], 'denom': list(rng.choice([(), (2,), (3,), (2, 2)])),
                            'mask': rand_mask(rng, shape), 'base': 1000 * (k + 1) + base,
                            'view': rng.random() < 0.25})
    rand_layout(rng, o)
    if rng.random() < 0.35:
        o['warm'] = rng.sample(list(WARMERS), rng.randint(1, len(WARMERS)))
    return o


def row_const_mask(rng, shape):
    n = prod(shape)
    row = [rng.random() < 0.4 for _ in range(n // shape[0])]
    if rng.random() < 0.3:
        row = [rng.random() < 0.5] * len(row)
    return rng.choice(mask_reps(row * shape[0], shape))


def rand_layout(rng, o):
    """operand provenance: how the arrays handed to polymath came about (memory layout, previous shaping
    operation); the logical content and the request line do not depend on it"""
    shape = o['shape']
    L = len(shape)
    r = rng.random()
    if r < 0.3:
        return
    if r < 0.45:
        o['layout'] = {'kind': 'F'}
    elif r < 0.55:
        o['layout'] = {'kind': 'T'}
    elif r < 0.65:
        o['layout'] = {'kind': rng.choice(['step', 'step0'])}
    else:
        ops = (['swap_axes', 'move_axis', 'roll_axis'] if L >= 2 else []) + (['broadcast_to'] if L >= 1 and shape[0] > 1 else [])
        if not ops:
            o['layout'] = {'kind': rng.choice(['F', 'T'])}
            return
        op = rng.choice(ops)
        if op in ('swap_axes', 'move_axis'):
            args = rng.sample(range(L), 2)
        elif op == 'roll_axis':
            args = [rng.randint(1, L - 1)]
        else:
            args = []
            o['bview'] = True
            o['mask'] = row_const_mask(rng, shape)
            for d in o['derivs']:
                d['view'] = True
                d['mask'] = row_const_mask(rng, shape)
        o['layout'] = {'kind': 'hist', 'op': op, 'args': args}


def same_size_shapes(n, pool):
    return [s for s in pool if prod(s) == n]


def mk(op, obj, args, kind=None):
    case = {'op': op, 'args': args}
    if isinstance(obj, list):
        case['objs'] = obj
        first = next(o for o in obj if o is not None)
        size = max(prod(o['shape']) for o in obj if o is not None)
    else:
        case['obj'] = obj
        first = obj
        size = prod(obj['shape']) * prod(obj['numer']) * prod(obj['denom'])
    case['req'] = request(case)
    case['kind'] = kind or op
    case['nontrivial'] = size >= 2
    return case


def leading_cases(rng, shape, pool, full):
    """all argument combinations of the leading-axis operations for one leading shape"""
    r = len(shape)
    out = []
    ob = lambda **kw: rand_obj(rng, shape, **kw)
    rec = lambda: rng.random() < 0.8
    axes = list(range(-r - 1, r + 1))
    # swap_axes: every pair including one illegal value on each side
    for a1 in axes:
        for a2 in axes:
            out.append(mk('swap_axes', ob(), {'axis1': a1, 'axis2': a2, 'rec': rec()}))
    # roll_axis: every (axis, start) incl. illegal, with and without rank=
    for rk in [None, r, r + 1, r + 2] + ([r - 1] if r >= 1 else []):
        R = (rk or r) if r else 1
        vals = list(range(-R - 1, R + 2))
        for ax in vals:
            for st in vals:
                if rk is not None and not full and rng.random() < 0.6:
                    continue
                out.append(mk('roll_axis', ob(), {'axis': ax, 'start': st, 'rank': rk, 'rec': rec()},
                              'roll_axis' + ('' if rk is None else ':rank=')))
    # move_axis: single axes exhaustively, tuples sampled
    for rk in [None, r + 1] + ([r - 1] if r >= 1 else []):
        R = (rk or r) if r else 1
        vals = list(range(-R - 1, R + 1))
        for s in vals:
            for d in vals:
                if rk is not None and not full and rng.random() < 0.6:
                    continue
                out.append(mk('move_axis', ob(), {'source': s, 'destination': d, 'rank': rk, 'rec': rec()},
                              'move_axis' + ('' if rk is None else ':rank=')))
        for _ in range(12 if full else 5):
            k = rng.randint(0, min(R, 3))
            if rng.random() < 0.75 and k <= R:
                src = rng.sample(range(R), k) if k <= R else []
                dst = rng.sample(range(R), k) if k <= R else []
                src = [x - R if rng.random() < 0.4 else x for x in src]
                dst = [x - R if rng.random() < 0.4 else x for x in dst]
            else:       # repeated axes, length mismatch, out of range
                src = [rng.randint(-R - 1, R) for _ in range(k)]
                dst = [rng.randint(-R - 1, R) for _ in range(rng.choice([k, k, k + 1]))]
            out.append(mk('move_axis', ob(), {'source': src, 'destination': dst, 'rank': rk, 'rec': rec()},
                          'move_axis:tuple'))
    # reshape: all same-size targets, -1 forms, illegal ones
    n = prod(shape)
    targets = same_size_shapes(n, pool)
    if not full and len(targets) > 14:
        targets = rng.sample(targets, 14)
    tl = [list(t) for t in targets]
    for t in list(tl):
        for k in range(len(t)):
            if rng.random() < (1.0 if full else 0.35):
                tl.append(t[:k] + [-1] + t[k + 1:])
    tl += [[-1], [], [n], [n + 1], [-1, -1], [-2], [n, -1], [2, -1], [0, -1], [-1, 0], [3, -1, 1], [1, n], [n, 1, 1, 1, 1], [-3, 2], [2, -5], [-2, -1]]
    for t in tl:
        out.append(mk('reshape', ob(), {'shape': t, 'rec': rec()}, 'reshape' + (':-1' if -1 in t else '') + (':()' if not t else '')))
    out.append(mk('reshape', ob(), {'shape': n, 'rec': True}, 'reshape:int'))
    out.append(mk('reshape', ob(), {'shape': -1, 'rec': True}, 'reshape:int'))
    for _ in range(3):
        out.append(mk('flatten', ob(), {'rec': rec()}))
    # broadcast_to: prepend axes, stretch length-1 axes, illegal targets
    bts = [list(shape), [2] + list(shape), [1, 3] + list(shape), [0] + list(shape), [], [2], [3, 2], shape[1:], [-1] + list(shape)]
    for k in range(r):
        t = list(shape)
        t[k] = 1 if t[k] != 1 else 3
        bts.append(t)
        bts.append([2] + t)
        t2 = list(shape); t2[k] = t2[k] + 1
        bts.append(t2)
    stretch = [d if d != 1 else 3 for d in shape]
    bts += [stretch, [2] + stretch]
    for t in bts:
        out.append(mk('broadcast_to', ob(), {'shape': t, 'rec': rec()}))
    return out


def item_cases(rng, shape, full):
    out = []
    rec = lambda: rng.random() < 0.8
    cl = lambda: rng.choice(CLASS_LISTS)
    reps = 3 if full else 1
    for cls in ITEMS:
        for numer, kinds in ITEMS[cls]:
            for _ in range(reps):
                ob = lambda **kw: rand_obj(rng, shape, cls=cls, numer=numer, **kw)
                nr = len(numer)
                fl = lambda: rand_obj(rng, shape, cls=cls, numer=numer, kind='float')
                for ax in range(-nr - 1, nr + 1):
                    o = fl()
                    L = numer[ax] if -nr <= ax < nr else 2
                    for ix in ([-L - 1, -L, -1, 0, L - 1, L] if full else rng.sample([-L - 1, -L, -1, 0, L - 1, L], 3)):
                        out.append(mk('extract_numer', fl(), {'axis': ax, 'index': ix, 'classes': cl(), 'rec': rec()}))
                    for _ in range(4 if full else 2):
                        out.append(mk('slice_numer', fl(), {'axis': ax, 'index1': rng.randint(-L - 1, L + 1),
                                                            'index2': rng.randint(-L - 1, L + 1), 'classes': cl(), 'rec': rec()}))
                    for ax2 in range(-nr - 1, nr + 1):
                        out.append(mk('transpose_numer', ob(), {'axis1': ax, 'axis2': ax2, 'rec': rec()}))
                o = ob()
                dr = len(o['denom'])
                for ax in range(-dr - 1, dr + 1):
                    L = o['denom'][ax] if -dr <= ax < dr else 2
                    for ix in rng.sample([-L - 1, -L, -1, 0, L - 1, L], 3):
                        out.append(mk('extract_denom', dict(o), {'axis': ax, 'index': ix, 'classes': cl()}))
                    for ax2 in range(-dr - 1, dr + 1):
                        out.append(mk('transpose_denom', dict(o), {'axis1': ax, 'axis2': ax2}))
                out.append(mk('extract_denoms', ob(), {}))
                ns = prod(numer)
                tg = [t for t in [(ns,), (1, ns), (ns, 1), (2, ns // 2), (ns // 2, 2), (3, ns // 3), (ns // 3, 3), (), (ns + 1,),
                                  (2, 2), (3, 3), (1, 1, ns), (-1,), (2, -1)]]
                for t in (tg if full else rng.sample(tg, 6)):
                    out.append(mk('reshape_numer', fl(), {'shape': list(t), 'classes': cl(), 'rec': rec()}))
                out.append(mk('flatten_numer', fl(), {'classes': cl(), 'rec': rec()}))
                o = ob()
                dsz = prod(o['denom'])
                for t in rng.sample([(dsz,), (1, dsz), (dsz, 1), (), (dsz + 1,), (2, dsz // 2), (dsz // 2, 2)], 4):
                    out.append(mk('reshape_denom', dict(o), {'shape': list(t)}))
                out.append(mk('flatten_denom', ob(), {}))
                out.append(mk('join_items', fl(), {'classes': cl()}))
                out.append(mk('swap_items', fl(), {'classes': cl()}))
                o = fl()
                for k in range(0, len(o['numer']) + len(o['denom']) + 2):
                    out.append(mk('split_items', dict(o), {'nrank': k, 'classes': cl()}))
                for target in ('Scalar', 'Vector', 'Vector3', 'Pair', 'Matrix'):
                    out.append(mk('as_class', ob(), {'target': target, 'rec': rec()}, 'as_class:' + target))
                if cls in ('Vector', 'Vector3', 'Pair', 'Quaternion'):
                    L = numer[0]
                    for ix in rng.sample([-L - 1, -L, -1, 0, L - 1, L], 3):
                        out.append(mk('to_scalar', ob(), {'index': ix, 'rec': rec()}))
                    out.append(mk('to_scalars', ob(), {'rec': rec()}))
                    for op in ('as_row', 'as_column', 'as_diagonal'):
                        out.append(mk(op, fl(), {'rec': rec()}))
    return out


def multi_cases(rng, full):
    """stack and from_scalars: several objects broadcast together"""
    out = []
    shapesets = [[[], []], [[2], [2]], [[2], []], [[3], [1]], [[2, 3], [3]], [[2, 1], [1, 3], []], [[0], [0]], [[0], [1]],
                 [[2], [3]], [[2, 2], [2, 2], [2, 2]], [[1], [1]], [[2, 3], [2, 1]], [[3]], [[]], [[2, 0], [1, 1]]]
    for _ in range(30 if full else 6):
        for ss in shapesets:
            # stack: same class / item
            cls = rng.choice(['Scalar', 'Vector', 'Pair', 'Matrix', 'Vector3', 'Boolean', 'Qube'])
            numer, kinds = rng.choice(ITEMS[cls])
            denom = () if cls == 'Boolean' else rng.choice(DENOMS)
            kind = rng.choice(kinds)
            objs = [rand_obj(rng, s, cls=cls, numer=numer, denom=denom, base=100 * i, kind=kind) for i, s in enumerate(ss)]
            out.append(mk('stack', objs, {'rec': rng.random() < 0.8}))
            # from_scalars
            objs = [rand_obj(rng, s, cls='Scalar', numer=(), denom=rng.choice([(), (), (2,)]) if i == 0 else None,
                             base=100 * i, kind=rng.choice(['float', 'float', 'int']))
                    for i, s in enumerate(ss)]
            for o in objs[1:]:
                o['denom'] = objs[0]['denom']
            if objs[0]['denom']:
                for o in objs:
                    o['kind'] = 'float'
            out.append(mk('from_scalars', objs, {'rec': rng.random() < 0.8,
                                                 'classes': rng.choice([['Vector'], ['Vector3', 'Vector'], ['Pair', 'Vector'], []])}))
    # operands of DIFFERENT leading rank where (only) the lower-rank operand carries derivatives, and the number of
    # operands equals the length of the axis a mis-aligned stack axis would land on
    ranksets = [[[3], [2, 3]], [[2, 3], [3]], [[2], [2, 2]], [[2, 2], [2]], [[3], [3, 3], [1, 3]], [[], [2]], [[2], [3, 2], []],
                [[1], [2, 1]], [[3], [2, 1, 3]], [[2, 3], [3], [2, 1]]]
    for _ in range(10 if full else 3):
        for ss in ranksets:
            minrank = min(len(s) for s in ss)
            for mode in ('low', 'all', 'high'):
                cls = rng.choice(['Scalar', 'Vector', 'Pair', 'Matrix', 'Qube'])
                numer, kinds = rng.choice(ITEMS[cls])
                denom = rng.choice([(), (), (2,)])
                def nd(s):
                    return (rng.choice([1, 2]) if (mode == 'all' or (mode == 'low') == (len(s) == minrank)) else 0)
                objs = [rand_obj(rng, s, cls=cls, numer=numer, denom=denom, base=100 * i, kind='float', nderiv=nd(s))
                        for i, s in enumerate(ss)]
                out.append(mk('stack', objs, {'rec': True}, 'stack:ranks:' + mode))
                dn = rng.choice([(), (), (2,)])
                objs = [rand_obj(rng, s, cls='Scalar', numer=(), denom=dn, base=100 * i, kind='float', nderiv=nd(s))
                        for i, s in enumerate(ss)]
                out.append(mk('from_scalars', objs, {'rec': True, 'classes': rng.choice([['Vector'], ['Vector3', 'Vector'], []])},
                              'from_scalars:ranks:' + mode))
    return out


def conv_cases(rng, full):
    """conversion sweep on ITEM-LESS operands whose trailing leading axes look like an item (length 2, 3, 4, (3,3)):
    the place where a conversion can mistake a leading axis for an item axis.  Deterministic shapes, both tiers;
    scalar masks included on purpose (an array mask of the old leading shape makes most mis-reads raise)."""
    out = []
    shapes = [[3], [2], [4], [2, 3], [3, 2], [1, 2], [2, 2], [2, 4], [3, 3], [2, 3, 3], [1, 3]]
    for cls in ('Scalar', 'Boolean', 'Qube'):
        for shape in shapes:
            n = prod(shape)
            for mask in ('F', 'T', [bool((k * 3 + 1) % 4 == 0) for k in range(n)]):
                for target in ('Scalar', 'Vector', 'Vector3', 'Pair', 'Matrix'):
                    for rep in range(2 if full else 1):
                        o = rand_obj(rng, shape, cls=cls, numer=(), denom=(), nderiv=rng.choice([0, 1]))
                        o['mask'] = mask
                        if o.get('layout', {}).get('op') == 'broadcast_to':
                            o.pop('layout'); o.pop('bview', None)
                            for d in o['derivs']:
                                d['view'] = False
                        out.append(mk('as_class', o, {'target': target, 'rec': rng.random() < 0.7}, 'as_class:itemless:' + target))
    return out


def gen_cases(rng, tier):
    full = tier == 'thorough'
    pool = list(all_shapes(4, [0, 1, 2, 3]))
    if full:
        shapes = pool
    else:
        shapes = [s for s in pool if len(s) <= 2]
        shapes += rng.sample([s for s in pool if len(s) == 3], 10) + rng.sample([s for s in pool if len(s) == 4], 8)
        shapes += [[2, 3, 2], [1, 2, 3, 2]]
    cases = []
    for s in shapes:
        cases += leading_cases(rng, s, pool, full)
    ishapes = [[], [2], [0], [2, 3], [1, 2]] + ([[3, 1, 2], [2, 2, 1, 2]] if full else [])
    for s in ishapes:
        cases += item_cases(rng, s, full)
    cases += multi_cases(rng, full)
    cases += conv_cases(rng, full)
    return cases


def neighbours(case):
    """shrunk variants: drop derivatives, scalar masks, shorter axes"""
    if 'obj' not in case:
        return
    o = case['obj']
    for variant in ({'derivs': []}, {'mask': 'F'}, {'mask': 'T'}, {'cls': 'Scalar', 'numer': [], 'denom': [], 'kind': 'float', 'derivs': []}):
        o2 = dict(o, **variant)
        c = dict(case, obj=o2)
        c['req'] = request(c)
        yield c
