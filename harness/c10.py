"""C10 — item assignment writes exactly the selected elements and nothing else."""
import copy, itertools
import numpy as np
from absn import *
import common as C
import c09_ref as R
import c09_gen as G
import c09

PROP = 'C10'
LEAN_MODULES = ['PMV.Props.C10']
PARALLEL = True
RULE = ('sequences of assignments target[index] = rhs on identifier-tagged targets (tag = position+1; right-hand side of '
        'step t tagged 1000(t+1)+position), every index kind of C09, right-hand sides broadcastable to the selection '
        '(same shape, length-1 axes, lower rank, shapeless, plain numbers), masks in all representations, a second object '
        'sharing the target\'s mask array; distinct = distinct request line / case; non-trivial = some element written')
MANIFEST = {
    'text': 'Kernel-checked theorems (PMV/Props/C10.lean, 18) about a code-shaped Lean model of the general path of '
            'indexer.__setitem__ (prepared index of C09, mask expansion, right-hand side lined up and relocated, plain write '
            'and write through the unmasked index elements, NumPy assignment with last-writer semantics, derivative loops): '
            'state after an assignment = NumPy assignment of values AND mask through the kept coordinates for every mask '
            'representation; frame (unselected elements, and elements selected only through masked / out-of-range entries, keep '
            'value and mask); update; read-back for duplicate-free indices; derivatives updated through the same index with a '
            'missing one counting as zero on either side; shape and any step-invariant preserved along arbitrary sequences; '
            'mask array copied before writing. Tied to /repo on every run by a correspondence check over sequences of '
            'assignments (object and derivatives) and judged directly by an independent loop-based reference (full expanded '
            'state of target, derivatives and of an object sharing the mask array, before/after).',
    'design': 'DESIGN.md §3 C10, DESIGN.d/C10.md',
    'technique': 'Lean 4 proof (list lemmas on the assignment kernel, induction over assignment sequences) + model/code correspondence',
    'note': 'Model covers the general path (right-hand sides of at most the selection\'s rank) and the whole-object path '
            '(shapeless targets, a[...] = x), derivatives included: about 96 % of the generated cases. Six assignment defects of '
            'the pinned tree repaired; open: KF-C10-4 (integer index on a zero-length axis, = KF-C09-1).',
}
ASSUMPTIONS = ['NumPy assigns duplicates in row-major order of the selection (last writer wins)',
               'for duplicate indices the oracle accepts any of the values assigned through a selecting coordinate',
               'a derivative that is absent counts as zero everywhere; the mask of a zero-filled derivative is not prescribed',
               'right-hand sides that do not broadcast to the selection are outside the property (not judged)']
TRUSTED_EXTRA = ['NumPy item assignment = PMV.SetItem.npAssign (last writer wins), exercised by the correspondence run']

ZERO = 0          # tag of a "missing = zero" derivative element


# ------------------------------------------------------------------------------------------------ building
def mk_target(t):
    """target with tags pos+1, derivatives tagged (j+1)*100000 + pos + 1; optionally a sharer of its mask array"""
    shape, item = t['shape'], t['item']
    isz = R.prod(item)
    n = R.prod(shape)
    vals = (np.arange(n * isz, dtype='float64') + isz).reshape(list(shape) + list(item))     # element p: (p+1)*isz + j
    if not shape and not item:
        vals = float(vals)
    m = mk_mask(t['mask'], shape)
    if isinstance(m, np.ndarray):
        m = np.array(m)                      # own, writable
    q = CLASSES[t['cls']](vals, m)
    for key, d in sorted((t.get('derivs') or {}).items()):
        dv = (np.arange(n * isz, dtype='float64') + isz).reshape(list(shape) + list(item)) + d['base'] * isz
        q.insert_deriv(key, CLASSES[t['cls']](dv, mk_mask(d['mask'], shape)))
    sharer = None
    if t.get('shared') and isinstance(q._mask_, np.ndarray):
        sharer = Scalar(np.arange(n, dtype='float64').reshape(shape), q._mask_)
        if sharer._mask_ is not q._mask_:
            sharer = None
    return q, sharer


def mk_rhs(r, cls, item, step):
    """right-hand side of step `step`: element p tagged 1000*(step+1)+p"""
    shape = r['shape']
    isz = R.prod(item)
    n = R.prod(shape)
    base = 1000 * (step + 1)
    vals = ((np.arange(n * isz, dtype='float64') % isz) + (np.arange(n * isz) // isz + base) * isz).reshape(list(shape) + list(item))
    if r.get('plain'):                      # a bare number / ndarray instead of an object
        return vals if (shape or item) else float(vals)
    if not shape and not item:
        vals = float(vals)
    q = CLASSES[cls](vals, mk_mask(r['mask'], shape))
    for key, d in sorted((r.get('derivs') or {}).items()):
        dv = ((np.arange(n * isz, dtype='float64') % isz) + (np.arange(n * isz) // isz + base + d['base']) * isz).reshape(list(shape) + list(item))
        q.insert_deriv(key, CLASSES[cls](dv, mk_mask(d['mask'], shape)))
    return q


def observe(q):
    """per leading element: 'm' or the tag (item must be the untouched item of one tagged element)"""
    shape = list(q._shape_)
    vals = np.asarray(q._values_)
    item = list(vals.shape[len(shape):])
    isz = R.prod(item)
    n = R.prod(shape)
    m = expanded_mask(q).ravel()
    v = np.broadcast_to(vals, tuple(shape) + tuple(item)).reshape(n, isz) if n else np.zeros((0, isz))
    res = []
    for p in range(n):
        if m[p]:
            res.append('m'); continue
        row = [float(x) for x in v[p]]
        tag = int(row[0] // isz)
        if row == [float(tag * isz + j) for j in range(isz)]:
            res.append(tag)
        elif all(x == 0 for x in row):
            res.append(ZERO)
        else:
            res.append('x' + '_'.join(str(x) for x in row))
    return res


def observe_state(q, sharer):
    st = [observe(q)]
    st.append([[key] + observe(q._derivs_[key]) for key in sorted(q._derivs_)])
    st.append(['-'] if sharer is None else ['T' if b else 'F' for b in expanded_mask(sharer).ravel()])
    return st


def run(case):
    """the real code: list of per-step outcomes (exception name | state after the step)"""
    import warnings
    t = case['target']
    q, sharer = mk_target(t)
    out = [observe_state(q, sharer)]
    used = []                      # (step, right-hand side object, its snapshot when it was built)
    for step, a in enumerate(case['steps']):
        rhs = mk_rhs(a['rhs'], t['cls'], t['item'], step)
        used.append((step, rhs, rhs_snapshot(rhs)))
        idx = R.mk_index(a)
        try:
            with warnings.catch_warnings():
                warnings.simplefilter('ignore')
                q[idx] = rhs
            out.append(observe_state(q, sharer))
        except Exception as e:
            out.append([C.exc_name(e), observe_state(q, sharer)])
    # a right-hand side is an operand: no assignment, this one or a later one into the target, may change it
    changed = [step for step, rhs, snap in used if rhs_snapshot(rhs) != snap]
    out.append(['rhs-unchanged'] if not changed else ['rhs-CHANGED', changed[0]])
    return out


def rhs_snapshot(rhs):
    if isinstance(rhs, Qube):
        return [(k, np.asarray(o._values_).tobytes(), np.shape(o._mask_), np.asarray(o._mask_).tobytes())
                for k, o in [('', rhs)] + sorted(rhs._derivs_.items())]
    return [('', np.asarray(rhs).tobytes())]


def impl(case):
    """what the model is compared on: the object's and its derivatives' elements after every step"""
    out = run(case)[:-1]
    res = []
    for o in out:
        if isinstance(o[0], str):
            res.append(o[0])
        else:
            res.append([o[0], [[d[0], d[1:]] for d in o[1]]])
    return res


# ------------------------------------------------------------------------------------------------ reference
def ref_state(t):
    shape = t['shape']
    n = R.prod(shape)
    bits = mask_bits(t['mask'], shape)
    st = {'main': [('m' if bits[p] else p + 1) for p in range(n)], 'derivs': {}}
    for key, d in sorted((t.get('derivs') or {}).items()):
        db = mask_bits(d['mask'], shape)
        st['derivs'][key] = [('m' if db[p] else p + 1 + d['base']) for p in range(n)]
    return st


def rhs_elems(r, step, base_extra=0, mask=None):
    shape = r['shape']
    n = R.prod(shape)
    bits = [False] * n if r.get('plain') else mask_bits(mask if mask is not None else r['mask'], shape)
    return [('m' if bits[p] else 1000 * (step + 1) + p + base_extra) for p in range(n)]


def ref_step(t, st, a, step):
    """-> ('IndexError'|'ValueError'|None, candidates) where candidates[name][p] = set of admissible observations"""
    shape = t['shape']
    try:
        if not shape:
            out_shape, masked = c09.ref_scalar(a['index'])
            sel = [((), masked)] * R.prod(out_shape)
        else:
            out_shape, sel = R.ref_select(shape, a['index'])
    except R.RefError:
        return 'IndexError', None
    r = a['rhs']
    try:
        full = R.bshape([r['shape'], out_shape])
    except R.RefError:
        return 'ValueError', None
    if list(full)[-len(out_shape):] != list(out_shape) if out_shape else False:
        return 'ValueError', None
    if len(full) > len(out_shape) and any(x != 1 for x in full[:len(full) - len(out_shape)]):
        return 'ValueError', None
    n = R.prod(shape)

    def update(old, new_elems):
        cand = [None] * n
        for o, (src, flag) in zip(R.unravel(out_shape), sel):
            if flag:
                continue
            p = c09.ravel(shape, src)
            e = new_elems[c09.ravel(r['shape'], R.bproj(r['shape'], o))] if r['shape'] else new_elems[0]
            if cand[p] is None:
                cand[p] = set()
            cand[p].add(e)
        return [({old[p]} if cand[p] is None else cand[p]) for p in range(n)], [cand[p] is not None for p in range(n)]

    res = {}
    res['main'], written = update(st['main'], rhs_elems(r, step))
    rd = {} if r.get('plain') else (r.get('derivs') or {})
    for key in sorted(set(st['derivs']) | set(rd)):
        if key in st['derivs'] and key in rd:
            res[key], _ = update(st['derivs'][key], rhs_elems(r, step, rd[key]['base'], rd[key]['mask']))
        elif key in st['derivs']:
            # missing on the right: zero, carrying the right-hand side's mask
            zeros = [('z' if e == 'm' else ZERO) for e in rhs_elems(r, step)]
            c, _ = update(st['derivs'][key], zeros)
            res[key] = [({ZERO, 'm'} | (x - {'z'}) if 'z' in x else x) for x in c]
        else:
            # missing on the left: zero everywhere (mask unspecified), then updated
            old = [None] * n
            c, w = update(old, rhs_elems(r, step, rd[key]['base'], rd[key]['mask']))
            res[key] = [(c[p] if w[p] else {ZERO, 'm'}) for p in range(n)]
    return None, res


def oracle(case):
    t = case['target']
    out = run(case)
    rhs_flag = out.pop()
    if rhs_flag[0] != 'rhs-unchanged':
        return ('set:right-hand-side-changed', 'target[index] = rhs sequence on %s: the right-hand side object of step %d '
                '(values, mask or a derivative) was changed by the assignments (%d steps)' % (describe(case), rhs_flag[1], len(case['steps'])))
    st = ref_state(t)
    sh0 = out[0][2]
    for step, a in enumerate(case['steps']):
        got = out[step + 1]
        err, cand = ref_step(t, st, a, step)
        sig = 'set:' + c09.features({'op': 'get', 'obj': t, 'index': a['index']})
        if scalar_like(a['index']):
            sig = 'set:scalar-index-path'
        elif no_unused_index(t['shape'], a['index']):
            sig = 'set:no-unused-index'
        elif sig == 'set:arrays-separated' and lower_rank_rhs(t['shape'], a):
            sig = 'set:relocated-lower-rank-rhs'
        where = 'step %d of %s: target[%s] = rhs%s' % (step, describe(case), repr(R.mk_index(a)).replace('\n', ' ')[:200], a['rhs']['shape'])
        if err == 'ValueError':
            return None                    # right-hand side does not broadcast: not specified by the property
        if err is not None:
            if not (isinstance(got[0], str) and got[0] == err):
                return (sig + ':no-' + err, where + ': expected %s, implementation returned %s' % (err, C.sx(got)[:200]))
            got = got[1]
            cand = {'main': [{x} for x in st['main']]}
            for key in st['derivs']:
                cand[key] = [{x} for x in st['derivs'][key]]
        elif isinstance(got[0], str):
            if got[0] == 'IndexError' and R.int_on_zero_axis(t['shape'], a['index']):
                sig = 'set:int-on-zero-length-axis'
            elif got[0] == 'ValueError' and any(scalar_like(b['index']) for b in case['steps'][:step]):
                sig = 'set:after-whole-object-assignment'
            return (sig + ':raises-' + got[0], where + ': implementation raised %s' % got[0])
        main, derivs, sharer = got
        if len(main) != len(cand['main']) or any(g not in c for g, c in zip(main, cand['main'])):
            kind = classify(st['main'], main, cand['main'])
            return (sig + ':' + kind, where + ': target elements %s, admissible %s' % (C.sx(main)[:300], str(cand['main'])[:300]))
        dkeys = [d[0] for d in derivs]
        want = sorted(k for k in cand if k != 'main')
        # a derivative that is absent is a derivative that is zero everywhere
        absent_ok = all(all(ZERO in c for c in cand[k]) for k in want if k not in dkeys)
        if not (set(dkeys) <= set(want) and absent_ok):
            return (sig + ':deriv-keys', where + ': derivative keys %s, expected %s' % (dkeys, want))
        for d in derivs:
            if any(g not in c for g, c in zip(d[1:], cand[d[0]])):
                return (sig + ':deriv', where + ': derivative %s elements %s, admissible %s' % (d[0], C.sx(d[1:])[:300], str(cand[d[0]])[:300]))
        if sharer != sh0:
            return (sig + ':shared-mask', where + ': the mask of an object sharing the mask array changed: %s -> %s' % (sh0, sharer))
        st = {'main': main, 'derivs': {d[0]: d[1:] for d in derivs}}
    return None


def scalar_like(entries):
    """the index is accepted by _prep_scalar_index: the whole-object assignment path of __setitem__"""
    return all(e['k'] in ('none', 'ell', 'bool') or (e['k'] == 'slice' and (e['a'], e['b'], e['c']) == (None, None, None))
               for e in entries)


def lower_rank_rhs(shape, a):
    """the right-hand side has fewer axes than the selection (and is not shapeless)"""
    try:
        out_shape, _ = R.ref_select(shape, a['index']) if shape else c09.ref_scalar(a['index'])
    except R.RefError:
        return False
    return 0 < len(a['rhs']['shape']) < len(out_shape)


def no_unused_index(shape, entries):
    """some integer-array entry has a masked/out-of-range element while its other elements use every index of the
    axis: _prep_index then has no unused index to park the masked element on"""
    atoms = []
    try:
        for e in entries:
            atoms += R.entry_atoms(e)
    except R.RefError:
        return False
    cons = sum(0 if a[0] in ('new', 'ell') else (len(a[1]) if a[0] == 'barr' else 1) for a in atoms)
    ax = 0
    for a in atoms:
        if a[0] == 'ell':
            ax += max(0, len(shape) - cons)
        elif a[0] == 'barr':
            ax += len(a[1])
        elif a[0] != 'new':
            if a[0] == 'iarr' and ax < len(shape) and shape[ax] > 0:
                n = shape[ax]
                flags = [m or v >= n or v < -n for v, m in zip(a[2], a[3])]
                used = {v % n for v, f in zip(a[2], flags) if not f}
                if any(flags) and len(used) == n:
                    return True
            ax += 1
    return False


def classify(old, got, cand):
    for o, g, c in zip(old, got, cand):
        if g not in c:
            if c == {o}:
                return 'frame'            # an element that must not change changed
            if g == o:
                return 'not-written'      # a selected element kept its old state
            return 'wrong-value'
    return 'length'


def describe(case):
    t = case['target']
    return '%s shape=%s item=%s mask=%s' % (t['cls'], t['shape'], t['item'], t['mask'] if isinstance(t['mask'], str) else 'array')


# ------------------------------------------------------------------------------------------------ requests
def modelled(case):
    """the class the Lean model covers: no derivatives, general path, right-hand side with at most the selection's rank"""
    t = case['target']
    st_shape = t['shape']
    for a in case['steps']:
        r = a['rhs']
        if scalar_like(a['index']):
            continue                       # whole-object path (or IndexError): modelled for every right-hand side
        try:
            if not st_shape:
                out_shape, _ = c09.ref_scalar(a['index'])
            else:
                out_shape, _ = R.ref_select(st_shape, a['index'])
        except R.RefError:
            continue
        if len(r['shape']) > len(out_shape):
            return False
        try:
            if R.bshape([r['shape'], out_shape]) != list(out_shape):
                return False
        except R.RefError:
            return False
    return True


def wire_derivs(q, shape, spec):
    """(key base mask) of every derivative of a REAL object (masks read back from the objects)"""
    if not isinstance(q, Qube):
        return []
    return [[key, spec[key]['base'], c09.wire_mask(q._derivs_[key]._mask_, shape)] for key in sorted(q._derivs_)]


def request(case):
    if not modelled(case):
        return None
    t = case['target']
    q, _ = mk_target(t)
    shape = list(t['shape'])
    steps = []
    for step, a in enumerate(case['steps']):
        r = a['rhs']
        rq = mk_rhs(r, t['cls'], t['item'], step)
        rmask = c09.wire_mask(rq._mask_, r['shape']) if isinstance(rq, Qube) else False
        steps.append([c09.wire_index(shape, a['index']), list(r['shape']), rmask,
                      wire_derivs(rq, r['shape'], r.get('derivs') or {})])
    return ['c10', 'set', shape, c09.wire_mask(q._mask_, shape), wire_derivs(q, shape, t.get('derivs') or {}), steps]


# ------------------------------------------------------------------------------------------------ generation
def rand_rhs(rng, out_shape, derivs_ok=True):
    mode = rng.random()
    if mode < 0.45 or out_shape is None:
        shape = list(out_shape or [])
    elif mode < 0.6:
        shape = []
    elif mode < 0.8:
        shape = [1 if rng.random() < 0.5 else n for n in out_shape]
    elif mode < 0.95:
        shape = list(out_shape[rng.randint(0, len(out_shape)):])
    else:
        shape = list(out_shape) + [2]
    r = {'shape': shape, 'mask': G.rand_mask_rep(rng, shape), 'derivs': {}}
    if rng.random() < 0.12:
        r['plain'] = True
        r['mask'] = 'F'
    elif derivs_ok and rng.random() < 0.25:
        for key in rng.sample(['t', 'a'], rng.choice([1, 2])):
            r['derivs'][key] = {'base': {'t': 100000, 'a': 200000}[key], 'mask': G.rand_mask_rep(rng, shape)}
    return r


def gen_case(rng, nsteps, derivs=True):
    obj = G.rand_object(rng, shape=G.rand_shape(rng, 4 if rng.random() < 0.3 else 3, 4), derivs=False,
                        classes=['Scalar', 'Scalar', 'Scalar', 'Vector', 'Pair', 'Matrix'])
    t = {'cls': obj['cls'], 'shape': obj['shape'], 'item': obj['item'], 'mask': obj['mask'], 'derivs': {},
         'shared': rng.random() < 0.5}
    if isinstance(t['mask'], dict):
        t['mask'] = mask_bits(t['mask'], t['shape'])            # a writable target needs its own mask array
    if derivs and rng.random() < 0.25:
        for key in rng.sample(['t', 'a'], rng.choice([1, 2])):
            t['derivs'][key] = {'base': {'t': 100000, 'a': 200000}[key], 'mask': G.rand_mask_rep(rng, t['shape'], views=False)}
    steps = []
    for _ in range(nsteps):
        shape = t['shape']
        kinds = G.rand_kinds(rng, len(shape), p_over=0.02)
        ents = G.concretise(rng, shape, kinds, p_mask=0.25, p_oob=0.1)
        try:
            if shape:
                out_shape, _ = R.ref_select(shape, ents)
            else:
                out_shape, _ = c09.ref_scalar(ents)
        except R.RefError:
            out_shape = None
        bare = rng.random() < 0.3 and not (len(ents) == 1 and ents[0].get('form') == 'list')
        steps.append({'index': ents, 'bare': bare, 'rhs': rand_rhs(rng, out_shape, derivs_ok=derivs)})
    return {'target': t, 'steps': steps}


def mk(case):
    case['req'] = request(case)
    feats = sorted({c09.features({'op': 'get', 'obj': case['target'], 'index': a['index']}) for a in case['steps']})
    case['kind'] = 'steps=%d%s' % (len(case['steps']), '' if case['req'] is not None else ':oracle-only')
    case['nontrivial'] = True
    case['id'] = C.sx([case['target']['shape'], len(case['steps'])]) + repr(case['steps'])[:2000]
    return case


def gen_cases(rng, tier):
    thorough = tier == 'thorough'
    cases = []
    for _ in range(30000 if thorough else 5000):
        cases.append(mk(gen_case(rng, 1, derivs=rng.random() < 0.4)))
    for _ in range(6000 if thorough else 1200):
        cases.append(mk(gen_case(rng, rng.randint(2, 5), derivs=rng.random() < 0.3)))
    # relocation stream: separated array indices (polymath moves the array axes) with right-hand sides of every
    # rank from 0 to the selection's rank
    pats = [['slice', 'iarr', 'slice', 'iarr'], ['none', 'iarr', 'slice', 'iarr'], ['slice', 'iarr', 'none', 'iarr'],
            ['slice', 'slice', 'iarr', 'slice', 'iarr'], ['slice', 'iarr', 'ell', 'iarr'], ['bool', 'barr1', 'slice', 'iarr'],
            ['slice', 'iarr', 'slice', 'int', 'iarr']]
    for _ in range(4000 if thorough else 800):
        kinds = rng.choice(pats)
        rank = sum(G.CONS[k] for k in kinds) + (1 if 'ell' in kinds and rng.random() < 0.5 else 0)
        shape = [rng.choice([1, 2, 3]) for _ in range(rank)]
        t = {'cls': rng.choice(['Scalar', 'Scalar', 'Vector']), 'shape': shape, 'mask': G.rand_mask_rep(rng, shape, views=False),
             'derivs': {}, 'shared': False}
        t['item'] = rng.choice(R.ITEMS[t['cls']])
        ents = G.concretise(rng, shape, kinds, p_mask=0.2, p_oob=0.1)
        try:
            out_shape, _ = R.ref_select(shape, ents)
        except R.RefError:
            continue
        # derivative key sets: only in the target / only in the right-hand side / in both / none
        dmode = rng.choice(['none', 'target', 'rhs', 'both', 'target', 'disjoint'])
        tkeys = {'none': [], 'target': ['t'], 'rhs': [], 'both': ['t', 'a'], 'disjoint': ['t']}[dmode]
        rkeys = {'none': [], 'target': [], 'rhs': ['a'], 'both': ['t'], 'disjoint': ['a']}[dmode]
        base = {'t': 100000, 'a': 200000}
        for key in tkeys:
            t['derivs'][key] = {'base': base[key], 'mask': G.rand_mask_rep(rng, shape, views=False)}
        j = 0 if rng.random() < 0.5 else rng.randint(0, len(out_shape))
        rs = list(out_shape[j:])
        if rng.random() < 0.25:
            rs = [1 if rng.random() < 0.4 else n for n in rs]
        # right-hand-side masks: over-represent full arrays with mixed bits (they are moved with the array axes)
        rmask = [rng.random() < 0.4 for _ in range(R.prod(rs))] if (rs and rng.random() < 0.6) else G.rand_mask_rep(rng, rs)
        rhs = {'shape': rs, 'mask': rmask, 'derivs': {}}
        for key in rkeys:
            rhs['derivs'][key] = {'base': base[key], 'mask': G.rand_mask_rep(rng, rs)}
        cases.append(mk({'target': t, 'steps': [{'index': ents, 'bare': False, 'rhs': rhs}]}))
    # integer-gap stream: a plain integer, ONE separating slice / None / Ellipsis, then an integer-array item with
    # partly masked / out-of-range elements (NumPy puts the array axes first; DESIGN 8.2)
    gaps = [['int', 'slice', 'iarr'], ['int', 'none', 'iarr'], ['int', 'ell', 'iarr'], ['slice', 'int', 'slice', 'iarr'],
            ['int', 'slice', 'iarr', 'slice'], ['iarr', 'slice', 'int'], ['int', 'slice', 'vec2']]
    for _ in range(2500 if thorough else 500):
        kinds = rng.choice(gaps)
        rank = sum(G.CONS[k] for k in kinds) + (1 if 'ell' in kinds else 0) + rng.choice([0, 0, 1])
        shape = [rng.choice([2, 3, 4]) for _ in range(rank)]
        t = {'cls': rng.choice(['Scalar', 'Scalar', 'Vector']), 'shape': shape, 'mask': G.rand_mask_rep(rng, shape, views=False),
             'derivs': {}, 'shared': False}
        t['item'] = rng.choice(R.ITEMS[t['cls']])
        ents = G.concretise(rng, shape, kinds, p_mask=0.35, p_oob=0.15)
        for e in ents:
            if e['k'] == 'int':
                e['m'] = False
                e['v'] = rng.randint(0, 1)              # in range: only the array item carries masked entries
            if e['k'] == 'iarr':
                e['form'] = 'Scalar'
                e['m'] = [rng.random() < 0.4 for _ in range(R.prod(e['shape']))]
        try:
            out_shape, _ = R.ref_select(shape, ents)
        except R.RefError:
            continue
        rs = rng.choice([list(out_shape), [], list(out_shape[1:])])
        rhs = {'shape': rs, 'mask': G.rand_mask_rep(rng, rs), 'derivs': {}}
        cases.append(mk({'target': t, 'steps': [{'index': ents, 'bare': False, 'rhs': rhs}]}))
    # history stream: a whole-object assignment (a[...] = b, b of the target's shape, with derivatives), then indexed
    # assignments into the target; the earlier right-hand sides must stay as they were
    for _ in range(1500 if thorough else 300):
        c = gen_case(rng, rng.randint(1, 3), derivs=True)
        t = c['target']
        if not t['shape']:
            continue
        whole = {'index': [rng.choice([{'k': 'ell'}, {'k': 'bool', 'v': True, 'form': 'py', 'm': False},
                                        {'k': 'slice', 'a': None, 'b': None, 'c': None}])], 'bare': True,
                 'rhs': {'shape': list(t['shape']), 'mask': G.rand_mask_rep(rng, t['shape'], views=False),
                         'derivs': {key: {'base': {'t': 100000, 'a': 200000}[key],
                                          'mask': G.rand_mask_rep(rng, t['shape'], views=False)}
                                    for key in rng.choice([['t'], ['t', 'a'], ['a']])}}}
        for a in c['steps']:
            if not a['rhs'].get('plain') and rng.random() < 0.7:
                a['rhs']['derivs'] = {'t': {'base': 100000, 'mask': G.rand_mask_rep(rng, a['rhs']['shape'])}}
        cases.append(mk({'target': t, 'steps': [whole] + c['steps']}))
    if thorough:
        for _ in range(600):
            cases.append(mk(gen_case(rng, 30, derivs=rng.random() < 0.3)))
    return cases


def neighbours(case):
    # single steps of a failing sequence, replayed from the initial state
    for a in case['steps']:
        yield mk({'target': case['target'], 'steps': [a]})
