"""T2 for C01: regenerate lean/PMV/Gen/C01Routes.lean from the CURRENT source of /repo.

For every function of the arithmetic / math / product API the translator extracts (with `ast`, no execution)
  * its own mask-handling tokens: Qube.or_ call, `x._mask_ | y._mask_`, clone(), _set_mask_(), a `._mask_` read handed on,
    mask_where_eq/lt/le/gt, is_one_true, masked_single, as_all_masked, np.isnan / np.isinf, linalg.det, np.any,
    _func_of_unmasked, Qube.broadcast;
  * the arithmetic helpers it calls (`_div_by_scalar`, `reciprocal`, `Qube.dot`, ... - a fixed whitelist; in the functions
    the source writes as compositions also the Python operators `/ * - + **`).
and the harness's own path table: for every catalogue operation the set of model `Path`s that harness/c01.py:request
actually emits (collected from a generated case list), together with the entry functions of the operation.

The Lean side (PMV/Model/C01Routes.lean, PMV/Props/C01Routes.lean) closes by `decide`:
  every path the harness uses for an operation needs its characteristic token to be REACHABLE from the operation's entry
  functions in the extracted call graph, and every arithmetic helper must still contain its characteristic tokens.
So a refactoring that reroutes an operator (e.g. `__truediv__` no longer through `_div_by_scalar`, `_mod_by_scalar` merged
with `Qube.or_` instead of `|`, sqrt no longer through mask_where_lt) breaks an obligation instead of being trusted.
"""
import ast, os

FILES = [('qube.py', 'Qube'), ('scalar.py', 'Scalar'), ('boolean.py', 'Boolean'), ('vector.py', 'Vector'),
         ('vector3.py', 'Vector3'), ('pair.py', 'Pair'), ('matrix.py', 'Matrix'), ('matrix3.py', 'Matrix3'),
         ('quaternion.py', 'Quaternion'), ('extensions/math_ops.py', None), ('extensions/mask_ops.py', None)]

# calls that are followed in the call graph (bare names)
HELPERS = {'_mul_by_scalar', '_mul_by_number', '_div_by_scalar', '_div_by_number', '_floordiv_by_scalar',
           '_floordiv_by_number', '_mod_by_scalar', '_mod_by_number', 'reciprocal', 'inverse', 'as_int', 'as_float',
           'as_numeric', 'dot', 'cross', 'outer', 'norm', 'norm_sq', 'unit', 'sqrt', 'sin', 'cos', 'conj', 'from_parts',
           '__add__', '__sub__', '__mul__', '__truediv__', '__floordiv__', '__mod__', '__pow__', '__neg__', '__abs__',
           '__rtruediv__', '_power_0', '_power_1', '_power_2', '_power_3', '_power_4', '_power_neg_1', '_power_half',
           '_power_neg_half', 'element_mul', 'x_rotation', 'y_rotation', 'z_rotation', 'transpose', 'mask_where',
           'mask_where_eq', 'mask_where_lt', 'mask_where_le', 'mask_where_gt', 'remask_or', 'abs', 'wod'}
# functions written as compositions with Python operators: their BinOps / UnaryOps are operator calls on Qubes
COMPOSITIONS = {'Vector.unit', 'Vector.with_norm', 'Vector.perp', 'Vector.proj', 'Vector.ucross', 'Quaternion.reciprocal',
                'Quaternion.from_rotation', 'Qube.__pow__', 'Boolean.__neg__', 'Boolean.__add__', 'Boolean.__radd__',
                'Boolean.__sub__', 'Boolean.__rsub__', 'Boolean.__mul__', 'Boolean.__rmul__', 'Boolean.__truediv__',
                'Boolean.__rtruediv__', 'Boolean.__floordiv__', 'Boolean.__rfloordiv__', 'Boolean.__mod__',
                'Boolean.__rmod__', 'Boolean.__pow__', 'Scalar.abs', 'Quaternion.__truediv__'}
BINOPS = {ast.Add: ['__add__'], ast.Sub: ['__sub__'], ast.Mult: ['__mul__'], ast.Div: ['__truediv__', '__rtruediv__'],
          ast.FloorDiv: ['__floordiv__'], ast.Mod: ['__mod__'], ast.Pow: ['__pow__']}

TOKEN_OF_CALL = {'or_': 'orr', 'clone': 'clone', '_set_mask_': 'setMask', 'mask_where_eq': 'mwEq', 'mask_where_lt': 'mwLt',
                 'mask_where_le': 'mwLe', 'mask_where_gt': 'mwGt', 'is_one_true': 'isOneTrue',
                 'masked_single': 'maskedSingle', 'as_all_masked': 'allMasked', 'isnan': 'isnan', 'isinf': 'isinf',
                 'det': 'det', 'any': 'npAny', '_func_of_unmasked': 'funcUnmasked', 'broadcast': 'broadcast'}
TOKENS = ['clone', 'setMask', 'orr', 'pipe', 'mask', 'mwEq', 'mwLt', 'mwLe', 'mwGt', 'isOneTrue', 'maskedSingle',
          'allMasked', 'isnan', 'isinf', 'det', 'npAny', 'funcUnmasked', 'broadcast']

# catalogue operation -> entry functions
ENTRIES = {
    'add': ['Qube.__add__', 'Qube.__radd__', 'Boolean.__add__', 'Boolean.__radd__'],
    'sub': ['Qube.__sub__', 'Qube.__rsub__', 'Boolean.__sub__', 'Boolean.__rsub__'],
    'mul': ['Qube.__mul__', 'Qube.__rmul__', 'Boolean.__mul__', 'Boolean.__rmul__'],
    'div': ['Qube.__truediv__', 'Qube.__rtruediv__', 'Boolean.__truediv__', 'Boolean.__rtruediv__'],
    'floordiv': ['Qube.__floordiv__', 'Qube.__rfloordiv__', 'Boolean.__floordiv__', 'Boolean.__rfloordiv__'],
    'mod': ['Qube.__mod__', 'Qube.__rmod__', 'Boolean.__mod__', 'Boolean.__rmod__'],
    'pow': ['Scalar.__pow__', 'Boolean.__pow__'], 'matpow': ['Qube.__pow__'],
    'neg': ['Qube.__neg__', 'Boolean.__neg__'], 'abs': ['Qube.__abs__', 'Boolean.__abs__'],
    'pos': ['Qube.__pos__', 'Boolean.__pos__'], 'absm': ['Scalar.abs'],
    'sqrt': ['Scalar.sqrt'], 'log': ['Scalar.log'], 'exp': ['Scalar.exp'], 'arcsin': ['Scalar.arcsin'],
    'arccos': ['Scalar.arccos'], 'sin': ['Scalar.sin'], 'cos': ['Scalar.cos'], 'tan': ['Scalar.tan'],
    'arctan': ['Scalar.arctan'], 'arctan2': ['Scalar.arctan2'], 'reciprocal': ['Scalar.reciprocal'],
    'sign': ['Scalar.sign'], 'sign0': ['Scalar.sign'], 'int': ['Scalar.int'], 'frac': ['Scalar.frac'],
    'as_int': ['Qube.as_int'], 'as_float': ['Qube.as_float'], 'round': ['Scalar.__round__'],
    'dot': ['Vector.dot'], 'cross': ['Vector.cross'], 'outer': ['Vector.outer'], 'element_mul': ['Vector.element_mul'],
    'element_div': ['Vector.element_div'], 'norm': ['Vector.norm'], 'norm_sq': ['Vector.norm_sq'],
    'unit': ['Vector.unit'], 'perp': ['Vector.perp'], 'proj': ['Vector.proj'], 'ucross': ['Vector.ucross'],
    'with_norm': ['Vector.with_norm'],
    'vdiv': ['Qube.__truediv__'], 'mdiv': ['Qube.__truediv__'], 'vmul': ['Qube.__mul__'], 'svmul': ['Qube.__mul__'],
    'matvec': ['Qube.__mul__', 'Matrix3.__mul__'], 'matmul': ['Qube.__mul__', 'Matrix3.__mul__'],
    'rotscalar': ['Matrix3.__mul__'], 'qmul': ['Quaternion.__mul__'], 'qdiv': ['Quaternion.__truediv__'],
    'inverse': ['Matrix.inverse'], 'qrecip': ['Quaternion.reciprocal'],
    'x_rotation': ['Matrix3.x_rotation'], 'y_rotation': ['Matrix3.y_rotation'], 'z_rotation': ['Matrix3.z_rotation'],
    'axis_rotation': ['Matrix3.axis_rotation'], 'pole_rotation': ['Matrix3.pole_rotation'],
    'm3_from_euler': ['Matrix3.from_euler'], 'q_from_euler': ['Quaternion.from_euler'],
    'q_from_rotation': ['Quaternion.from_rotation'],
}
# arithmetic helpers whose own body must keep its characteristic tokens
HELPER_FNS = {'divByScalar': 'Qube._div_by_scalar', 'floordivByScalar': 'Qube._floordiv_by_scalar',
              'modByScalar': 'Qube._mod_by_scalar', 'divByNumber': 'Qube._div_by_number',
              'mulByScalar': 'Qube._mul_by_scalar', 'sqrt': 'Scalar.sqrt', 'log': 'Scalar.log', 'exp': 'Scalar.exp',
              'recip': 'Scalar.reciprocal', 'scalarPow': 'Scalar.__pow__', 'elementDiv': 'Vector.element_div',
              'matInverse': 'Matrix.inverse', 'boolAsInt': 'Boolean.as_int', 'boolAsFloat': 'Boolean.as_float',
              'arcsin': 'Scalar.arcsin', 'arccos': 'Scalar.arccos', 'qubeOr': 'Qube.or_', 'maskWhere': 'Qube.mask_where',
              'remaskOr': 'Qube.remask_or'}
PATHS = ['cloneSet', 'setTrue', 'ctor1', 'ctorOr', 'ctorOrSame', 'ctorOr3', 'divScalar', 'divScalarSame', 'divPipe',
         'guard', 'guardAsin', 'pow0D', 'powArr', 'elementDiv', 'matInverse', 'm3mul']


def parse_functions(repo):
    fns = {}
    for rel, cls in FILES:
        p = os.path.join(repo, 'polymath', rel)
        tree = ast.parse(open(p).read())
        for node in tree.body:
            if isinstance(node, ast.ClassDef):
                for f in node.body:
                    if isinstance(f, ast.FunctionDef):
                        fns['%s.%s' % (node.name, f.name)] = f
            elif isinstance(node, ast.FunctionDef) and cls is None:
                fns['Qube.%s' % node.name] = f = node            # extension functions are grafted onto Qube
    return fns


def has_mask_attr(node):
    return any((isinstance(n, ast.Attribute) and n.attr == '_mask_') or (isinstance(n, ast.Name) and 'mask' in n.id)
               for n in ast.walk(node))


def analyse(key, f):
    toks, calls = set(), set()
    for n in ast.walk(f):
        if isinstance(n, ast.Call):
            name = n.func.attr if isinstance(n.func, ast.Attribute) else n.func.id if isinstance(n.func, ast.Name) else None
            if name in TOKEN_OF_CALL:
                toks.add(TOKEN_OF_CALL[name])
            if isinstance(n.func, ast.Name) and name == 'abs':        # builtin abs(x) -> x.__abs__()
                calls.add('__abs__')
            elif name in HELPERS:
                calls.add(name)
        elif isinstance(n, ast.Attribute) and n.attr in ('wod',):
            pass
        if isinstance(n, ast.Attribute) and n.attr == '_mask_' and isinstance(n.ctx, ast.Load):
            toks.add('mask')
        if isinstance(n, ast.BinOp) and isinstance(n.op, ast.BitOr) and has_mask_attr(n):
            toks.add('pipe')
        if isinstance(n, ast.Call) and isinstance(n.func, ast.Attribute) and n.func.attr == 'logical_or' \
                and has_mask_attr(n):
            toks.add('pipe')                                   # np.logical_or(mask0, mask1) is the same thing
        if key in COMPOSITIONS:
            if isinstance(n, ast.BinOp) and type(n.op) in BINOPS:
                calls.update(BINOPS[type(n.op)])
            if isinstance(n, ast.UnaryOp) and isinstance(n.op, ast.USub):
                calls.add('__neg__')
    return toks, calls


def harness_paths():
    """op -> set of model paths harness/c01.py emits for it (from a generated case list)"""
    import random, c01
    rng = random.Random(12345)
    cases = c01.gen_cases(rng, 'quick')
    res = {}

    def walk(x, acc):
        if isinstance(x, list):
            for y in x:
                walk(y, acc)
        elif isinstance(x, str) and x in PATHS:
            acc.add(x)
    for c in cases:
        if c.get('tree') or c.get('req') is None:
            continue
        acc = res.setdefault(c['op'], set())
        walk(c['req'], acc)
        if c['req'][1] == 'm3mul':
            acc.add('m3mul')
    return res


def generate(repo, op_paths=None):
    fns = parse_functions(repo)
    info = {k: analyse(k, f) for k, f in fns.items()}
    by_bare = {}
    for k in fns:
        by_bare.setdefault(k.split('.', 1)[1], []).append(k)
    # restrict the emitted graph to what is reachable from the entries (Lean recomputes reachability on it)
    todo = [e for es in ENTRIES.values() for e in es] + list(HELPER_FNS.values())
    missing = sorted({e for e in todo if e not in fns})
    seen = []
    while todo:
        k = todo.pop()
        if k in seen or k not in fns:
            continue
        seen.append(k)
        for c in info[k][1]:
            todo += by_bare.get(c, [])
    seen.sort()
    ids = {k: i for i, k in enumerate(seen)}
    if op_paths is None:
        op_paths = harness_paths()
    lines = ['/- GENERATED by harness/c01_py2lean.py from /repo on every run — do not edit. -/',
             'import PMV.Model.C01Routes', 'namespace PMV.Gen.C01Routes', 'open PMV.C01Routes', '',
             'def fns : List Fn := [']
    rows = []
    for k in seen:
        toks, calls = info[k]
        callees = sorted({ids[c] for b in calls for c in by_bare.get(b, []) if c in ids})
        rows.append('  ⟨%d, [%s], [%s]⟩  -- %s (line %d)' % (ids[k], ', '.join('.' + t for t in TOKENS if t in toks),
                                                           ', '.join(map(str, callees)), k, fns[k].lineno))
    lines.append(',\n'.join(r.split('  --')[0] + '  /- ' + r.split('  -- ')[1] + ' -/' for r in rows))
    lines.append(']')
    lines.append('')
    lines.append('def rows : List Row := [')
    rr = []
    for op in sorted(op_paths):
        if op not in ENTRIES:
            continue
        ent = [ids[e] for e in ENTRIES[op] if e in ids]
        for p in sorted(op_paths[op]):
            rr.append('  ⟨[%s], .%s⟩  /- %s -/' % (', '.join(map(str, ent)), p, op))
    lines.append(',\n'.join(rr))
    lines.append(']')
    lines.append('')
    lines.append('def helpers : List (Helper × Nat) := [')
    lines.append(',\n'.join('  (.%s, %d)  /- %s -/' % (h, ids[f], f) for h, f in sorted(HELPER_FNS.items()) if f in ids))
    lines.append(']')
    lines.append('')
    lines.append('def missing : List String := [%s]' % ', '.join('"%s"' % m for m in missing))
    lines.append('')
    lines.append('end PMV.Gen.C01Routes')
    return '\n'.join(lines) + '\n', {'functions': len(seen), 'rows': len(rr), 'missing': missing}


def regen(repo, lean_dir, op_paths=None):
    src, info = generate(repo, op_paths)
    path = os.path.join(lean_dir, 'PMV', 'Gen', 'C01Routes.lean')
    os.makedirs(os.path.dirname(path), exist_ok=True)
    if not os.path.exists(path) or open(path).read() != src:
        open(path, 'w').write(src)
    return dict(info, file='PMV/Gen/C01Routes.lean', obligations=0)


if __name__ == '__main__':
    import sys
    sys.path.insert(0, os.path.dirname(os.path.abspath(__file__)))
    print(generate(sys.argv[1] if len(sys.argv) > 1 else '/repo')[0])
