"""Abstraction between real polymath objects and the wire operands of the line protocol."""
import itertools, warnings
import numpy as np
import polymath
from polymath import Qube, Scalar, Boolean, Vector, Vector3, Pair, Matrix, Matrix3, Quaternion, Units

CLASSES = {'Scalar': Scalar, 'Boolean': Boolean, 'Vector': Vector, 'Vector3': Vector3, 'Pair': Pair,
           'Matrix': Matrix, 'Matrix3': Matrix3, 'Quaternion': Quaternion}


def mk_mask(m, shape):
    """m: 'T' | 'F' | list of bits (row-major over shape) | {'view': srcshape, 'bits': [...]}"""
    if m == 'T':
        return True
    if m == 'F':
        return False
    if isinstance(m, dict):
        src = np.array(m['bits'], dtype=bool).reshape(m['view'])
        return np.broadcast_to(src, tuple(shape))
    return np.array(m, dtype=bool).reshape(shape)


def mask_bits(m, shape):
    """expanded bits of a wire mask"""
    if m == 'T' or m == 'F':
        return [m == 'T'] * int(np.prod(shape, dtype=int))
    if isinstance(m, dict):
        return [bool(x) for x in mk_mask(m, shape).ravel()]
    return [bool(x) for x in m]


def mask_sx(m, shape):
    """wire form for the model: scalar reps stay T/F, every array rep is sent expanded"""
    if m == 'T':
        return True
    if m == 'F':
        return False
    return [bool(x) for x in mask_bits(m, shape)]


def mask_reps(bits, shape, rng=None, views=True):
    """all wire representations whose expansion is `bits`"""
    if len(shape) == 0:                      # a shapeless object's mask is always a single bool
        return ['T' if bits[0] else 'F']
    reps = [list(bits)]
    if not any(bits):
        reps.append('F')
    if all(bits) :
        reps.append('T')
    if views and len(shape) >= 1 and shape[0] > 1 and int(np.prod(shape, dtype=int)) > 0:
        a = np.array(bits, dtype=bool).reshape(shape)
        if (a == a[:1]).all():
            src = [1] + list(shape[1:])
            reps.append({'view': src, 'bits': [bool(x) for x in a[:1].ravel()]})
    return reps


def expanded_mask(q):
    return np.broadcast_to(np.asarray(q._mask_, dtype=bool), q._shape_)


def all_shapes(max_rank, lengths):
    for r in range(max_rank + 1):
        for s in itertools.product(lengths, repeat=r):
            yield list(s)


def np_bcast(s0, s1):
    try:
        return list(np.broadcast_shapes(tuple(s0), tuple(s1)))
    except ValueError:
        return None
