"""C07 / T2: regenerate lean/PMV/Gen/WriteSites.lean from the source of polymath (Python `ast`).

For every public non-mutating method / operator / static constructor of every class (and every public function the
extension modules graft onto Qube) list the WRITE SITES

    X[...] = …      X[...] op= …      X op= …       X.fill(…)     np.<f>(…, out=X)    np.copyto(X, …)
    X.flags[…] = …  X.flags.writeable = …  X.setflags(…)          X.name = …          X.<storage attr> = …
    X.insert_deriv(…) / delete_deriv(s) / set_units / as_readonly / _set_values_ / _set_mask_   (mutator on X)

together with the ROOT of the target X, computed by a DEFINITE taint analysis:

    shallow X is a new object made by clone()/wod/without_derivs() of a parameter (its arrays are the parameter's;
            only writes into those arrays count)
    param   X is definitely (on every path) the storage of a parameter: reached from a parameter (incl. self) through
            attribute pass-through (_values_, _mask_, _units_, _derivs_[k], .values, .mask, .wod, …), NumPy
            view-producing expressions (basic slices, [..., ::-1], reshape, swapaxes, rollaxis, moveaxis,
            broadcast_to, asarray, .T, .view()) and object-level shallow copies (clone(), wod, without_derivs())
    fresh   X is definitely new (np.zeros/empty/array/…, arithmetic, .copy(), .astype(), constructor calls)
    unknown anything else (unknown origins are NOT flagged, so a harmless rewrite cannot trip the check)

Control flow: both branches of an `if`, loop bodies and try/except arms are analysed and JOINED (a variable keeps a
root only if all paths agree).  The Lean theorem `no_tainted_write` (closed by `decide`) demands that no site has a
`param` root unless it is on the allow-list below (documented exceptions, each with its reason).
"""
import ast, os, sys

REPO_FILES = ['qube.py', 'scalar.py', 'boolean.py', 'vector.py', 'vector3.py', 'pair.py', 'matrix.py', 'matrix3.py',
              'quaternion.py', 'polynomial.py', 'units.py']
EXT_FILES = ['indexer.py', 'item_ops.py', 'iterator.py', 'mask_ops.py', 'math_ops.py', 'shaper.py', 'shrinker.py',
             'tvl.py']      # pickler.py is C11's (encodes into its own buffers)

STORAGE_ATTRS = {'_values_', '_mask_', '_units_', '_derivs_', 'values', 'vals', 'mask', 'units', 'derivs', 'wod',
                 'T', 'real', 'imag', 'flat', 'base'}
OBJ_SHALLOW = {'clone', 'without_derivs', 'without_deriv', 'without_mask', 'without_units', 'as_readonly'}
NP_VIEW_FUNCS = {'rollaxis', 'moveaxis', 'swapaxes', 'broadcast_to', 'asarray', 'asanyarray', 'reshape', 'transpose',
                 'squeeze', 'expand_dims', 'atleast_1d', 'atleast_2d', 'ascontiguousarray'}
ND_VIEW_METHODS = {'reshape', 'swapaxes', 'view', 'transpose', 'squeeze'}
NP_MAYVIEW = {'ravel', 'diagonal', 'diag', 'real', 'imag', 'split', 'array_split', 'hsplit', 'vsplit', 'dsplit', 'flip',
              'fliplr', 'flipud', 'rot90', 'broadcast_arrays', 'atleast_3d', 'asfortranarray', 'require', 'nan_to_num',
              'asarray_chkfinite', 'frombuffer', 'ndarray', 'take_along_axis', 'lib', 'ma', 'nditer', 'array'}
NP_FRESH_FUNCS = {'zeros', 'ones', 'empty', 'full', 'array', 'arange', 'eye', 'identity', 'diag', 'zeros_like',
                  'ones_like', 'empty_like', 'full_like', 'copy', 'stack', 'concatenate', 'where', 'sqrt', 'abs',
                  'sum', 'cos', 'sin', 'logical_not', 'logical_or', 'logical_and'}
FRESH_METHODS = {'copy', 'astype', '__copy__'}
MUTATORS = {'insert_deriv', 'insert_derivs', 'delete_deriv', 'delete_derivs', 'set_units', 'as_readonly',
            '_set_values_', '_set_mask_', '__setitem__', 'set_name', 'match_readonly'}
REBIND_ATTRS = {'_values_', '_mask_', '_units_', '_derivs_', '_readonly_', 'name', 'exponents', 'triple', 'factor',
                'factor_inv'}
ND_INPLACE_METHODS = {'fill', 'sort', 'resize', 'itemset', 'setfield', 'put', 'partition', 'byteswap'}

# documented exceptions: (function qualname, kind, target text) -> reason
ALLOW = {
    ('Qube.broadcast_to', 'mutcall:as_readonly', 'self'):
        'documented: "the returned object shares data with the original and both objects will be read-only" '
        '(qube.py broadcast_to docstring); the property names this as the only side effect',
}

# POSSIBLE sites (target is a parameter's storage on SOME path, or a bare parameter updated with `op=`): each one has
# been read and is listed here with the reason why it cannot modify an operand; a new one fails `no_unreviewed_possible`
# and is given extra draws by the sweep (dynamic monitoring)
POSSIBLE_OK = {
    ('Qube.as_this_type', 'mutcall:insert_derivs', 'obj'):
        'obj is the argument only when nothing was converted; otherwise it is a new object, a copy (read-only '
        'argument) or — since fix 60822dc — a shallow clone of the argument',
    ('Vector.to_pair', 'augname', 'i0'): 'i0 = axes[0] is an integer (immutable): `i0 -= n` rebinds the local',
    ('Vector.int', 'augname', 'mask'): 'an array mask has been replaced by mask.copy() three lines above; a scalar '
                                       'mask is a Python bool (immutable)',
    ('Units.mul_units', 'setname', 'result'): 'guarded by `result is arg1 or result is arg2` (fix for #13): only a '
                                              'newly created Units object is renamed',
    ('Units.div_units', 'setname', 'result'): 'guarded by `result is arg1` (fix for #13): only a newly created Units '
                                              'object is renamed',
}

# --------------------------------------------------------------------------------------------------------------
FRESH, UNKNOWN = ('fresh',), ('unknown',)
NEWOBJ = ('fresh', 'obj')     # a new Qube/Units object (its arrays may be the caller's: attributes are `unknown`)
CLASS_NAMES = {'Qube', 'Scalar', 'Boolean', 'Vector', 'Vector3', 'Pair', 'Matrix', 'Matrix3', 'Quaternion', 'Polynomial',
               'Units'}
CTOR_STATICS = set()
FRESHOP = ('fresh', 'op')      # result of an operator: a new ndarray, but a new Qube may share its operand's mask


def PARAM(name, storage):
    return ('param', name, storage)


def SHALLOW(name):
    """a NEW object (clone(), wod, without_derivs() …) whose arrays are the parameter's arrays: rebinding its
    attributes or inserting derivatives is harmless, writing into its _values_/_mask_ is not"""
    return ('shallow', name)


def MAY(name, storage):
    """on SOME path the storage of parameter `name` (path-sensitive may-alias; never an obligation failure by itself,
    but every write through it is listed as a POSSIBLE site and must be on the reviewed list)"""
    return ('may', name, storage)


CONST = ('fresh', 'const')     # None / number / string / bool: immutable, a write through it raises


def ORNEW(name):
    """the bare parameter `name` itself on some path, a NEW object on the others (`cast`, `as_float`, … return
    `self` when nothing has to change): object-level changes are POSSIBLE changes of the parameter"""
    return ('ornew', name)


def join(a, b):
    if a == b:
        return a
    if a == CONST:
        return b
    if b == CONST:
        return a
    for x, y in ((a, b), (b, a)):
        if x[0] == 'param' and not x[2] and (y == NEWOBJ or y[0] == 'shallow' and y[1] == x[1]):
            return ORNEW(x[1])
        if x[0] == 'ornew' and (y == NEWOBJ or (y[0] in ('shallow', 'param') and y[1] == x[1] and not (y[0] == 'param' and y[2]))):
            return x
    if a[0] == 'param' and b[0] == 'param' and a[1] == b[1]:
        return PARAM(a[1], a[2] and b[2])
    for x, y in ((a, b), (b, a)):
        if x[0] in ('param', 'may'):
            return MAY(x[1], bool(x[2]) or (y[0] in ('param', 'may') and bool(y[2])))
        if x[0] == 'shallow' and y[0] != 'shallow':
            return UNKNOWN
    return UNKNOWN


def join_env(e1, e2):
    out = {}
    for k in set(e1) | set(e2):
        out[k] = join(e1.get(k, UNKNOWN), e2.get(k, UNKNOWN))
    return out


def is_basic_index(node):
    """definitely a basic (view-producing) index: slices, Ellipsis, None, integer constants, tuples of these"""
    if isinstance(node, ast.Slice):
        return True
    if isinstance(node, ast.Constant):
        return node.value is Ellipsis or node.value is None or (isinstance(node.value, int)
                                                                and not isinstance(node.value, bool))
    if isinstance(node, ast.UnaryOp) and isinstance(node.op, ast.USub):
        return is_basic_index(node.operand)
    if isinstance(node, ast.Tuple):
        return all(is_basic_index(e) for e in node.elts)
    if isinstance(node, ast.Attribute) and node.attr == 'newaxis':
        return True
    return False


class Fn:
    def __init__(self, qual, node, is_static):
        self.qual, self.node = qual, node
        self.static = is_static
        self.depth = 0          # nesting depth in if/for/while/try of the statement being analysed
        self.cls = qual.split('.', 1)[0]
        self.name = qual.split('.', 1)[1]
        self.sites = []
        self.returns = []
        a = node.args
        names = [x.arg for x in a.posonlyargs + a.args + a.kwonlyargs]
        if a.vararg:
            names.append(a.vararg.arg)          # *args: a tuple of the caller's objects
        self.env0 = {n: PARAM(n, False) for n in names if n != 'cls'}
        self.params = [n for n in names if n != 'cls']

    # ------------------------------------------------------------------ expressions
    def ev(self, e, env):
        if isinstance(e, ast.Name):
            return env.get(e.id, UNKNOWN)
        if isinstance(e, ast.Attribute):
            t = self.ev(e.value, env)
            if t[0] == 'param' and e.attr == 'wod':
                return SHALLOW(t[1])
            if t[0] in ('param', 'shallow') and (e.attr in STORAGE_ATTRS or e.attr.startswith('d_d')):
                return PARAM(t[1], True)
            if t[0] in ('may', 'ornew') and (e.attr in STORAGE_ATTRS or e.attr.startswith('d_d')):
                return MAY(t[1], True)
            if t in (FRESH, FRESHOP, CONST):
                return t                                # .T / .shape / .real of a new array
            if t == NEWOBJ and e.attr in ('__dict__', '_cache_', '_derivs_'):
                return NEWOBJ                           # the new object's own dictionaries
            return UNKNOWN
        if isinstance(e, ast.Subscript):
            t = self.ev(e.value, env)
            if t in (FRESH, FRESHOP) and is_basic_index(e.slice):
                return t
            if t[0] == 'may' and is_basic_index(e.slice):
                return t
            if t[0] == 'param':
                if isinstance(e.value, ast.Attribute) and e.value.attr in ('_derivs_', 'derivs'):
                    return PARAM(t[1], True)            # the derivative object held by the parameter
                if t[2] and is_basic_index(e.slice):
                    return PARAM(t[1], True)
                if not t[2] and isinstance(e.value, ast.Name) and is_basic_index(e.slice):
                    return PARAM(t[1], False)           # args[0] of *args, or a basic slice of a bare parameter
            return UNKNOWN
        if isinstance(e, ast.Call):
            r = self.ev_call(e, env)
            return r if r != UNKNOWN else self.call_ret(e, env)
        return self.ev_rest(e, env)

    def ev_call(self, e, env):
        if True:
            f = e.func
            if isinstance(f, ast.Attribute):
                base = f.value
                if isinstance(base, ast.Name) and base.id in ('np', 'numpy'):
                    if f.attr in NP_VIEW_FUNCS and e.args:
                        t = self.ev(e.args[0], env)
                        if t in (FRESH, FRESHOP):
                            return t                    # a view of a new array is new storage
                        if t[0] == 'may' and t[2]:
                            return t
                        return PARAM(t[1], True) if t[0] == 'param' and t[2] else UNKNOWN
                    if f.attr in NP_FRESH_FUNCS and not any(k.arg == 'copy' for k in e.keywords):
                        return FRESH
                    if f.attr in NP_MAYVIEW or any(k.arg in ('out', 'copy') for k in e.keywords):
                        return UNKNOWN
                    return FRESH                        # every other NumPy function returns a new array / a scalar
                t = self.ev(base, env)
                if f.attr in FRESH_METHODS:
                    return FRESH
                if t in (FRESH, FRESHOP) and all(self.ev(a, env)[0] == 'fresh' for a in e.args) and \
                        all(self.ev(k.value, env)[0] == 'fresh' for k in e.keywords):
                    # a method of a new array / deep copy whose arguments are new or immutable too: the result
                    # can only be (a view of) new storage
                    return t
                if t in (FRESH, FRESHOP) and f.attr in ND_VIEW_METHODS:
                    return t
                if t[0] == 'may' and t[2] and f.attr in ND_VIEW_METHODS:
                    return t
                if t[0] == 'param':
                    if t[2] and f.attr in ND_VIEW_METHODS:
                        return PARAM(t[1], True)
                    if f.attr == 'as_readonly':
                        return t                            # returns the object itself
                    if f.attr in OBJ_SHALLOW and not t[2]:
                        return SHALLOW(t[1])
                if t[0] == 'shallow' and f.attr in OBJ_SHALLOW:
                    return t
                if f.attr == '__new__' or (f.attr.endswith('_CLASS') and isinstance(base, ast.Name)):
                    return NEWOBJ                       # Qube.__new__(type(self)), Qube.BOOLEAN_CLASS(...)
                if isinstance(base, ast.Name) and base.id in CLASS_NAMES and f.attr in CTOR_STATICS:
                    return UNKNOWN
                return UNKNOWN
            if isinstance(f, ast.Name) and f.id in ('list', 'dict', 'set', 'sorted', 'zip', 'enumerate', 'range'):
                return ('fresh', 'container')
            if isinstance(f, ast.Name) and f.id in ('len', 'int', 'float', 'bool', 'str', 'abs', 'round', 'sum', 'max',
                                                     'min', 'repr', 'isinstance', 'tuple', 'type', 'id', 'hash'):
                return CONST
            if isinstance(f, ast.Name) and f.id in CLASS_NAMES:
                return NEWOBJ                           # Scalar(...), Matrix(...): a new object (arrays may be shared)
            if isinstance(f, ast.Call) and isinstance(f.func, ast.Name) and f.func.id == 'type':
                return NEWOBJ                           # type(self)(...)
            return UNKNOWN
        return UNKNOWN

    def ev_rest(self, e, env):
        if isinstance(e, ast.Constant) or isinstance(e, ast.JoinedStr):
            return CONST
        if isinstance(e, (ast.BinOp, ast.UnaryOp, ast.Compare, ast.BoolOp)):
            return FRESHOP if not isinstance(e, ast.BoolOp) else UNKNOWN
        if isinstance(e, ast.IfExp):
            return join(self.ev(e.body, env), self.ev(e.orelse, env))
        if isinstance(e, (ast.Dict, ast.List, ast.ListComp, ast.DictComp, ast.Set)):
            return ('fresh', 'container')       # a new list/dict (its elements may be the caller's objects)
        return UNKNOWN

    # ------------------------------------------------------------------ write sites
    def site(self, node, kind, target, env):
        root = self.ev(target, env)
        if root[0] == 'ornew':
            root = MAY(root[1], kind in ('setitem', 'augitem'))
        if root[0] == 'shallow' and kind in ('setitem', 'augitem'):
            # item assignment to a shallow copy goes through Qube.__setitem__, which writes the SHARED arrays
            root = PARAM(root[1], True)
        try:
            txt = ast.unparse(target)
        except Exception:
            txt = '?'
        self.sites.append({'fn': self.qual, 'line': node.lineno, 'kind': kind, 'target': txt[:60], 'root': root,
                           'definite': self.depth == 0})

    def write_target(self, node, tgt, env, aug):
        if isinstance(tgt, ast.Subscript):
            v = tgt.value
            if isinstance(v, ast.Attribute) and v.attr == 'flags':
                self.site(node, 'setflag', v.value, env)
            elif isinstance(v, ast.Attribute) and v.attr == '_cache_':
                pass            # the per-object cache is not operand state (values, mask, units, derivatives)
            else:
                self.site(node, 'augitem' if aug else 'setitem', v, env)
        elif isinstance(tgt, ast.Attribute):
            if isinstance(tgt.value, ast.Attribute) and tgt.value.attr == 'flags':
                self.site(node, 'setflag', tgt.value.value, env)
            elif tgt.attr in REBIND_ATTRS or tgt.attr.startswith('d_d'):
                root = self.ev(tgt.value, env)
                if root[0] == 'ornew':
                    root = MAY(root[1], False)
                kind = 'setname' if tgt.attr == 'name' else 'rebind:' + tgt.attr
                # rebinding an attribute of the parameter object itself
                self.sites.append({'fn': self.qual, 'line': node.lineno, 'kind': kind,
                                   'target': ast.unparse(tgt.value)[:60], 'root': root, 'definite': self.depth == 0})
        elif isinstance(tgt, ast.Name) and aug:
            root = env.get(tgt.id, UNKNOWN)
            if root[0] == 'ornew':
                root = MAY(root[1], False)
            if root[0] in ('param', 'may') and not root[2]:
                # a bare parameter may be an immutable number (axis += 1): not definite, but POSSIBLE (x_power *= x)
                root = MAY(root[1], False)
            self.sites.append({'fn': self.qual, 'line': node.lineno, 'kind': 'augname', 'target': tgt.id, 'root': root,
                               'definite': self.depth == 0})
        elif isinstance(tgt, (ast.Tuple, ast.List)):
            for t in tgt.elts:
                self.write_target(node, t, env, aug)

    # ------------------------------------------------------------------ interprocedural layer
    def resolve(self, call):
        """[(callee summary, {formal: actual expr})] for a call into polymath, or None.  Resolution is by NAME over all
        classes (dynamic dispatch): every candidate must agree for a result to be used."""
        f = call.func
        if isinstance(f, ast.Attribute):
            name, base = f.attr, f.value
        elif isinstance(f, ast.Name):
            name, base = f.id, None
        else:
            return None
        cands = TABLE.get(name)
        if not cands or name in MUTATORS or name in OBJ_SHALLOW or name in FRESH_METHODS:
            return None
        out = []
        class_base = isinstance(base, ast.Name) and base.id in CLASS_NAMES
        if class_base and any(c['cls'] == base.id for c in cands):
            cands = [c for c in cands if c['cls'] == base.id]
        for c in cands:
            formals = list(c['params'])
            actuals = list(call.args)
            if any(isinstance(a, ast.Starred) for a in actuals):
                return None
            bind = {}
            if base is not None and not c['static'] and not class_base:
                if not formals or formals[0] != 'self':
                    return None
                bind['self'] = base
                formals = formals[1:]
            elif c['static'] and formals and formals[0] == 'self':
                return None
            for fm, ac in zip(formals, actuals):
                bind[fm] = ac
            for kw in call.keywords:
                if kw.arg is not None:
                    bind[kw.arg] = kw.value
            out.append((c, bind))
        return out

    def inst(self, claim, bind, env):
        """root of a callee's result at this call"""
        if claim == 'newarray':
            return FRESH
        if claim == 'newobj':
            return NEWOBJ
        kind, _, p = claim.partition(':')
        if kind not in ('operand', 'storage', 'shallow', 'ornew') or p not in bind:
            return UNKNOWN
        t = self.ev(bind[p], env)
        if kind == 'ornew':
            if t == NEWOBJ or t[0] in ('shallow', 'ornew'):
                return t
            if t[0] == 'param' and not t[2]:
                return ORNEW(t[1])
            return UNKNOWN
        if kind == 'operand':
            return t
        if kind == 'storage':
            if t[0] in ('param', 'shallow'):
                return PARAM(t[1], True)
            if t[0] == 'may':
                return MAY(t[1], True)
            return UNKNOWN
        # shallow copy of the actual
        if t[0] == 'param' and not t[2]:
            return SHALLOW(t[1])
        if t[0] == 'shallow' or t == NEWOBJ:
            return t
        return UNKNOWN

    def call_ret(self, call, env):
        r = self.resolve(call)
        if not r:
            return UNKNOWN
        roots = [self.inst(c['claim'], bind, env) for c, bind in r]
        out = roots[0]
        for x in roots[1:]:
            if x != out:
                return UNKNOWN
        return out

    def call_effects(self, call, env):
        """the callee's writes to its parameters, instantiated at the actual arguments (summary composition)"""
        r = self.resolve(call)
        if not r or len(r) != 1 and len({tuple(sorted((e['formal'], e['kind'], e['storage'], e['definite'])
                                                        for e in c['effects'])) for c, _ in r}) != 1:
            return
        c, bind = r[0]
        for e in c['effects']:
            if e['formal'] not in bind or not e['definite']:
                # only what the callee does on EVERY path is composed; its conditional writes are POSSIBLE sites of the
                # callee itself (reviewed there) and stay invisible to the caller — kept definite on purpose
                continue
            t = self.ev(bind[e['formal']], env)
            if t[0] == 'param':
                root = PARAM(t[1], True) if (e['storage'] or t[2]) else PARAM(t[1], False)
            elif t[0] == 'shallow':
                if not e['storage'] and not e['kind'] in ('setitem', 'augitem'):
                    continue                    # object-level change of a new object
                root = PARAM(t[1], True)
            elif t[0] == 'may':
                root = MAY(t[1], bool(e['storage'] or t[2]))
            else:
                continue
            definite = e['definite'] and self.depth == 0
            try:
                txt = ast.unparse(bind[e['formal']])
            except Exception:
                txt = '?'
            self.sites.append({'fn': self.qual, 'line': call.lineno, 'kind': e['kind'], 'target': txt[:60],
                               'root': root, 'definite': definite, 'via': c['qual']})

    def calls(self, node, env):
        for c in ast.walk(node):
            if not isinstance(c, ast.Call):
                continue
            f = c.func
            self.call_effects(c, env)
            for kw in c.keywords:
                if kw.arg == 'out':
                    self.site(c, 'out=', kw.value, env)
            if isinstance(f, ast.Attribute):
                if isinstance(f.value, ast.Name) and f.value.id in ('np', 'numpy'):
                    if f.attr in ('copyto', 'put', 'putmask', 'place', 'fill_diagonal', 'put_along_axis') and c.args:
                        self.site(c, 'np.' + f.attr, c.args[0], env)
                    continue
                if f.attr in ND_INPLACE_METHODS:
                    self.site(c, 'nd.' + f.attr, f.value, env)
                elif f.attr == 'setflags':
                    self.site(c, 'setflag', f.value, env)
                elif f.attr in MUTATORS:
                    self.site(c, 'mutcall:' + f.attr, f.value, env)

    # ------------------------------------------------------------------ statements
    def block(self, stmts, env):
        for s in stmts:
            env = self.stmt(s, env)
        return env

    def assign(self, tgt, val_node, val_taint, env):
        if isinstance(tgt, ast.Name):
            env = dict(env)
            env[tgt.id] = val_taint
        elif isinstance(tgt, (ast.Tuple, ast.List)):
            env = dict(env)
            if isinstance(val_node, (ast.Tuple, ast.List)) and len(val_node.elts) == len(tgt.elts):
                for t, v in zip(tgt.elts, val_node.elts):
                    env = self.assign(t, v, self.ev(v, env), env)
            else:
                for t in tgt.elts:
                    env = self.assign(t, None, UNKNOWN, env)
        return env

    def stmt(self, s, env):
        if isinstance(s, (ast.FunctionDef, ast.ClassDef, ast.AsyncFunctionDef)):
            return env
        if isinstance(s, ast.Assign):
            self.calls(s.value, env)
            vt = self.ev(s.value, env)
            for t in s.targets:
                self.write_target(s, t, env, False)
            for t in s.targets:
                env = self.assign(t, s.value, vt, env)
            return env
        if isinstance(s, ast.AugAssign):
            self.calls(s.value, env)
            self.write_target(s, s.target, env, True)
            return env
        if isinstance(s, ast.AnnAssign):
            if s.value is not None:
                self.calls(s.value, env)
                env = self.assign(s.target, s.value, self.ev(s.value, env), env)
            return env
        if isinstance(s, (ast.If, ast.For, ast.AsyncFor, ast.While, ast.Try)):
            self.depth += 1
            try:
                return self.compound(s, env)
            finally:
                self.depth -= 1
        return self.compound(s, env)

    def compound(self, s, env):
        if isinstance(s, ast.If):
            self.calls(s.test, env)
            return join_env(self.block(s.body, env), self.block(s.orelse, env))
        if isinstance(s, (ast.For, ast.AsyncFor)):
            self.calls(s.iter, env)
            e1 = self.assign(s.target, None, UNKNOWN, env)
            e1 = self.block(s.body, e1)
            e1 = join_env(env, e1)
            e1 = join_env(e1, self.block(s.body, self.assign(s.target, None, UNKNOWN, e1)))   # second pass
            return join_env(e1, self.block(s.orelse, e1))
        if isinstance(s, ast.While):
            self.calls(s.test, env)
            e1 = join_env(env, self.block(s.body, env))
            e1 = join_env(e1, self.block(s.body, e1))
            return join_env(e1, self.block(s.orelse, e1))
        if isinstance(s, ast.Try):
            e1 = self.block(s.body, env)
            out = join_env(env, e1)
            for h in s.handlers:
                out = join_env(out, self.block(h.body, join_env(env, e1)))
            out = join_env(out, self.block(s.orelse, e1))
            return self.block(s.finalbody, out)
        if isinstance(s, (ast.With, ast.AsyncWith)):
            for it in s.items:
                self.calls(it.context_expr, env)
                if it.optional_vars is not None:
                    env = self.assign(it.optional_vars, None, UNKNOWN, env)
            return self.block(s.body, env)
        if isinstance(s, (ast.Expr, ast.Return, ast.Raise, ast.Assert, ast.Delete)):
            self.calls(s, env)
            if isinstance(s, ast.Return):
                self.returns.append(self.ev(s.value, env) if s.value is not None else ('none',))
            return env
        return env

    def run(self):
        self.sites, self.returns, self.depth = [], [], 0
        self.block(self.node.body, dict(self.env0))
        # loop bodies are analysed twice (fixpoint): keep, per site, the JOIN of the roots seen
        merged, order = {}, []
        for s in self.sites:
            k = (s['fn'], s['line'], s['kind'], s['target'], s.get('via'))
            if k in merged:
                merged[k]['root'] = join(merged[k]['root'], s['root'])
            else:
                merged[k] = s
                order.append(k)
        self.sites = [merged[k] for k in order]
        return self.sites

    def claim(self):
        """what the function returns, if all return statements agree: operand:<param> | storage:<param> |
        shallow:<param> | newarray | unknown"""
        if not self.returns:
            return 'none'
        r = self.returns[0]
        for x in self.returns[1:]:
            r = join(r, x)
        if r[0] == 'param':
            return ('storage:' if r[2] else 'operand:') + r[1]
        if r[0] == 'shallow':
            return 'shallow:' + r[1]
        if r == FRESH:
            return 'newarray'
        if r == NEWOBJ:
            return 'newobj'
        if r[0] == 'ornew':
            return 'ornew:' + r[1]
        return 'unknown'

    def summary(self):
        """what a caller needs to know: result claim and the writes to the parameters"""
        eff = []
        for st in self.sites:
            r = st['root']
            if r[0] in ('param', 'may') and r[1] in self.params:
                eff.append({'formal': r[1], 'kind': st['kind'], 'storage': bool(r[2]),
                            'definite': bool(st.get('definite')) and r[0] == 'param'})
        return {'qual': self.qual, 'cls': self.cls, 'params': list(self.params), 'static': self.static,
                'claim': self.claim(), 'effects': eff}


# --------------------------------------------------------------------------------------------------------------
def _public(name):
    import c07_sweep as N
    return N.is_public(name) and not N.is_inplace(name)


def repo_root():
    import polymath
    return os.path.dirname(os.path.abspath(polymath.__file__))


FUNS = []


TABLE = {}          # method name -> [callee summary] (all classes, public and private), from the previous round
ROUNDS = 3


def scan():
    """interprocedural: every function of polymath (public and private) is analysed ROUNDS times, each round using
    the callee summaries (result claim + writes to parameters) of the previous one; the PUBLIC NON-MUTATING ones are
    reported"""
    root = repo_root()
    allf = []
    for fn in REPO_FILES:
        tree = ast.parse(open(os.path.join(root, fn)).read(), fn)
        for c in tree.body:
            if not isinstance(c, ast.ClassDef):
                continue
            for m in c.body:
                if isinstance(m, ast.FunctionDef):
                    static = any(isinstance(d, ast.Name) and d.id in ('staticmethod', 'classmethod')
                                 for d in m.decorator_list)
                    clsm = any(isinstance(d, ast.Name) and d.id == 'classmethod' for d in m.decorator_list)
                    f = Fn('%s.%s' % (c.name, m.name), m, static and not clsm)
                    f.public = _public(m.name)
                    allf.append(f)
    for fn in EXT_FILES:
        tree = ast.parse(open(os.path.join(root, 'extensions', fn)).read(), fn)
        for m in tree.body:
            if isinstance(m, ast.FunctionDef):
                f = Fn('Qube.%s' % m.name, m, False)
                f.public = _public(m.name)
                allf.append(f)
    TABLE.clear()
    for rnd in range(ROUNDS):
        for f in allf:
            f.run()
        TABLE.clear()
        for f in allf:
            TABLE.setdefault(f.name, []).append(f.summary())
    FUNS.clear()
    sites = []
    for f in allf:
        if f.public:
            FUNS.append(f)
            sites += f.sites
    return sites, len(FUNS)


# --------------------------------------------------------------------------------------------------------------
# effect summaries generated from the per-function results (lean/PMV/Gen/Summaries.lean)
RELAXED_OK = {
    'Qube.broadcast_to': 'documented: broadcasting marks the operand read-only',
    'Qube.as_all_constant': 'documented: "a shallow, read-only copy"; as_readonly on the clone freezes the arrays it '
                            'shares with the operand (as_readonly: "the internal arrays will also cease to be writable '
                            'in any other object that shares them")',
    'Qube.copy': 'copy(readonly=True): as_readonly on the copy, whose arrays were replaced by duplicates just before '
                 '(the analysis does not track the rebinding)',
}
WRITE_KINDS = ('setitem', 'augitem', 'augname', 'out=')


def summarise(f):
    """(rx, claim, [Eff…]) or None when a write site has an unknown root"""
    effs, reg = [], [10]

    def new():
        reg[0] += 1
        return reg[0]

    def pidx(name):
        return f.params.index(name) if name in f.params else 0

    def shallow_obj(name, dst=None):
        a, v, m, u = new(), new(), new(), new()
        r = dst if dst is not None else new()
        effs.extend(['.arg %d %d' % (a, pidx(name)), '.get %d %d .vals' % (v, a), '.get %d %d .mask' % (m, a),
                     '.get %d %d .units' % (u, a), '.newObj %d %d %d %d' % (r, v, m, u)])
        return r

    for s in f.sites:
        root, kind = s['root'], s['kind']
        is_write = kind in WRITE_KINDS or kind.startswith('nd.') or kind.startswith('np.')
        if root[0] in ('unknown', 'may', 'ornew'):
            return None
        if root[0] == 'fresh':
            if is_write:
                r = new(); effs += ['.fresh %d' % r, '.writeInto %d 0' % r]
            elif kind == 'setflag' or kind == 'mutcall:as_readonly':
                r = new(); effs += ['.fresh %d' % r, '.setFlag %d' % r]
            elif kind == 'setname':
                r = new(); effs += ['.newUnits %d' % r, '.setName %d 0' % r]
            else:
                r = new(); effs += ['.newObj %d 9 9 9' % r, '.rebind %d .vals 9' % r]
        elif root[0] == 'shallow':
            r = shallow_obj(root[1])
            if kind == 'mutcall:as_readonly':
                effs.append('.markRO %d' % r)
            elif kind.startswith('mutcall:insert_deriv'):
                d = new(); effs += ['.newObj %d 9 9 9' % d, '.setDeriv %d 0 %d' % (r, d)]
            else:
                effs.append('.rebind %d .vals 9' % r)
        else:       # param
            a = new(); effs.append('.arg %d %d' % (a, pidx(root[1])))
            if root[2]:          # its storage
                if kind == 'setname':
                    u = new(); effs += ['.get %d %d .units' % (u, a), '.setName %d 0' % u]
                else:
                    v, w = new(), new()
                    effs += ['.get %d %d .vals' % (v, a), '.view %d %d' % (w, v)]
                    effs.append('.setFlag %d' % w if kind == 'setflag' else '.writeInto %d 0' % w)
            else:                # the parameter object itself
                if kind == 'mutcall:as_readonly':
                    effs.append('.markRO %d' % a)
                elif kind == 'setname':
                    effs.append('.setName %d 0' % a)
                elif kind == 'setflag':
                    effs.append('.setFlag %d' % a)
                elif is_write:
                    w = new(); effs += ['.view %d %d' % (w, a), '.writeInto %d 0' % w]
                else:
                    effs.append('.rebind %d .vals 9' % a)
    claim = f.claim()
    if claim.startswith('operand:'):
        effs.append('.arg 0 %d' % pidx(claim[8:]))
    elif claim == 'newarray':
        effs.append('.fresh 0')
    elif claim.startswith('storage:'):
        a = new(); effs += ['.arg %d %d' % (a, pidx(claim[8:])), '.get 0 %d .vals' % a]
    elif claim.startswith('shallow:'):
        shallow_obj(claim[8:], dst=0)
    return (f.qual in RELAXED_OK, claim, effs)


def render_summaries():
    out = ['import PMV.Model.Heap',
           '/- GENERATED by harness/c07_py2lean.py from the source of polymath — do not edit.',
           '   One effect summary per public non-mutating function all of whose write sites have a definite root:',
           '   the write sites in source order (each with the provenance of its target) and what is returned. -/',
           'namespace PMV.Gen.C07S', 'open PMV.Heap', '',
           'structure GenSummary where', '  fn : String', '  rx : Bool', '  claim : String', '  prog : List Eff', '',
           'def summaries : List GenSummary := [']
    rows, skipped = [], []
    for f in FUNS:
        sm = summarise(f)
        if sm is None:
            skipped.append(f.qual)
            continue
        rx, claim, effs = sm
        rows.append('  ⟨%s, %s, %s, [%s]⟩' % (lean_str(f.qual), 'true' if rx else 'false', lean_str(claim),
                                              ', '.join(effs)))
    out.append(',\n'.join(rows))
    out += [']', '', 'end PMV.Gen.C07S', '']
    return '\n'.join(out), len(rows), skipped


HAND_WRITTEN = {'copy', 'clone', 'wod', '__neg__', '__abs__', '__getitem__', 'reshape', 'swap_axes', 'broadcast_to',
                'inverse', 'rot90', 'mul_units', 'div_units'}


def coverage(skipped):
    """how many of the sweep's (class, member) pairs are bound by a proved summary (generated_frame / frame) and how
    many rest on the sweep alone"""
    import c07_sweep as S
    have = {f.qual for f in FUNS} - set(skipped)
    rows = S.api_table()
    gen = hand = 0
    only = set()
    for cname, name, how, owner in rows:
        q = '%s.%s' % (owner, name)
        if q in have:
            gen += 1
        elif name in HAND_WRITTEN:
            hand += 1
        else:
            only.add(q)
        if q in have and name in HAND_WRITTEN:
            pass
    return {'pairs': len(rows), 'with_generated_summary': gen, 'with_handwritten_summary_only': hand,
            'sweep_only': len(rows) - gen - hand, 'sweep_only_members': sorted(only)[:80]}


def lean_str(s):
    return '"' + s.replace('\\', '\\\\').replace('"', '\\"') + '"'


def render(sites, nfun):
    out = ['/- GENERATED by harness/c07_py2lean.py from the source of polymath — do not edit.',
           '   %d public non-mutating functions scanned, %d write sites. -/' % (nfun, len(sites)),
           'namespace PMV.Gen.C07', '',
           'inductive Root where', '  | fresh', '  | unknown', '  | param (name : String) (storage : Bool)',
           '  | may (name : String) (storage : Bool)',
           '  deriving DecidableEq, Repr', '',
           'structure WriteSite where', '  fn : String', '  line : Nat', '  kind : String', '  target : String',
           '  root : Root', '  allowed : Bool', '  deriving DecidableEq, Repr', '',
           'def writeSites : List WriteSite := [']
    rows = []
    for s in sites:
        r = s['root']
        root = '.fresh' if r[0] in ('fresh', 'shallow') else '.unknown' if r[0] in ('unknown', 'ornew') else \
            '.may %s %s' % (lean_str(r[1]), 'true' if r[2] else 'false') if r[0] == 'may' else \
            '.param %s %s' % (lean_str(r[1]), 'true' if r[2] else 'false')
        allowed = (s['fn'], s['kind'], s['target']) in ALLOW or (s['fn'], s['kind'], s['target']) in POSSIBLE_OK
        rows.append('  ⟨%s, %d, %s, %s, %s, %s⟩' % (lean_str(s['fn']), s['line'], lean_str(s['kind']),
                                                     lean_str(s['target']), root, 'true' if allowed else 'false'))
    out.append(',\n'.join(rows))
    out += [']', '', 'end PMV.Gen.C07', '']
    return '\n'.join(out)


def regen():
    sites, nfun = scan()
    here = os.path.dirname(os.path.abspath(__file__))
    path = os.path.join(os.path.dirname(here), 'lean', 'PMV', 'Gen', 'WriteSites.lean')
    body = render(sites, nfun)
    if not os.path.exists(path) or open(path).read() != body:
        with open(path, 'w') as f:
            f.write(body)
    body2, nsum, skipped = render_summaries()
    path2 = os.path.join(os.path.dirname(here), 'lean', 'PMV', 'Gen', 'Summaries.lean')
    if not os.path.exists(path2) or open(path2).read() != body2:
        with open(path2, 'w') as f:
            f.write(body2)
    cov = coverage(skipped)
    tainted = [s for s in sites if s['root'][0] == 'param' and (s['fn'], s['kind'], s['target']) not in ALLOW]
    return {'obligations': 2, 'summaries_generated': nsum, 'not_summarised_unknown_root': len(skipped),
            'not_summarised': sorted(skipped), 'coverage': cov,
            'possible_sites': ['%s:%d %s %s' % (s['fn'], s['line'], s['kind'], s['target']) for s in sites
                               if s['root'][0] == 'may'], 'functions_scanned': nfun, 'write_sites': len(sites),
            'param_rooted_not_allowed': ['%s:%d %s %s' % (s['fn'], s['line'], s['kind'], s['target']) for s in tainted],
            'table': 'lean/PMV/Gen/WriteSites.lean'}


if __name__ == '__main__':
    sys.path.insert(0, os.path.dirname(os.path.abspath(__file__)))
    if os.environ.get('PMV_REPO'):
        sys.path.insert(0, os.environ['PMV_REPO'])
    sites, nfun = scan()
    for s in sites:
        if s['root'][0] in ('param', 'may') or '-v' in sys.argv:
            print(s)
    print(nfun, 'functions', len(sites), 'sites')
    import collections
    body, n, skipped = render_summaries()
    print(n, 'summaries;', len(skipped), 'skipped:', skipped[:40])
    print(collections.Counter(f.claim().split(':')[0] for f in FUNS))
