"""C13 — reductions and ordering operations see only unmasked elements."""
import itertools
from fractions import Fraction
import numpy as np
from absn import *
import common as C

PROP = 'C13'
LEAN_MODULES = ['PMV.Props.C13', 'PMV.Lemmas.ReduceLane', 'PMV.Lemmas.ReduceLane2', 'PMV.Lemmas.ReduceSort',
                'PMV.Lemmas.ReduceArr', 'PMV.Lemmas.ReduceAxis', 'PMV.Lemmas.ReduceBcast']
PARALLEL = True
MANIFEST = {
    'text': 'Kernel-checked theorems (PMV/Props/C13.lean, helper lemmas in PMV/Lemmas/Reduce*.lean) that every '
            'code-shaped reduction of the Lean model (sum, mean, max, min, argmax, argmin, median, sort, any, all, '
            'Vector/Matrix sums, Scalar.maximum/minimum incl. Qube.broadcast, units, builtins= conversion; each with its top-level branches size 0 / shape () / no mask / '
            'all masked / mixed, written like the source) returns, for every lane length, rank, shape and legal axis '
            'argument, the same reduction over only the unmasked elements and is masked exactly when every contributing '
            'element is masked, with the result shape obtained by removing the reduced axes, acceptance exactly for the '
            'legal axis arguments (own _check_axis and NumPy\'s normalize_axis_tuple for any/all), IndexError for '
            'out-of-range or duplicated axes; tied to /repo on every run by a correspondence check that sends the same '
            'operands to the real polymath code and to the compiled model and diffs canonical outputs, with a numpy.ma '
            'oracle judging the real code directly.',
    'design': 'DESIGN.md §3 C13, DESIGN.d/C13.md',
    'technique': 'Lean 4 proof (induction over lanes, sorted-permutation uniqueness for sort/median) + model/code '
                 'correspondence + numpy.ma oracle',
    'note': 'Trusted: Lean kernel; hand-written model Model/Reduce.lean (checked against the code by the correspondence '
            'run); NumPy N-d axis semantics = lane-wise application (Arr.reduce). any()/all() over an EMPTY lane under a '
            'scalar False mask stay unmasked (known finding KF-C13-1, recorded: the repair breaks the shipped test-suite).',
}
RULE = ('all leading shapes up to rank 3 with axis lengths 0-4 x every axis argument (None, each +/- axis, every tuple '
        'of distinct axes incl. permuted/negative entries and (), plus out-of-range, duplicated and mixed illegal ones; '
        '15% as numpy.int64) x 10 reductions x int/float data with ties and extremes (ordering operations: dtype '
        'limits, +/-inf; sum/mean/median: +/-inf of one sign at 30-90% of the positions in a quarter of the float '
        'operands, so that the middle unmasked values of a lane are infinite) x mask patterns '
        'none/all/mixed/whole lanes masked x mask representations (False, True, array, broadcast view) x operand '
        'provenance (C, Fortran, read-only, strided, negative-stride, transposed, broadcast-view VALUE arrays; array masks '
        'likewise); quick samples 2 (data, mask) draws per (shape, axis, op), thorough 8 x every representation; '
        'Vector/Matrix/Pair sum/mean, Boolean.sum(value=), operands with derivatives; units and builtins=True/masked= on '
        'every reduction; sequences of 2-6 reductions on ONE object after touching its cached views (antimask, wod, '
        'corners, shrink, as_readonly); Scalar.maximum/minimum on 1-4 operands of different (also incompatible) shapes, '
        'mixed int/float, with units; non-trivial = at least one masked element or a zero-length axis; distinct = '
        'distinct request line')
ASSUMPTIONS = ['no integer overflow in sums (the model computes in unbounded integers)',
               'argmax/argmin: no unmasked element equals the fill extreme (-inf/dtype min for argmax, +inf/dtype max '
               'for argmin) in a lane that also has masked elements (DESIGN 8.7: numpy.ma has the same tie)',
               'NumPy reduces an N-d array along axes lane by lane (Arr.reduce); lanes are enumerated row-major',
               'any()/all(): empty lanes under a scalar False mask are excluded from the theorems (KF-C13-1)',
               'builtins=True: the property is silent; the oracle only demands that the conversion does not change what '
               'is observable and that the documented masked= value is returned for a single masked result (judge_builtin); '
               'the exact rule is in the model (asBuiltin, builtinsApplies) and compared']
TRUSTED_EXTRA = ['numpy.ma as the reference for reductions over the unmasked elements (oracle only); sort and median are '
                 'judged lane by lane with plain NumPy on the unmasked elements (numpy.ma misplaces an unmasked +inf / '
                 'dtype maximum next to masked entries)',
                 'wire rule for float infinities: exact model results at or beyond inf/2^20 denote +/-inf (ieeeSat)']

INF = 8 * 2 ** 1030            # wire code of +inf for float data (larger than 8 * any finite float64)
I64MIN, I64MAX = -2 ** 63, 2 ** 63 - 1
REDS = ['sum', 'mean', 'max', 'min', 'argmax', 'argmin', 'median', 'sort']
BREDS = ['any', 'all']
ORDER_OPS = ('max', 'min', 'argmax', 'argmin', 'sort')


# ------------------------------------------------------------------ wire <-> numpy
def scale_of(dtype):
    return 8 if dtype == 'float' else 1

def limits(dtype):
    return (-INF, INF) if dtype == 'float' else (I64MIN, I64MAX)

def dec_vals(vals, dtype, shape):
    if dtype == 'float':
        a = np.array([np.inf if v == INF else -np.inf if v == -INF else v / 8.0 for v in vals], dtype='float64')
    else:
        a = np.array([int(v) for v in vals], dtype='int64')
    return a.reshape(shape)

def enc(v, k):
    """encode a result value as a wire integer at scale k"""
    v = float(v) if isinstance(v, (float, np.floating)) else v
    if isinstance(v, float):
        if v == np.inf: return INF
        if v == -np.inf: return -INF
        if v != v: return 'NaN'
        x = Fraction(v) * k
        return int(x) if x.denominator == 1 else 'NONINT:%r' % v
    return int(v) * k

def enc_frac(v, k):
    if isinstance(v, (float, np.floating)) and not np.isfinite(v):
        return 'NaN' if v != v else [INF if v > 0 else -INF, 1]
    # the exact mean is (integer sum)/(count <= 64); two such fractions differ by >= 1/4096, the float is much closer
    f = Fraction(float(v) * k).limit_denominator(64)
    return [f.numerator, f.denominator]

def exc(e):
    if isinstance(e, IndexError): return 'IndexError'       # includes numpy AxisError
    if isinstance(e, TypeError): return 'TypeError'
    if isinstance(e, ValueError): return 'ValueError'
    return 'Other:' + type(e).__name__

def pyaxis(ax, npint=False):
    """the Python axis argument; `npint`: integers as numpy.int64 instead of int"""
    if isinstance(ax, list):
        return tuple(np.int64(a) for a in ax) if npint else tuple(ax)
    if npint and ax is not None:
        return np.int64(ax)
    return ax

def axis_sx(ax):
    if ax is None: return 'N'
    if isinstance(ax, list): return ['t'] + [int(a) for a in ax]
    return int(ax)

def legal_axis(ax, rank):
    if ax is None: return True
    l = ax if isinstance(ax, list) else [ax]
    if any(not (-rank <= a < rank) for a in l): return False
    return len({a % rank for a in l}) == len(l)

def axes_of(ax, rank):
    if ax is None: return list(range(rank))
    l = ax if isinstance(ax, list) else [ax]
    return [a % rank for a in l]


# ------------------------------------------------------------------ observing results
def obs_q(r, k, frac=False, item=False):
    """[shape, [M | value ...]] of a polymath result"""
    assert isinstance(r, Qube), type(r)
    shape = list(r._shape_)
    m = expanded_mask(r).ravel()
    v = np.broadcast_to(np.asarray(r._values_), r._shape_ + r._item_)
    n = int(np.prod(shape, dtype=int))
    v = v.reshape((n,) + tuple(r._item_))
    out = []
    for i in range(n):
        if m[i]:
            out.append('M')
        elif item:
            out.append([enc_frac(x, k) if frac else enc(x, k) for x in v[i].ravel()])
        else:
            out.append(enc_frac(v[i], k) if frac else enc(v[i], k))
    return [shape, out]

def obs_b(r):
    assert isinstance(r, Boolean), type(r)
    m = expanded_mask(r).ravel()
    v = np.broadcast_to(np.asarray(r._values_), r._shape_).ravel()
    return [list(r._shape_), ['M' if mm else bool(vv) for vv, mm in zip(v, m)]]

def out_scale(name, dtype):
    k = scale_of(dtype)
    if name == 'median': return 2 * k
    if name in ('argmax', 'argmin'): return 1
    return k


# ------------------------------------------------------------------ running the real code
def with_prov(a, prov, nlead):
    """the same array contents held differently in memory (`nlead` leading axes; trailing ones are item axes)"""
    if prov in (None, 'c') or a.ndim == 0:
        return a
    if prov == 'f':
        return np.asfortranarray(a)
    if prov == 'ro':
        b = a.copy(); b.setflags(write=False); return b
    if prov == 'strided' and nlead >= 1:
        big = np.zeros(tuple(2 * n for n in a.shape[:nlead]) + a.shape[nlead:], dtype=a.dtype)
        v = big[tuple(slice(None, None, 2) for _ in range(nlead))]
        v[...] = a
        return v
    if prov == 'rev' and nlead >= 1:
        b = a[::-1].copy()
        return b[::-1]
    if prov == 'T' and nlead == a.ndim and a.ndim >= 2:
        return np.ascontiguousarray(a.T).T
    if prov == 'bview' and nlead >= 1 and a.shape[0] > 1 and a.size and (a == a[:1]).all():
        return np.broadcast_to(a[:1].copy(), a.shape)
    return a

PROVS = ['c', 'f', 'ro', 'strided', 'rev', 'T', 'bview']

def build_mask(case):
    m = mk_mask(case['mask'], case['shape'])
    if isinstance(m, np.ndarray) and not isinstance(case['mask'], dict):
        m = with_prov(m, case.get('mprov'), len(case['shape']))
    return m

def units_of(case):
    return Units.KM if case.get('units') == 'km' else None

def build(case):
    shape = case['shape']
    nl = len(shape)
    prov = case.get('prov')
    if case['op'] in ('bred', 'ubred'):
        if case.get('cls') == 'Scalar':
            return Scalar(with_prov(np.array(case['ivals'], dtype='int64').reshape(shape), prov, nl), build_mask(case))
        return Boolean(with_prov(np.array(case['vals'], dtype=bool).reshape(shape), prov, nl), build_mask(case))
    if case['op'] == 'vred':
        cls = CLASSES[case['cls']]
        vals = dec_vals(case['vals'], case['dtype'], list(shape) + list(case['item']))
        return cls(with_prov(vals, prov, nl), build_mask(case))
    q = Scalar(with_prov(dec_vals(case['vals'], case['dtype'], shape), prov, nl), build_mask(case), units=units_of(case))
    if case['op'] == 'dred':
        for key, d in zip('tuv', case['derivs']):
            q.insert_deriv(key, Scalar(dec_vals(d['vals'], 'float', shape), mk_mask(d['mask'], shape)))
    return q

SENT = 'SENTINEL'

def obs_any(r, name, dtype, units_expected=False):
    """observation of a result that may have gone through builtins= conversion"""
    if r is None:
        return 'None'
    if isinstance(r, str) and r == SENT:
        return 'sentinel'
    k = out_scale(name, dtype)
    frac = name == 'mean'
    if isinstance(r, (bool, np.bool_)):
        return ['py', bool(r)]
    if isinstance(r, (int, float, np.integer, np.floating)):
        return ['py', enc_frac(r, k) if frac else enc(r, k)]
    if isinstance(r, Boolean):
        o = obs_b(r)
    else:
        o = obs_q(r, k, frac=frac)
    u = r._units_
    return ['obj', o[0], o[1], '-' if u is None else str(u.name or u)]

def call_red(q, name, axis, bi):
    kw = {}
    if bi in ('B', 'S'):
        kw['builtins'] = True
    if bi == 'S':
        kw['masked'] = SENT
    return getattr(q, name)(axis=pyaxis(axis), **kw)

def warm_up(q, warm):
    """touch cached views before the measured calls"""
    for w in warm or []:
        if w == 'antimask': q.antimask
        elif w == 'wod': q.wod
        elif w == 'mask': np.asarray(q.mask)
        elif w == 'readonly': q.as_readonly()
        elif w == 'corners':
            try: q.corners
            except Exception: pass
        elif w == 'shrink':
            try: q.shrink(q.antimask)
            except Exception: pass

def bools_of(case):
    """truth values of a Scalar operand (as_boolean)"""
    return [v != 0 for v in case['vals']]

def impl(case):
    op = case['op']
    try:
        if op in ('maxmin', 'maxmin2'):
            args = [Scalar(with_prov(dec_vals(o['vals'], o['dtype'], o['shape']), o.get('prov'), len(o['shape'])),
                           mk_mask(o['mask'], o['shape']), units=Units.KM if case.get('units') == 'km' else None)
                    for o in case['args']]
            r = getattr(Scalar, case['name'])(*args)
            k = 8 if any(o['dtype'] == 'float' for o in case['args']) else 1
            if op == 'maxmin2':
                o = obs_q(r, k)
                return ['obj', o[0], o[1], '-' if r._units_ is None else str(r._units_.name)]
            return obs_q(r, k)
        if op == 'seq':
            q = build(case)
            warm_up(q, case.get('warm'))
            outs = []
            for st in case['steps']:
                try:
                    r = getattr(q, st['name'])(axis=pyaxis(st['axis']))
                    outs.append(obs_b(r) if st['name'] in BREDS else
                                obs_q(r, out_scale(st['name'], case['dtype']), frac=st['name'] == 'mean'))
                except Exception as e:
                    outs.append(exc(e))
            return outs
        if op == 'bsum':
            q = Boolean(np.array(case['vals'], dtype=bool).reshape(case['shape']), mk_mask(case['mask'], case['shape']))
            return obs_q(q.sum(axis=pyaxis(case['axis']), value=case['value']), 1)
        q = build(case)
        if op in ('ured', 'ubred'):
            warm_up(q, case.get('warm'))
            r = call_red(q, case['name'], case['axis'], case['bi'])
            return obs_any(r, case['name'], case.get('dtype', 'int'))
        r = getattr(q, case['name'])(axis=pyaxis(case['axis'], case.get('npint', False)))
    except Exception as e:
        return exc(e)
    if op == 'bred':
        return obs_b(r)
    if op == 'vred':
        return obs_q(r, scale_of(case['dtype']), frac=case['name'] == 'mean', item=True)
    if op == 'dred':
        main = obs_q(r, scale_of(case['dtype']), frac=case['name'] == 'mean')
        ds = [obs_q(r._derivs_[key], 8, frac=case['name'] == 'mean') for key, _ in zip('tuv', case['derivs'])]
        return [main, ds]
    return obs_q(r, out_scale(case['name'], case['dtype']), frac=case['name'] == 'mean')


# ------------------------------------------------------------------ direct oracle: numpy.ma on the expanded operand
def ma_obs(res, mask, shape, k, frac=False):
    """canonical observation of a numpy.ma / numpy result of the given result shape"""
    data = np.broadcast_to(np.ma.getdata(res), shape).ravel()
    out = []
    for v, m in zip(data, np.broadcast_to(mask, shape).ravel()):
        out.append('M' if m else (enc_frac(v, k) if frac else enc(v, k)))
    return [list(shape), out]

def reduced_shape(shape, ax):
    axes = axes_of(ax, len(shape))
    return [n for i, n in enumerate(shape) if i not in axes]

def expect_red(name, vals, mbits, shape, ax, k, limits_):
    """expected observation of a Scalar reduction; None where the property says nothing"""
    rank = len(shape)
    if not legal_axis(ax, rank):
        return None
    if name in ('argmax', 'argmin', 'sort') and isinstance(ax, list):
        return None                                  # NumPy itself takes no tuple here
    if name in ('argmax', 'argmin') and rank == 0:
        return None                                  # ValueError by design (scalar.py:929-930)
    if name == 'sort' and rank == 0 and ax is not None:
        return None
    n = int(np.prod(shape, dtype=int))
    mask = np.array(mbits, dtype=bool).reshape(shape)
    if name == 'sort':
        if n == 0:
            return [[0] if ax is None else list(shape), []]
        # lane by lane: the unmasked values in ascending order, masked entries at the end (numpy.ma.sort(endwith=
        # True) gives the same except that it misplaces an unmasked value equal to the dtype maximum / +inf)
        if ax is None:
            v2, m2, rs = vals.reshape((1, n)), mask.reshape((1, n)), [n]
        else:
            v2 = np.moveaxis(vals, ax, -1)
            m2 = np.moveaxis(mask, ax, -1)
            rs = list(shape)
        outv = np.empty(v2.shape, dtype=object)
        for idx in np.ndindex(*v2.shape[:-1]):
            u = sorted(v2[idx][~m2[idx]].tolist())
            outv[idx] = np.array([enc(x, k) for x in u] + ['M'] * (v2.shape[-1] - len(u)), dtype=object)
        if ax is not None:
            outv = np.moveaxis(outv, -1, ax)
        return [rs, list(outv.ravel())]
    rs = reduced_shape(shape, ax)
    if n == 0:
        return [rs, ['M'] * int(np.prod(rs, dtype=int))]
    axes = tuple(axes_of(ax, rank))
    allm = np.all(mask, axis=axes) if rank else mask
    ma = np.ma.array(vals, mask=mask)
    if name in ('argmax', 'argmin'):
        ext = limits_[0] if name == 'argmax' else limits_[1]
        unm = vals[~mask]
        extv = -np.inf if ext == -INF else np.inf if ext == INF else ext
        if mask.any() and (unm == extv).any():
            return None                              # DESIGN 8.7: tie with the fill value
        res = getattr(ma, name)(axis=ax)
        return ma_obs(res, allm, rs, 1)
    if name == 'median':
        # lane by lane: np.median of the unmasked elements.  (numpy.ma.median agrees except that it inherits
        # numpy.ma.sort's misplacement of an unmasked +inf next to masked entries and then drops it.)
        keep = [i for i in range(rank) if i not in axes]
        v2 = np.transpose(vals, keep + list(axes)).reshape([shape[i] for i in keep] + [-1])
        m2 = np.transpose(mask, keep + list(axes)).reshape([shape[i] for i in keep] + [-1])
        out = []
        with np.errstate(all='ignore'):
            for idx in np.ndindex(*v2.shape[:-1]):
                u = v2[idx][~m2[idx]]
                out.append('M' if u.size == 0 else enc(np.median(u), 2 * k))
        return [rs, out]
    res = getattr(ma, name)(axis=pyaxis(ax) if rank else None)
    return ma_obs(res, allm, rs, k, frac=(name == 'mean'))

def expect_bred(name, bvals, mbits, shape, ax):
    rank = len(shape)
    vals = np.array(bvals, dtype=bool).reshape(shape)
    mask = np.array(mbits, dtype=bool).reshape(shape)
    if rank == 0:
        return [[], ['M' if mask else bool(vals)]]
    if not legal_axis(ax, rank):
        return None
    rs = reduced_shape(shape, ax)
    axes = tuple(axes_of(ax, rank))
    allm = np.all(mask, axis=axes)
    ma = np.ma.array(vals, mask=mask)
    res = getattr(ma, name)(axis=axes)
    data = np.broadcast_to(np.ma.getdata(res), rs).ravel()
    return [rs, ['M' if m else bool(v) for v, m in zip(data, np.broadcast_to(allm, rs).ravel())]]

def expect(case):
    op = case['op']
    shape = case.get('shape')
    if op == 'red':
        vals = dec_vals(case['vals'], case['dtype'], shape)
        return expect_red(case['name'], vals, mask_bits(case['mask'], shape), shape, case['axis'],
                          scale_of(case['dtype']), limits(case['dtype']))
    if op == 'dred':
        vals = dec_vals(case['vals'], case['dtype'], shape)
        main = expect_red(case['name'], vals, mask_bits(case['mask'], shape), shape, case['axis'],
                          scale_of(case['dtype']), None)
        if main is None:
            return None
        ds = [expect_red(case['name'], dec_vals(d['vals'], 'float', shape), mask_bits(d['mask'], shape), shape,
                         case['axis'], 8, None) for d in case['derivs']]
        return [main, ds]
    if op == 'vred':
        rank = len(shape)
        if not legal_axis(case['axis'], rank):
            return None
        item = list(case['item'])
        vals = dec_vals(case['vals'], case['dtype'], list(shape) + item)
        mask = np.array(mask_bits(case['mask'], shape), dtype=bool).reshape(shape)
        rs = reduced_shape(shape, case['axis'])
        nout = int(np.prod(rs, dtype=int))
        k = scale_of(case['dtype'])
        if vals.size == 0:
            return [rs, ['M'] * nout]
        axes = tuple(axes_of(case['axis'], rank))
        full = np.broadcast_to(mask.reshape(list(shape) + [1] * len(item)), vals.shape)
        ma = np.ma.array(vals, mask=full)
        res = getattr(ma, case['name'])(axis=axes) if rank else ma
        data = np.broadcast_to(np.ma.getdata(res), tuple(rs) + tuple(item)).reshape((nout, -1))
        allm = np.broadcast_to(np.all(mask, axis=axes) if rank else mask, rs).ravel()
        frac = case['name'] == 'mean'
        return [rs, ['M' if m else [enc_frac(x, k) if frac else enc(x, k) for x in row] for row, m in zip(data, allm)]]
    if op == 'bred':
        return expect_bred(case['name'], case['vals'], mask_bits(case['mask'], shape), shape, case['axis'])
    if op == 'bsum':
        v01 = [int(bool(v) == bool(case['value'])) for v in case['vals']]
        return expect_red('sum', np.array(v01, dtype='int64').reshape(shape), mask_bits(case['mask'], shape), shape,
                          case['axis'], 1, None)
    if op == 'seq':
        res = []
        for st in case['steps']:
            if st['name'] in BREDS:
                res.append(expect_bred(st['name'], bools_of(case), mask_bits(case['mask'], shape), shape, st['axis']))
            else:
                res.append(expect_red(st['name'], dec_vals(case['vals'], case['dtype'], shape),
                                      mask_bits(case['mask'], shape), shape, st['axis'], scale_of(case['dtype']),
                                      limits(case['dtype'])))
        return res
    if op == 'maxmin2':
        e = expect(dict(case, op='maxmin'))
        if e is None:
            return None
        return ['obj', e[0], e[1], case.get('units') or '-']
    if op == 'maxmin':
        args = case['args']
        try:
            out = np.broadcast_shapes(*[tuple(o['shape']) for o in args])
        except ValueError:
            return None
        k = 8 if any(o['dtype'] == 'float' for o in args) else 1
        stack = np.ma.stack([np.ma.array(np.broadcast_to(dec_vals(o['vals'], o['dtype'], o['shape']).astype(
                                'float64' if k == 8 else 'int64'), out),
                             mask=np.broadcast_to(np.array(mask_bits(o['mask'], o['shape']), dtype=bool).reshape(o['shape']), out))
                             for o in args])
        res = stack.max(axis=0) if case['name'] == 'maximum' else stack.min(axis=0)
        allm = np.all(np.ma.getmaskarray(stack), axis=0)
        return ma_obs(res, allm, list(out), k)
    return None

def branch_of(case):
    shape = case.get('shape')
    if case['op'] in ('maxmin', 'maxmin2'):
        return 'n%d' % len(case['args'])
    n = int(np.prod(shape, dtype=int))
    bits = mask_bits(case['mask'], shape)
    if n == 0: return 'size0'
    if not shape: return 'shape()'
    if not any(bits): return 'nomask'
    if all(bits): return 'allmasked'
    return 'mixed'

def axis_kind(ax, rank):
    if ax is None: return 'None'
    if not legal_axis(ax, rank): return 'illegal'
    if isinstance(ax, list): return 'tuple%d' % len(ax)
    return 'neg' if ax < 0 else 'pos'

def empty_lane_corner(name, mask, shape, axis):
    return (name in BREDS and mask == 'F' and bool(shape) and legal_axis(axis, len(shape))
            and 0 in [shape[a] for a in axes_of(axis, len(shape))])

def signature(case):
    if case['op'] in ('bred', 'ubred') and empty_lane_corner(case['name'], case['mask'], case['shape'], case['axis']):
        return '%s:empty-lane:scalar-false-mask' % case['name']
    return '%s:%s:%s:%s' % (case['op'], case['name'], branch_of(case),
                            axis_kind(case.get('axis'), len(case.get('shape') or [])))

def close(a, b):
    """equal observations; mean fractions within 1e-9 relative"""
    if isinstance(a, list) and isinstance(b, list):
        if len(a) == 2 and len(b) == 2 and all(isinstance(x, int) and not isinstance(x, bool) for x in a + b) \
                and a[1] > 0 and b[1] > 0 and (a[1] != 1 or b[1] != 1):
            return abs(Fraction(a[0], a[1]) - Fraction(b[0], b[1])) <= Fraction(1, 10 ** 9) * max(1, abs(Fraction(a[0], a[1])))
        return len(a) == len(b) and all(close(x, y) for x, y in zip(a, b))
    return type(a) == type(b) and a == b

VALUE_OPS = ('sum', 'mean', 'max', 'min', 'median', 'sort')

def judge_builtin(case, got, base):
    """`base` = [shape, elems] demanded by the property for the plain call; `got` = observation of the call with
    units and/or builtins=True.  The conversion must not change what is observable: a Python value only for a
    single unmasked element, equal to it; an object with the same elements; the masked= value / None only when
    nothing unmasked is there to report.  Units: kept by the value reductions, none for indices and Booleans."""
    if isinstance(got, str) and got in ('None', 'sentinel'):
        if any(e != 'M' for e in base[1]):
            return 'returned %s although an unmasked result exists' % got
        return None
    if isinstance(got, list) and got and got[0] == 'py':
        if case['bi'] == '-':
            return 'Python value without builtins=True'
        if base[0] != [] or base[1] == ['M']:
            return 'Python value for a result that is not a single unmasked element'
        return None if close(got[1], base[1][0]) else 'Python value differs'
    if isinstance(got, list) and got and got[0] == 'obj':
        if not close([got[1], got[2]], base):
            return 'elements differ'
        early = case['name'] in ('max', 'min', 'argmax', 'argmin', 'median') and 0 in case['shape']
        if case['bi'] == 'S' and base == [[], ['M']] and not early:
            # documented API ("masked: value to return if builtins is True but the returned value is masked");
            # the zero-sized early return of max/min/argmax/argmin/median is the noted exception (DESIGN.d/C13.md)
            return 'masked= value not returned for a single masked result'
        want = (case.get('units') or '-') if case['name'] in VALUE_OPS else '-'
        if got[3] != want:
            return 'units %s, expected %s' % (got[3], want)
        if case['bi'] != '-' and base[0] == [] and base[1] != ['M'] and want == '-':
            return 'object returned where builtins=True promises a Python value'
        return None
    return 'unexpected result %r' % (got,)

def oracle(case):
    op = case['op']
    if op in ('ured', 'ubred'):
        base = expect(dict(case, op='red' if op == 'ured' else 'bred'))
        if base is None:
            return None
        got = impl(case)
        why = judge_builtin(case, got, base)
        if why:
            return (signature(case), '%s %s axis=%r shape=%r units=%r builtins=%r: %s; got %s, plain reference %s'
                    % (op, case['name'], case.get('axis'), case.get('shape'), case.get('units'), case['bi'], why,
                       C.sx(got)[:300], C.sx(base)[:300]))
        return None
    exp = expect(case)
    if exp is None:
        return None
    got = impl(case)
    if op == 'seq':
        for k, (g, e) in enumerate(zip(got, exp)):
            if e is not None and not close(g, e):
                st = case['steps'][k]
                sig = ('%s:empty-lane:scalar-false-mask' % st['name']
                       if empty_lane_corner(st['name'], case['mask'], case['shape'], st['axis'])
                       else 'seq:%s:step%d:%s' % (st['name'], k, case.get('prov')))
                return (sig,
                        'step %d (%s axis=%r) of %d on one object (prov=%s, mask prov=%s, warm=%s) shape=%r: implementation '
                        'returned %s, numpy.ma on the expanded operand gives %s'
                        % (k, st['name'], st['axis'], len(exp), case.get('prov'), case.get('mprov'), case.get('warm'),
                           case['shape'], C.sx(g)[:300], C.sx(e)[:300]))
        return None
    if not close(got, exp):
        return (signature(case), '%s %s axis=%r shape=%r: implementation returned %s, numpy.ma on the expanded operand gives %s'
                % (case['op'], case['name'], case.get('axis'), case.get('shape'), C.sx(got)[:300], C.sx(exp)[:300]))
    return None


# ------------------------------------------------------------------ requests for the model
def request(case):
    op = case['op']
    if op == 'red':
        if case['name'] in ('argmax', 'argmin', 'sort') and isinstance(case['axis'], list) \
                and int(np.prod(case['shape'], dtype=int)) == 0:
            return None                              # tuple axis never reaches NumPy on a zero-sized object: unspecified
        if case['name'] == 'sort' and not case['shape'] and case['axis'] is not None:
            return None                              # sort of a shape-() object along an axis it does not have: unspecified
        lo, hi = limits(case['dtype'])
        return ['c13', 'red', case['name'], case['shape'], case['vals'], mask_sx(case['mask'], case['shape']),
                axis_sx(case['axis']), lo, hi]
    if op == 'vred':
        return ['c13', 'vred', case['name'], case['shape'], int(np.prod(case['item'], dtype=int)), case['vals'],
                mask_sx(case['mask'], case['shape']), axis_sx(case['axis'])]
    if op == 'dred':
        return ['c13', 'dred', case['name'], case['shape'], case['vals'], mask_sx(case['mask'], case['shape']),
                axis_sx(case['axis']), [[d['vals'], mask_sx(d['mask'], case['shape'])] for d in case['derivs']]]
    if op == 'bred':
        return ['c13', 'bred', case['name'], case['shape'], [bool(v) for v in case['vals']],
                mask_sx(case['mask'], case['shape']), axis_sx(case['axis'])]
    if op == 'ured':
        base = request(dict(case, op='red'))
        if base is None:
            return None
        return ['c13', 'ured'] + base[2:] + [case.get('units') or '-', case['bi']]
    if op == 'ubred':
        return ['c13', 'ubred', case['name'], case['shape'], [bool(v) for v in case['vals']],
                mask_sx(case['mask'], case['shape']), axis_sx(case['axis']), case['bi']]
    if op == 'bsum':
        return ['c13', 'red', 'sum', case['shape'], [int(bool(v) == bool(case['value'])) for v in case['vals']],
                mask_sx(case['mask'], case['shape']), axis_sx(case['axis']), I64MIN, I64MAX]
    if op == 'seq':
        reqs = []
        for st in case['steps']:
            if st['name'] in BREDS:
                r = request({'op': 'bred', 'name': st['name'], 'shape': case['shape'], 'vals': bools_of(case),
                             'mask': case['mask'], 'axis': st['axis']})
            else:
                r = request(dict(case, op='red', name=st['name'], axis=st['axis']))
            if r is None:
                return None
            reqs.append(r[1:])
        return ['c13', 'multi'] + reqs
    if op == 'maxmin2':
        args = case['args']
        k = 8 if any(o['dtype'] == 'float' for o in args) else 1
        return ['c13', 'maxmin2', case['name'],
                [[o['shape'], [x * (k // scale_of(o['dtype'])) for x in o['vals']], mask_sx(o['mask'], o['shape'])]
                 for o in args], case.get('units') or '-']
    if op == 'maxmin':
        args = case['args']
        try:
            out = list(np.broadcast_shapes(*[tuple(o['shape']) for o in args]))
        except ValueError:
            return None
        k = 8 if any(o['dtype'] == 'float' for o in args) else 1
        ops = []
        for o in args:
            s = k // scale_of(o['dtype'])
            v = np.array([x * s for x in o['vals']], dtype=object).reshape(o['shape'])
            m = np.array(mask_bits(o['mask'], o['shape']), dtype=bool).reshape(o['shape'])
            ops.append([[int(x) for x in np.broadcast_to(v, out).ravel()], [bool(x) for x in np.broadcast_to(m, out).ravel()]])
        return ['c13', 'maxmin', case['name'], out, ops]
    return None


# ------------------------------------------------------------------ generation
def axis_args(rank, rng):
    """(axis argument, legal?) for every form the property quantifies over, plus illegal ones"""
    res = [None]
    res += list(range(-rank, rank))
    for r in range(1, rank + 1):
        for t in itertools.combinations(range(rank), r):
            res.append(list(t))
    if rank >= 2:
        res.append([rank - 1, 0])                    # permuted
        res.append([-1, 0])                          # mixed signs
        res.append([-rank, -1])
    if rank == 3:
        res.append([2, 0, 1])
        res.append([-2, 2])
    res.append([])                                   # the empty tuple
    # illegal
    res.append(rank)
    res.append(-rank - 1)
    if rank >= 1:
        res.append([0, 0])
        res.append([0, -rank])                       # the same axis twice under two names
        res.append([0, rank])
        res.append([0, 0, rank])                     # repeated AND out of range: NumPy reports the range error
    return res

def mask_patterns(shape, rng, n_random=1):
    """expanded bit lists: none, all, mixed random, whole lanes masked along some axis"""
    n = int(np.prod(shape, dtype=int))
    pats = [('none', [False] * n), ('all', [True] * n)]
    for _ in range(n_random):
        p = rng.choice([0.2, 0.5, 0.8])
        pats.append(('mixed', [rng.random() < p for _ in range(n)]))
    if len(shape) >= 1 and n > 0:
        # whole slices masked along a random axis, the rest random
        ax = rng.randrange(len(shape))
        a = np.array([rng.random() < 0.3 for _ in range(n)], dtype=bool).reshape(shape)
        idx = [slice(None)] * len(shape)
        other = [k for k in range(len(shape)) if k != ax]
        if other:
            o = rng.choice(other)
            idx[o] = rng.randrange(shape[o])
        else:
            idx[ax] = slice(0, max(1, shape[ax] // 2))
        a[tuple(idx)] = True
        pats.append(('lanes', [bool(x) for x in a.ravel()]))
        if shape[0] > 1:
            row = np.array([rng.random() < 0.5 for _ in range(n // shape[0])], dtype=bool)
            pats.append(('rows', [bool(x) for x in np.broadcast_to(row.reshape([1] + list(shape[1:])), shape).ravel()]))
    return pats

def rand_vals(rng, n, dtype, name):
    """wire integers: small values with ties, plus extremes where the operation only orders"""
    mode = rng.random()
    lo, hi = limits(dtype)
    if dtype == 'float':
        small = lambda: rng.choice([-12, -8, -3, 0, 0, 1, 4, 8, 8, 20])          # k/8
        big = [2 ** 23, -2 ** 23, 2 ** 40, -2 ** 40]
    else:
        small = lambda: rng.randint(-3, 3)
        big = [2 ** 40, -2 ** 40, 2 ** 31, -2 ** 31 - 1]
    vals = [small() for _ in range(n)]
    if mode < 0.35 and n:
        pool = big + ([lo, hi, lo + 1 if dtype == 'int' else -8 * 2 ** 1000, hi - 1 if dtype == 'int' else 8 * 2 ** 1000]
                      if name in ORDER_OPS else [])
        for _ in range(rng.randint(1, max(1, n // 2))):
            vals[rng.randrange(n)] = rng.choice(pool)
    return vals

def inf_mode(rng, vals, p=0.6):
    """float data for the ARITHMETIC reductions with infinities of ONE sign (both signs give NaN everywhere:
    nothing to learn), dense enough that the middle unmasked value(s) of most lanes are infinite"""
    s = rng.choice([INF, -INF])
    return [s if rng.random() < p else v for v in vals]

def clamp_arith(rng, vals, dtype, infp=0.25):
    """keep sums/means/medians exact in float64: huge finite values are cut to 2^20 (wire 2^23); with probability
    `infp` float data get infinities of one sign"""
    vals = [v if abs(v) == INF else max(min(v, 2 ** 23), -2 ** 23) for v in vals]
    vals = [v if abs(v) != INF else (2 ** 23 if v > 0 else -2 ** 23) for v in vals]
    if dtype == 'float' and vals and rng.random() < infp:
        vals = inf_mode(rng, vals, rng.choice([0.3, 0.6, 0.9]))
    return vals

def mk(case):
    case['req'] = request(case)
    op = case['op']
    if op in ('maxmin', 'maxmin2'):
        nt = any(any(mask_bits(o['mask'], o['shape'])) for o in case['args'])
        case['kind'] = '%s:%s:n%d' % (op, case['name'], len(case['args']))
    elif op == 'seq':
        shape = case['shape']
        nt = True
        case['kind'] = 'seq:%s:%s:%s:%d' % (case.get('prov'), case.get('mprov'), '+'.join(case.get('warm') or []) or '-',
                                            len(case['steps']))
    else:
        shape = case['shape']
        nt = any(mask_bits(case['mask'], shape)) or 0 in shape
        rep = case['mask'] if isinstance(case['mask'], str) else ('view' if isinstance(case['mask'], dict) else 'arr')
        extra = ''
        if op in ('ured', 'ubred'):
            extra = ':%s:%s' % (case.get('units') or '-', case['bi'])
        if op == 'bsum':
            case.setdefault('name', 'sum')
        case['kind'] = '%s:%s:%s:%s:%s%s' % (op, case['name'], branch_of(case), axis_kind(case['axis'], len(shape)), rep, extra)
    case['nontrivial'] = bool(nt)
    return case

def pick_prov(rng, shape, p=0.4):
    if not shape or rng.random() > p:
        return 'c'
    return rng.choice(PROVS[1:])

def tile_rows(vals, shape):
    """make every row along axis 0 equal to the first (so that a broadcast view can hold the values)"""
    if not shape or shape[0] <= 1 or not vals:
        return vals
    row = len(vals) // shape[0]
    return list(vals[:row]) * shape[0]

def pick_rep(bits, shape, rng):
    return rng.choice(mask_reps(bits, shape))

def gen_cases(rng, tier):
    thorough = tier == 'thorough'
    draws = 8 if thorough else 2
    cases = []
    shapes = list(all_shapes(3, range(5)))
    for shape in shapes:
        n = int(np.prod(shape, dtype=int))
        rank = len(shape)
        for ax in axis_args(rank, rng):
            for name in REDS + BREDS:
                if name in ('argmax', 'argmin', 'sort') and isinstance(ax, list) and rng.random() < 0.8:
                    continue                          # NumPy takes no tuple here: only a thin stream
                pats = mask_patterns(shape, rng, n_random=2 if thorough else 1)
                if thorough:
                    chosen = [(p, dt) for p in pats for dt in ('int', 'float')]
                    chosen = chosen if len(chosen) <= draws else rng.sample(chosen, draws)
                else:
                    chosen = [(rng.choice(pats), rng.choice(['int', 'float'])) for _ in range(draws)]
                for (pname, bits), dtype in chosen:
                    for rep in ([pick_rep(bits, shape, rng)] if not thorough else mask_reps(bits, shape)):
                        if name in BREDS:
                            prov, mprov = pick_prov(rng, shape), pick_prov(rng, shape, 0.25)
                            if rng.random() < 0.25:
                                iv = [rng.choice([0, 0, 1, -2, 5]) for _ in range(n)]
                                if prov == 'bview': iv = tile_rows(iv, shape)
                                cases.append(mk({'op': 'bred', 'name': name, 'cls': 'Scalar', 'shape': shape, 'ivals': iv,
                                                 'vals': [v != 0 for v in iv], 'mask': rep, 'axis': ax,
                                                 'prov': prov, 'mprov': mprov}))
                            else:
                                bv = [rng.random() < 0.5 for _ in range(n)]
                                if prov == 'bview': bv = tile_rows(bv, shape)
                                cases.append(mk({'op': 'bred', 'name': name, 'shape': shape, 'vals': bv, 'mask': rep,
                                                 'axis': ax, 'prov': prov, 'mprov': mprov}))
                        else:
                            vals = rand_vals(rng, n, dtype, name)
                            if name in ('sum', 'mean', 'median') and dtype == 'float':
                                vals = clamp_arith(rng, vals, dtype)
                            if name == 'mean' and dtype == 'int':
                                # keep the float quotient within 1e-6 of the exact mean (see enc_frac)
                                vals = [max(min(v, 2 ** 31), -2 ** 31 - 1) for v in vals]
                            prov, mprov = pick_prov(rng, shape), pick_prov(rng, shape, 0.25)
                            if prov == 'bview': vals = tile_rows(vals, shape)
                            cases.append(mk({'op': 'red', 'name': name, 'shape': shape, 'dtype': dtype, 'vals': vals,
                                             'mask': rep, 'axis': ax, 'prov': prov, 'mprov': mprov,
                                             'npint': rng.random() < 0.15}))
    # Vector / Matrix sums and means; operands with derivatives
    vshapes = [s for s in shapes if len(s) <= 2] + [[2, 1, 3], [0, 2, 2], [2, 3, 0]]
    for shape in vshapes:
        n = int(np.prod(shape, dtype=int))
        rank = len(shape)
        for ax in axis_args(rank, rng):
            for name in ('sum', 'mean'):
                for cls, item in (('Vector', [3]), ('Matrix', [2, 2]), ('Pair', [2]), ('Vector', [1])):
                    if not thorough and rng.random() < 0.5:
                        continue
                    pname, bits = rng.choice(mask_patterns(shape, rng))
                    dtype = rng.choice(['int', 'float'])
                    isz = int(np.prod(item))
                    vals = [rng.choice([-8, -3, 0, 1, 4, 8, 16]) if dtype == 'float' else rng.randint(-3, 3) for _ in range(n * isz)]
                    cases.append(mk({'op': 'vred', 'name': name, 'cls': cls, 'item': item, 'shape': shape, 'dtype': dtype,
                                     'vals': vals, 'mask': pick_rep(bits, shape, rng), 'axis': ax}))
                # derivatives
                pname, bits = rng.choice(mask_patterns(shape, rng))
                dtype = rng.choice(['int', 'float'])
                nd = rng.choice([1, 1, 2])
                derivs = [{'vals': [rng.choice([-8, -3, 0, 1, 4, 8, 16]) for _ in range(n)], 'mask': pick_rep(bits, shape, rng)}
                          for _ in range(nd)]
                vals = [rng.choice([-8, -3, 0, 1, 4, 8]) if dtype == 'float' else rng.randint(-3, 3) for _ in range(n)]
                cases.append(mk({'op': 'dred', 'name': name, 'shape': shape, 'dtype': dtype, 'vals': vals,
                                 'mask': pick_rep(bits, shape, rng), 'axis': ax, 'derivs': derivs}))
    # units and builtins=True; Boolean.sum
    ushapes = [[], [1], [3], [0], [2, 2], [1, 1], [2, 0], [0, 3], [1, 3], [2, 1, 2]]
    for shape in ushapes:
        n = int(np.prod(shape, dtype=int))
        rank = len(shape)
        for ax in axis_args(rank, rng):
            if not legal_axis(ax, rank) and rng.random() < 0.7:
                continue
            for name in REDS + BREDS:
                if name in ('argmax', 'argmin', 'sort') and isinstance(ax, list):
                    continue
                for rep_i in range(3 if thorough else 1):
                    pname, bits = rng.choice(mask_patterns(shape, rng))
                    rep = pick_rep(bits, shape, rng)
                    bi = rng.choice(['-', 'B', 'B', 'S']) if name != 'sort' else '-'
                    warm = rng.choice([None, None, ['antimask'], ['wod', 'mask'], ['readonly'], ['antimask', 'corners']])
                    if name in BREDS:
                        cases.append(mk({'op': 'ubred', 'name': name, 'shape': shape,
                                         'vals': [rng.random() < 0.5 for _ in range(n)], 'mask': rep, 'axis': ax, 'bi': bi,
                                         'warm': warm, 'prov': pick_prov(rng, shape)}))
                    else:
                        dtype = rng.choice(['int', 'float'])
                        vals = rand_vals(rng, n, dtype, name)
                        if name in ('sum', 'mean', 'median'):
                            vals = clamp_arith(rng, vals, dtype)
                        cases.append(mk({'op': 'ured', 'name': name, 'shape': shape, 'dtype': dtype, 'vals': vals,
                                         'mask': rep, 'axis': ax, 'units': rng.choice([None, 'km']), 'bi': bi,
                                         'warm': warm, 'prov': pick_prov(rng, shape)}))
            for value in (True, False):
                pname, bits = rng.choice(mask_patterns(shape, rng))
                cases.append(mk({'op': 'bsum', 'name': 'sum', 'shape': shape, 'vals': [rng.random() < 0.5 for _ in range(n)],
                                 'mask': pick_rep(bits, shape, rng), 'axis': ax, 'value': value}))
    # several reductions of ONE object (warm caches, operand provenance)
    sshapes = [[3], [4], [2, 3], [3, 2], [4, 4], [2, 1, 3], [2, 3, 4], [3, 0], [0], [1, 4], [4, 1, 2]]
    for _ in range(6000 if thorough else 900):
        shape = rng.choice(sshapes)
        n = int(np.prod(shape, dtype=int))
        rank = len(shape)
        dtype = rng.choice(['int', 'float'])
        pname, bits = rng.choice(mask_patterns(shape, rng))
        prov = rng.choice(PROVS)
        vals = rand_vals(rng, n, dtype, 'sum')
        vals = clamp_arith(rng, vals, dtype, 0.2)
        if prov == 'bview': vals = tile_rows(vals, shape)
        steps = []
        for _k in range(rng.randint(2, 5)):
            name = rng.choice(REDS + BREDS)
            legal = [a for a in axis_args(rank, rng) if legal_axis(a, rank)]
            if name in ('argmax', 'argmin', 'sort'):
                legal = [a for a in legal if not isinstance(a, list)]
            steps.append({'name': name, 'axis': rng.choice(legal)})
        if rng.random() < 0.5:
            steps.append(dict(steps[0]))              # the first reduction once more, after the others
        warm = rng.choice([None, ['antimask'], ['wod'], ['mask', 'antimask'], ['readonly'], ['corners'], ['shrink']])
        cases.append(mk({'op': 'seq', 'shape': shape, 'dtype': dtype, 'vals': vals, 'mask': pick_rep(bits, shape, rng),
                         'prov': prov, 'mprov': rng.choice(['c', 'c', 'f', 'strided', 'rev', 'ro']), 'warm': warm,
                         'steps': steps}))
    # Scalar.maximum / minimum
    mshapes = [[], [1], [3], [2, 3], [2, 1], [0], [2, 0], [1, 3], [4]]
    for _ in range(1500 if thorough else 250):
        k = rng.choice([1, 2, 2, 3, 4])
        args = []
        for _ in range(k):
            shape = rng.choice(mshapes)
            n = int(np.prod(shape, dtype=int))
            dtype = rng.choice(['int', 'float'])
            bits = rng.choice(mask_patterns(shape, rng))[1]
            vals = rand_vals(rng, n, dtype, 'max')
            if dtype == 'int':
                vals = [max(min(v, 2 ** 40), -2 ** 40) for v in vals]      # stay exact when mixed with floats
            else:
                vals = [v if abs(v) == INF or abs(v) < 2 ** 45 else (INF if v > 0 else -INF) for v in vals]
            args.append({'shape': shape, 'dtype': dtype, 'vals': vals, 'mask': pick_rep(bits, shape, rng)})
        mname = rng.choice(['maximum', 'minimum'])
        cases.append(mk({'op': 'maxmin', 'name': mname, 'args': args}))
        args2 = [dict(o, prov=pick_prov(rng, o['shape'])) for o in args]
        cases.append(mk({'op': 'maxmin2', 'name': mname, 'args': args2, 'units': rng.choice([None, 'km'])}))
    return cases


def neighbours(case):
    """simpler cases near a mismatching one: other axis arguments, mask fully expanded, values zeroed"""
    if case['op'] not in ('red', 'bred'):
        return
    shape = case['shape']
    rank = len(shape)
    import random
    rng = random.Random(0)
    for ax in axis_args(rank, rng):
        c = dict(case, axis=ax)
        yield mk(c)
    bits = mask_bits(case['mask'], shape)
    for rep in mask_reps(bits, shape):
        yield mk(dict(case, mask=rep))
