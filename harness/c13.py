"""C13 — reductions and ordering operations see only unmasked elements."""
import itertools
from fractions import Fraction
import numpy as np
from absn import *
import common as C

PROP = 'C13'
LEAN_MODULES = ['PMV.Props.C13', 'PMV.Lemmas.ReduceLane', 'PMV.Lemmas.ReduceLane2', 'PMV.Lemmas.ReduceSort',
                'PMV.Lemmas.ReduceArr', 'PMV.Lemmas.ReduceAxis']
PARALLEL = True
MANIFEST = {
    'text': 'Kernel-checked theorems (PMV/Props/C13.lean, helper lemmas in PMV/Lemmas/Reduce*.lean) that every '
            'code-shaped reduction of the Lean model (sum, mean, max, min, argmax, argmin, median, sort, any, all, '
            'Vector/Matrix sums, Scalar.maximum/minimum; each with its top-level branches size 0 / shape () / no mask / '
            'all masked / mixed, written like the source) returns, for every lane length, rank, shape and legal axis '
            'argument, the same reduction over only the unmasked elements and is masked exactly when every contributing '
            'element is masked, with the result shape obtained by removing the reduced axes and IndexError exactly for '
            'out-of-range or duplicated axes; tied to /repo on every run by a correspondence check that sends the same '
            'operands to the real polymath code and to the compiled model and diffs canonical outputs, with a numpy.ma '
            'oracle judging the real code directly.',
    'design': 'DESIGN.md §3 C13, DESIGN.d/C13.md',
    'technique': 'Lean 4 proof (induction over lanes, sorted-permutation uniqueness for sort/median) + model/code '
                 'correspondence + numpy.ma oracle',
    'note': 'Trusted: Lean kernel; hand-written model Model/Reduce.lean (checked against the code by the correspondence '
            'run); NumPy N-d axis semantics = lane-wise application (Arr.reduce). any()/all() over an EMPTY lane under a '
            'scalar False mask stay unmasked (known finding KF-C13-1, recorded: the repair breaks the shipped test-suite).',
}
RULE = ('all leading shapes up to rank 3 with axis lengths 0-4 x every axis argument (None, each +/- axis, every tuple '
        'of distinct axes incl. permuted/negative entries, plus out-of-range and duplicated ones) x 10 reductions x '
        'int/float data with ties and extremes x mask patterns none/all/mixed/whole lanes masked x mask representations '
        '(False, True, array, broadcast view); quick samples 2 (data, mask) draws per (shape, axis, op), thorough 8; '
        'Vector/Matrix sum/mean, operands with derivatives, Scalar.maximum/minimum on broadcast operand lists; '
        'non-trivial = at least one masked element or a zero-length axis; distinct = distinct request line')
ASSUMPTIONS = ['no integer overflow in sums (the model computes in unbounded integers)',
               'argmax/argmin: no unmasked element equals the fill extreme (-inf/dtype min for argmax, +inf/dtype max '
               'for argmin) in a lane that also has masked elements (DESIGN 8.7: numpy.ma has the same tie)',
               'NumPy reduces an N-d array along axes lane by lane (Arr.reduce); lanes are enumerated row-major',
               'any()/all(): empty lanes under a scalar False mask are excluded from the theorems (KF-C13-1)']
TRUSTED_EXTRA = ['numpy.ma as the reference for reductions over the unmasked elements (oracle only)']

INF = 8 * 2 ** 1030            # wire code of +inf for float data (larger than 8 * any finite float64)
I64MIN, I64MAX = -2 ** 63, 2 ** 63 - 1
REDS = ['sum', 'mean', 'max', 'min', 'argmax', 'argmin', 'median', 'sort']
BREDS = ['any', 'all']
ORDER_OPS = ('max', 'min', 'argmax', 'argmin', 'sort')


# ------------------------------------------------------------------ wire <-> numpy
def scale_of(dtype):
    return 8 if dtype == 'float' else 1

def limits(dtype):
    return (-INF, INF) if dtype == 'float' else (I64MIN, I64MAX)

def dec_vals(vals, dtype, shape):
    if dtype == 'float':
        a = np.array([np.inf if v == INF else -np.inf if v == -INF else v / 8.0 for v in vals], dtype='float64')
    else:
        a = np.array([int(v) for v in vals], dtype='int64')
    return a.reshape(shape)

def enc(v, k):
    """encode a result value as a wire integer at scale k"""
    v = float(v) if isinstance(v, (float, np.floating)) else v
    if isinstance(v, float):
        if v == np.inf: return INF
        if v == -np.inf: return -INF
        if v != v: return 'NaN'
        x = Fraction(v) * k
        return int(x) if x.denominator == 1 else 'NONINT:%r' % v
    return int(v) * k

def enc_frac(v, k):
    # the exact mean is (integer sum)/(count <= 64); two such fractions differ by >= 1/4096, the float is much closer
    f = Fraction(float(v) * k).limit_denominator(64)
    return [f.numerator, f.denominator]

def exc(e):
    if isinstance(e, IndexError): return 'IndexError'       # includes numpy AxisError
    if isinstance(e, TypeError): return 'TypeError'
    if isinstance(e, ValueError): return 'ValueError'
    return 'Other:' + type(e).__name__

def pyaxis(ax):
    return tuple(ax) if isinstance(ax, list) else ax

def axis_sx(ax):
    if ax is None: return 'N'
    if isinstance(ax, list): return ['t'] + [int(a) for a in ax]
    return int(ax)

def legal_axis(ax, rank):
    if ax is None: return True
    l = ax if isinstance(ax, list) else [ax]
    if any(not (-rank <= a < rank) for a in l): return False
    return len({a % rank for a in l}) == len(l)

def axes_of(ax, rank):
    if ax is None: return list(range(rank))
    l = ax if isinstance(ax, list) else [ax]
    return [a % rank for a in l]


# ------------------------------------------------------------------ observing results
def obs_q(r, k, frac=False, item=False):
    """[shape, [M | value ...]] of a polymath result"""
    assert isinstance(r, Qube), type(r)
    shape = list(r._shape_)
    m = expanded_mask(r).ravel()
    v = np.broadcast_to(np.asarray(r._values_), r._shape_ + r._item_)
    n = int(np.prod(shape, dtype=int))
    v = v.reshape((n,) + tuple(r._item_))
    out = []
    for i in range(n):
        if m[i]:
            out.append('M')
        elif item:
            out.append([enc_frac(x, k) if frac else enc(x, k) for x in v[i].ravel()])
        else:
            out.append(enc_frac(v[i], k) if frac else enc(v[i], k))
    return [shape, out]

def obs_b(r):
    assert isinstance(r, Boolean), type(r)
    m = expanded_mask(r).ravel()
    v = np.broadcast_to(np.asarray(r._values_), r._shape_).ravel()
    return [list(r._shape_), ['M' if mm else bool(vv) for vv, mm in zip(v, m)]]

def out_scale(name, dtype):
    k = scale_of(dtype)
    if name == 'median': return 2 * k
    if name in ('argmax', 'argmin'): return 1
    return k


# ------------------------------------------------------------------ running the real code
def build(case):
    shape = case['shape']
    if case['op'] == 'bred':
        if case.get('cls') == 'Scalar':
            return Scalar(np.array(case['ivals'], dtype='int64').reshape(shape), mk_mask(case['mask'], shape))
        return Boolean(np.array(case['vals'], dtype=bool).reshape(shape), mk_mask(case['mask'], shape))
    if case['op'] == 'vred':
        cls = CLASSES[case['cls']]
        vals = dec_vals(case['vals'], case['dtype'], list(shape) + list(case['item']))
        return cls(vals, mk_mask(case['mask'], shape))
    q = Scalar(dec_vals(case['vals'], case['dtype'], shape), mk_mask(case['mask'], shape))
    if case['op'] == 'dred':
        for key, d in zip('tuv', case['derivs']):
            q.insert_deriv(key, Scalar(dec_vals(d['vals'], 'float', shape), mk_mask(d['mask'], shape)))
    return q

def impl(case):
    op = case['op']
    try:
        if op == 'maxmin':
            args = [Scalar(dec_vals(o['vals'], o['dtype'], o['shape']), mk_mask(o['mask'], o['shape'])) for o in case['args']]
            r = getattr(Scalar, case['name'])(*args)
            return obs_q(r, 8 if any(o['dtype'] == 'float' for o in case['args']) else 1)
        q = build(case)
        r = getattr(q, case['name'])(axis=pyaxis(case['axis']))
    except Exception as e:
        return exc(e)
    if op == 'bred':
        return obs_b(r)
    if op == 'vred':
        return obs_q(r, scale_of(case['dtype']), frac=case['name'] == 'mean', item=True)
    if op == 'dred':
        main = obs_q(r, scale_of(case['dtype']), frac=case['name'] == 'mean')
        ds = [obs_q(r._derivs_[key], 8, frac=case['name'] == 'mean') for key, _ in zip('tuv', case['derivs'])]
        return [main, ds]
    return obs_q(r, out_scale(case['name'], case['dtype']), frac=case['name'] == 'mean')


# ------------------------------------------------------------------ direct oracle: numpy.ma on the expanded operand
def ma_obs(res, mask, shape, k, frac=False):
    """canonical observation of a numpy.ma / numpy result of the given result shape"""
    data = np.broadcast_to(np.ma.getdata(res), shape).ravel()
    out = []
    for v, m in zip(data, np.broadcast_to(mask, shape).ravel()):
        out.append('M' if m else (enc_frac(v, k) if frac else enc(v, k)))
    return [list(shape), out]

def reduced_shape(shape, ax):
    axes = axes_of(ax, len(shape))
    return [n for i, n in enumerate(shape) if i not in axes]

def expect_red(name, vals, mbits, shape, ax, k, limits_):
    """expected observation of a Scalar reduction; None where the property says nothing"""
    rank = len(shape)
    if not legal_axis(ax, rank):
        return None
    if name in ('argmax', 'argmin', 'sort') and isinstance(ax, list):
        return None                                  # NumPy itself takes no tuple here
    if name in ('argmax', 'argmin', 'sort') and rank == 0:
        return None
    n = int(np.prod(shape, dtype=int))
    mask = np.array(mbits, dtype=bool).reshape(shape)
    if name == 'sort':
        if n == 0:
            return [[0] if ax is None else list(shape), []]
        # lane by lane: the unmasked values in ascending order, masked entries at the end (numpy.ma.sort(endwith=
        # True) gives the same except that it misplaces an unmasked value equal to the dtype maximum / +inf)
        if ax is None:
            v2, m2, rs = vals.reshape((1, n)), mask.reshape((1, n)), [n]
        else:
            v2 = np.moveaxis(vals, ax, -1)
            m2 = np.moveaxis(mask, ax, -1)
            rs = list(shape)
        outv = np.empty(v2.shape, dtype=object)
        for idx in np.ndindex(*v2.shape[:-1]):
            u = sorted(v2[idx][~m2[idx]].tolist())
            outv[idx] = np.array([enc(x, k) for x in u] + ['M'] * (v2.shape[-1] - len(u)), dtype=object)
        if ax is not None:
            outv = np.moveaxis(outv, -1, ax)
        return [rs, list(outv.ravel())]
    rs = reduced_shape(shape, ax)
    if n == 0:
        return [rs, ['M'] * int(np.prod(rs, dtype=int))]
    axes = tuple(axes_of(ax, rank))
    allm = np.all(mask, axis=axes) if rank else mask
    ma = np.ma.array(vals, mask=mask)
    if name in ('argmax', 'argmin'):
        ext = limits_[0] if name == 'argmax' else limits_[1]
        unm = vals[~mask]
        extv = -np.inf if ext == -INF else np.inf if ext == INF else ext
        if mask.any() and (unm == extv).any():
            return None                              # DESIGN 8.7: tie with the fill value
        res = getattr(ma, name)(axis=ax)
        return ma_obs(res, allm, rs, 1)
    if name == 'median':
        res = np.ma.median(ma, axis=pyaxis(ax))
        return ma_obs(res, allm, rs, 2 * k)
    res = getattr(ma, name)(axis=pyaxis(ax) if rank else None)
    return ma_obs(res, allm, rs, k, frac=(name == 'mean'))

def expect(case):
    op = case['op']
    shape = case.get('shape')
    if op == 'red':
        vals = dec_vals(case['vals'], case['dtype'], shape)
        return expect_red(case['name'], vals, mask_bits(case['mask'], shape), shape, case['axis'],
                          scale_of(case['dtype']), limits(case['dtype']))
    if op == 'dred':
        vals = dec_vals(case['vals'], case['dtype'], shape)
        main = expect_red(case['name'], vals, mask_bits(case['mask'], shape), shape, case['axis'],
                          scale_of(case['dtype']), None)
        if main is None:
            return None
        ds = [expect_red(case['name'], dec_vals(d['vals'], 'float', shape), mask_bits(d['mask'], shape), shape,
                         case['axis'], 8, None) for d in case['derivs']]
        return [main, ds]
    if op == 'vred':
        rank = len(shape)
        if not legal_axis(case['axis'], rank):
            return None
        item = list(case['item'])
        vals = dec_vals(case['vals'], case['dtype'], list(shape) + item)
        mask = np.array(mask_bits(case['mask'], shape), dtype=bool).reshape(shape)
        rs = reduced_shape(shape, case['axis'])
        nout = int(np.prod(rs, dtype=int))
        k = scale_of(case['dtype'])
        if vals.size == 0:
            return [rs, ['M'] * nout]
        axes = tuple(axes_of(case['axis'], rank))
        full = np.broadcast_to(mask.reshape(list(shape) + [1] * len(item)), vals.shape)
        ma = np.ma.array(vals, mask=full)
        res = getattr(ma, case['name'])(axis=axes) if rank else ma
        data = np.broadcast_to(np.ma.getdata(res), tuple(rs) + tuple(item)).reshape((nout, -1))
        allm = np.broadcast_to(np.all(mask, axis=axes) if rank else mask, rs).ravel()
        frac = case['name'] == 'mean'
        return [rs, ['M' if m else [enc_frac(x, k) if frac else enc(x, k) for x in row] for row, m in zip(data, allm)]]
    if op == 'bred':
        rank = len(shape)
        vals = np.array(case['vals'], dtype=bool).reshape(shape)
        mask = np.array(mask_bits(case['mask'], shape), dtype=bool).reshape(shape)
        if rank == 0:
            return [[], ['M' if mask else bool(vals)]]
        if not legal_axis(case['axis'], rank):
            return None
        rs = reduced_shape(shape, case['axis'])
        axes = tuple(axes_of(case['axis'], rank))
        allm = np.all(mask, axis=axes)
        ma = np.ma.array(vals, mask=mask)
        res = getattr(ma, case['name'])(axis=axes)
        data = np.broadcast_to(np.ma.getdata(res), rs).ravel()
        return [rs, ['M' if m else bool(v) for v, m in zip(data, np.broadcast_to(allm, rs).ravel())]]
    if op == 'maxmin':
        args = case['args']
        try:
            out = np.broadcast_shapes(*[tuple(o['shape']) for o in args])
        except ValueError:
            return None
        k = 8 if any(o['dtype'] == 'float' for o in args) else 1
        stack = np.ma.stack([np.ma.array(np.broadcast_to(dec_vals(o['vals'], o['dtype'], o['shape']).astype(
                                'float64' if k == 8 else 'int64'), out),
                             mask=np.broadcast_to(np.array(mask_bits(o['mask'], o['shape']), dtype=bool).reshape(o['shape']), out))
                             for o in args])
        res = stack.max(axis=0) if case['name'] == 'maximum' else stack.min(axis=0)
        allm = np.all(np.ma.getmaskarray(stack), axis=0)
        return ma_obs(res, allm, list(out), k)
    return None

def branch_of(case):
    shape = case.get('shape')
    if case['op'] == 'maxmin':
        return 'n%d' % len(case['args'])
    n = int(np.prod(shape, dtype=int))
    bits = mask_bits(case['mask'], shape)
    if n == 0: return 'size0'
    if not shape: return 'shape()'
    if not any(bits): return 'nomask'
    if all(bits): return 'allmasked'
    return 'mixed'

def axis_kind(ax, rank):
    if ax is None: return 'None'
    if not legal_axis(ax, rank): return 'illegal'
    if isinstance(ax, list): return 'tuple%d' % len(ax)
    return 'neg' if ax < 0 else 'pos'

def signature(case):
    if case['op'] == 'bred' and case['mask'] == 'F' and case['shape'] and legal_axis(case['axis'], len(case['shape'])) \
            and 0 in [case['shape'][a] for a in axes_of(case['axis'], len(case['shape']))]:
        return '%s:empty-lane:scalar-false-mask' % case['name']
    return '%s:%s:%s:%s' % (case['op'], case['name'], branch_of(case),
                            axis_kind(case.get('axis'), len(case.get('shape') or [])))

def close(a, b):
    """equal observations; mean fractions within 1e-9 relative"""
    if isinstance(a, list) and isinstance(b, list):
        if len(a) == 2 and len(b) == 2 and all(isinstance(x, int) and not isinstance(x, bool) for x in a + b) \
                and a[1] > 0 and b[1] > 0 and (a[1] != 1 or b[1] != 1):
            return abs(Fraction(a[0], a[1]) - Fraction(b[0], b[1])) <= Fraction(1, 10 ** 9) * max(1, abs(Fraction(a[0], a[1])))
        return len(a) == len(b) and all(close(x, y) for x, y in zip(a, b))
    return type(a) == type(b) and a == b

def oracle(case):
    exp = expect(case)
    if exp is None:
        return None
    got = impl(case)
    if not close(got, exp):
        return (signature(case), '%s %s axis=%r shape=%r: implementation returned %s, numpy.ma on the expanded operand gives %s'
                % (case['op'], case['name'], case.get('axis'), case.get('shape'), C.sx(got)[:300], C.sx(exp)[:300]))
    return None


# ------------------------------------------------------------------ requests for the model
def request(case):
    op = case['op']
    if op == 'red':
        if case['name'] in ('argmax', 'argmin', 'sort') and isinstance(case['axis'], list) \
                and int(np.prod(case['shape'], dtype=int)) == 0:
            return None                              # tuple axis never reaches NumPy on a zero-sized object: unspecified
        if case['name'] == 'sort' and not case['shape']:
            return None                              # sort of a shape-() object: NumPy has no axis to sort along; unspecified
        lo, hi = limits(case['dtype'])
        return ['c13', 'red', case['name'], case['shape'], case['vals'], mask_sx(case['mask'], case['shape']),
                axis_sx(case['axis']), lo, hi]
    if op == 'vred':
        return ['c13', 'vred', case['name'], case['shape'], int(np.prod(case['item'], dtype=int)), case['vals'],
                mask_sx(case['mask'], case['shape']), axis_sx(case['axis'])]
    if op == 'dred':
        return ['c13', 'dred', case['name'], case['shape'], case['vals'], mask_sx(case['mask'], case['shape']),
                axis_sx(case['axis']), [[d['vals'], mask_sx(d['mask'], case['shape'])] for d in case['derivs']]]
    if op == 'bred':
        return ['c13', 'bred', case['name'], case['shape'], [bool(v) for v in case['vals']],
                mask_sx(case['mask'], case['shape']), axis_sx(case['axis'])]
    if op == 'maxmin':
        args = case['args']
        try:
            out = list(np.broadcast_shapes(*[tuple(o['shape']) for o in args]))
        except ValueError:
            return None
        k = 8 if any(o['dtype'] == 'float' for o in args) else 1
        ops = []
        for o in args:
            s = k // scale_of(o['dtype'])
            v = np.array([x * s for x in o['vals']], dtype=object).reshape(o['shape'])
            m = np.array(mask_bits(o['mask'], o['shape']), dtype=bool).reshape(o['shape'])
            ops.append([[int(x) for x in np.broadcast_to(v, out).ravel()], [bool(x) for x in np.broadcast_to(m, out).ravel()]])
        return ['c13', 'maxmin', case['name'], out, ops]
    return None


# ------------------------------------------------------------------ generation
def axis_args(rank, rng):
    """(axis argument, legal?) for every form the property quantifies over, plus illegal ones"""
    res = [None]
    res += list(range(-rank, rank))
    for r in range(1, rank + 1):
        for t in itertools.combinations(range(rank), r):
            res.append(list(t))
    if rank >= 2:
        res.append([rank - 1, 0])                    # permuted
        res.append([-1, 0])                          # mixed signs
        res.append([-rank, -1])
    if rank == 3:
        res.append([2, 0, 1])
        res.append([-2, 2])
    res.append([])                                   # the empty tuple
    # illegal
    res.append(rank)
    res.append(-rank - 1)
    if rank >= 1:
        res.append([0, 0])
        res.append([0, -rank])                       # the same axis twice under two names
        res.append([0, rank])
    return res

def mask_patterns(shape, rng, n_random=1):
    """expanded bit lists: none, all, mixed random, whole lanes masked along some axis"""
    n = int(np.prod(shape, dtype=int))
    pats = [('none', [False] * n), ('all', [True] * n)]
    for _ in range(n_random):
        p = rng.choice([0.2, 0.5, 0.8])
        pats.append(('mixed', [rng.random() < p for _ in range(n)]))
    if len(shape) >= 1 and n > 0:
        # whole slices masked along a random axis, the rest random
        ax = rng.randrange(len(shape))
        a = np.array([rng.random() < 0.3 for _ in range(n)], dtype=bool).reshape(shape)
        idx = [slice(None)] * len(shape)
        other = [k for k in range(len(shape)) if k != ax]
        if other:
            o = rng.choice(other)
            idx[o] = rng.randrange(shape[o])
        else:
            idx[ax] = slice(0, max(1, shape[ax] // 2))
        a[tuple(idx)] = True
        pats.append(('lanes', [bool(x) for x in a.ravel()]))
        if shape[0] > 1:
            row = np.array([rng.random() < 0.5 for _ in range(n // shape[0])], dtype=bool)
            pats.append(('rows', [bool(x) for x in np.broadcast_to(row.reshape([1] + list(shape[1:])), shape).ravel()]))
    return pats

def rand_vals(rng, n, dtype, name):
    """wire integers: small values with ties, plus extremes where the operation only orders"""
    mode = rng.random()
    lo, hi = limits(dtype)
    if dtype == 'float':
        small = lambda: rng.choice([-12, -8, -3, 0, 0, 1, 4, 8, 8, 20])          # k/8
        big = [2 ** 23, -2 ** 23, 2 ** 40, -2 ** 40]
    else:
        small = lambda: rng.randint(-3, 3)
        big = [2 ** 40, -2 ** 40, 2 ** 31, -2 ** 31 - 1]
    vals = [small() for _ in range(n)]
    if mode < 0.35 and n:
        pool = big + ([lo, hi, lo + 1 if dtype == 'int' else -8 * 2 ** 1000, hi - 1 if dtype == 'int' else 8 * 2 ** 1000]
                      if name in ORDER_OPS else [])
        for _ in range(rng.randint(1, max(1, n // 2))):
            vals[rng.randrange(n)] = rng.choice(pool)
    if name in ('sum', 'mean', 'median') and dtype == 'float':
        # keep float arithmetic exact: at most one huge magnitude class per operand
        pass
    return vals

def mk(case):
    case['req'] = request(case)
    if case['op'] == 'maxmin':
        nt = any(any(mask_bits(o['mask'], o['shape'])) for o in case['args'])
        case['kind'] = 'maxmin:%s:n%d' % (case['name'], len(case['args']))
    else:
        shape = case['shape']
        nt = any(mask_bits(case['mask'], shape)) or 0 in shape
        rep = case['mask'] if isinstance(case['mask'], str) else ('view' if isinstance(case['mask'], dict) else 'arr')
        case['kind'] = '%s:%s:%s:%s:%s' % (case['op'], case['name'], branch_of(case), axis_kind(case['axis'], len(shape)), rep)
    case['nontrivial'] = bool(nt)
    return case

def pick_rep(bits, shape, rng):
    return rng.choice(mask_reps(bits, shape))

def gen_cases(rng, tier):
    thorough = tier == 'thorough'
    draws = 8 if thorough else 2
    cases = []
    shapes = list(all_shapes(3, range(5)))
    for shape in shapes:
        n = int(np.prod(shape, dtype=int))
        rank = len(shape)
        for ax in axis_args(rank, rng):
            for name in REDS + BREDS:
                if name in ('argmax', 'argmin', 'sort') and isinstance(ax, list) and rng.random() < 0.8:
                    continue                          # NumPy takes no tuple here: only a thin stream
                pats = mask_patterns(shape, rng, n_random=2 if thorough else 1)
                if thorough:
                    chosen = [(p, dt) for p in pats for dt in ('int', 'float')]
                    chosen = chosen if len(chosen) <= draws else rng.sample(chosen, draws)
                else:
                    chosen = [(rng.choice(pats), rng.choice(['int', 'float'])) for _ in range(draws)]
                for (pname, bits), dtype in chosen:
                    for rep in ([pick_rep(bits, shape, rng)] if not thorough else mask_reps(bits, shape)):
                        if name in BREDS:
                            if rng.random() < 0.25:
                                iv = [rng.choice([0, 0, 1, -2, 5]) for _ in range(n)]
                                cases.append(mk({'op': 'bred', 'name': name, 'cls': 'Scalar', 'shape': shape, 'ivals': iv,
                                                 'vals': [v != 0 for v in iv], 'mask': rep, 'axis': ax}))
                            else:
                                cases.append(mk({'op': 'bred', 'name': name, 'shape': shape,
                                                 'vals': [rng.random() < 0.5 for _ in range(n)], 'mask': rep, 'axis': ax}))
                        else:
                            vals = rand_vals(rng, n, dtype, name)
                            if name in ('sum', 'mean', 'median') and dtype == 'float':
                                vals = [v if abs(v) < 2 ** 30 else (2 ** 23 if v > 0 else -2 ** 23) for v in vals]
                            if name == 'mean' and dtype == 'int':
                                # keep the float quotient within 1e-6 of the exact mean (see enc_frac)
                                vals = [max(min(v, 2 ** 31), -2 ** 31 - 1) for v in vals]
                            cases.append(mk({'op': 'red', 'name': name, 'shape': shape, 'dtype': dtype, 'vals': vals,
                                             'mask': rep, 'axis': ax}))
    # Vector / Matrix sums and means; operands with derivatives
    vshapes = [s for s in shapes if len(s) <= 2] + [[2, 1, 3], [0, 2, 2], [2, 3, 0]]
    for shape in vshapes:
        n = int(np.prod(shape, dtype=int))
        rank = len(shape)
        for ax in axis_args(rank, rng):
            for name in ('sum', 'mean'):
                for cls, item in (('Vector', [3]), ('Matrix', [2, 2]), ('Pair', [2]), ('Vector', [1])):
                    if not thorough and rng.random() < 0.5:
                        continue
                    pname, bits = rng.choice(mask_patterns(shape, rng))
                    dtype = rng.choice(['int', 'float'])
                    isz = int(np.prod(item))
                    vals = [rng.choice([-8, -3, 0, 1, 4, 8, 16]) if dtype == 'float' else rng.randint(-3, 3) for _ in range(n * isz)]
                    cases.append(mk({'op': 'vred', 'name': name, 'cls': cls, 'item': item, 'shape': shape, 'dtype': dtype,
                                     'vals': vals, 'mask': pick_rep(bits, shape, rng), 'axis': ax}))
                # derivatives
                pname, bits = rng.choice(mask_patterns(shape, rng))
                dtype = rng.choice(['int', 'float'])
                nd = rng.choice([1, 1, 2])
                derivs = [{'vals': [rng.choice([-8, -3, 0, 1, 4, 8, 16]) for _ in range(n)], 'mask': pick_rep(bits, shape, rng)}
                          for _ in range(nd)]
                vals = [rng.choice([-8, -3, 0, 1, 4, 8]) if dtype == 'float' else rng.randint(-3, 3) for _ in range(n)]
                cases.append(mk({'op': 'dred', 'name': name, 'shape': shape, 'dtype': dtype, 'vals': vals,
                                 'mask': pick_rep(bits, shape, rng), 'axis': ax, 'derivs': derivs}))
    # Scalar.maximum / minimum
    mshapes = [[], [1], [3], [2, 3], [2, 1], [0], [2, 0], [1, 3], [4]]
    for _ in range(1500 if thorough else 250):
        k = rng.choice([1, 2, 2, 3, 4])
        args = []
        for _ in range(k):
            shape = rng.choice(mshapes)
            n = int(np.prod(shape, dtype=int))
            dtype = rng.choice(['int', 'float'])
            bits = rng.choice(mask_patterns(shape, rng))[1]
            vals = rand_vals(rng, n, dtype, 'max')
            if dtype == 'int':
                vals = [max(min(v, 2 ** 40), -2 ** 40) for v in vals]      # stay exact when mixed with floats
            else:
                vals = [v if abs(v) == INF or abs(v) < 2 ** 45 else (INF if v > 0 else -INF) for v in vals]
            args.append({'shape': shape, 'dtype': dtype, 'vals': vals, 'mask': pick_rep(bits, shape, rng)})
        cases.append(mk({'op': 'maxmin', 'name': rng.choice(['maximum', 'minimum']), 'args': args}))
    return cases


def neighbours(case):
    """simpler cases near a mismatching one: other axis arguments, mask fully expanded, values zeroed"""
    if case['op'] not in ('red', 'bred'):
        return
    shape = case['shape']
    rank = len(shape)
    import random
    rng = random.Random(0)
    for ax in axis_args(rank, rng):
        c = dict(case, axis=ax)
        yield mk(c)
    bits = mask_bits(case['mask'], shape)
    for rep in mask_reps(bits, shape):
        yield mk(dict(case, mask=rep))
