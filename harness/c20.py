"""C20 — Polynomial arithmetic, evaluation, differentiation and roots are consistent."""
import itertools, struct, warnings
import numpy as np
from absn import *
import common as C
from polymath import Polynomial
import c20_oracle as O
import c20_hist as H

PROP = 'C20'
LEAN_MODULES = ['PMV.Props.C20']
PARALLEL = True
MANIFEST = {
    'text': 'Kernel-checked theorems (PMV/Props/C20.lean, Mathlib Polynomial) that the coefficient-list operations as '
            'polymath performs them (left zero padding, the reversed shifted-accumulate multiplication loop, repeated '
            'multiplication, the arange-weighted deriv, the powers-list + dot eval) are the ring operations, Horner '
            'evaluation and formal derivative of K[X] for every commutative ring K and every list length; that the '
            'linear and quadratic root formulas (solve_quadratic with its masks, duplicate masking and sort) return '
            'exactly the distinct real roots in increasing order with masked padding over any linearly ordered field '
            'with a square-root function; and that the order>=3 post-processing of the companion-matrix eigenvalues '
            'returns exactly the distinct real eigenvalues, sorted, masked last; derivatives of coefficients obey the sum, '
            'Leibniz, power and chain rules; leading axes broadcast by NumPy\'s rule with masks united (array-level theorems). '
            'Tied to /repo on every run: the same '
            'operands go to the real code and to the compiled model (Int for ring operations, IEEE Float for roots, '
            'compared bit for bit, LAPACK eigenvalues recorded from the real call) and every case is judged directly '
            'against numpy.polyadd/polysub/polymul/polyder/polyval/roots.',
    'design': 'DESIGN.md §3 C20, DESIGN.d/C20.md',
    'technique': 'Lean 4 proof (ring homomorphism into Mathlib Polynomial, ordered-field algebra) + model/code correspondence',
    'note': 'Trusted: Lean kernel + Mathlib; hand-written model Model/Poly.lean (checked against the code by the '
            'correspondence run); np.linalg.eigvals (LAPACK) as a parameter with a stated contract; IEEE rounding is '
            'not modelled in the theorems (the Float instance of the same definitions is what the tie runs).',
}
RULE = ('orders 0-5 (thorough 0-7) x broadcast-compatible and incompatible leading-shape pairs x every mask representation; '
        'integer-valued coefficients and points (float64 + - * exact); root cases are products of linear factors, '
        'quadratics with complex/irrational/double roots, powers of x, leading zeros and all-zero rows; '
        'non-trivial = masked element, broadcasting, different orders, leading zeros, repeated or complex roots; '
        'distinct = distinct request line')
ASSUMPTIONS = [
    'theorems are over commutative rings / linearly ordered fields with an exact square root; the code runs float64 '
    '(exact for the integer-valued operands of the tie for + - *, correctly rounded for / and sqrt)',
    'order >= 3 (roots_high_spectral_partial): of np.linalg.eigvals only (A) a real x occurs as (x,0) in its output iff '
    'x^n - row(x) = 0 for the companion row, and (B) the first k entries are the exact zeros of the k shifted-out '
    'leading coefficients and a further exact zero follows iff p(0) = 0; both are MONITORED on every case (residual of '
    'every recorded eigenvalue in the monic polynomial <= 1e-8 scale, trace, exact zeros first, exact zero iff p(0)=0); '
    'real roots of multiplicity >= 2 of order >= 3 polynomials are numerically ill-conditioned and may be returned '
    'split or not at all (the oracle accepts both)',
    'unmasked values are finite (Scalar.sort uses +inf as the fill for masked entries)',
    'p**0 returns the shapeless unmasked Polynomial([1.]) whatever the mask/shape of p (modelled as the code does; '
    'the oracle checks the value only)',
]
TRUSTED_EXTRA = ['np.linalg.eigvals (LAPACK dgeev): parameter `eigvals` of Model/Poly.lean `roots`; its output is recorded '
                 'from NumPy for each case and handed to the model',
                 'numpy.polyadd/polysub/polymul/polyder/polyval/roots as the direct oracle']


# ------------------------------------------------------------------ building / observing
def mkpoly(o):
    vals = np.array(o['vals'], dtype=float).reshape(list(o['shape']) + [o['len']])
    return Polynomial(vals, mk_mask(o['mask'], o['shape']))

def mkscalar(o):
    vals = np.array(o['vals'], dtype=float).reshape(o['shape'])
    return Scalar(vals, mk_mask(o['mask'], o['shape']))

def mkpoly_d(o):
    """polynomial with an optional derivative d_dt (coefficients o['d'])"""
    p = mkpoly(o)
    if o.get('d') is not None:
        p.insert_deriv('t', Polynomial(np.array(o['d'], dtype=float).reshape(list(o['shape']) + [o['len']])))
    return p

def mkscalar_d(o):
    x = mkscalar(o)
    if o.get('d') is not None:
        x.insert_deriv('t', Scalar(np.array(o['d'], dtype=float).reshape(o['shape'])))
    return x

def as_int(v):
    v = float(v)
    if v == int(v):
        return int(v)
    return 'nonint:' + repr(v)

def obs_poly(r):
    assert isinstance(r, Polynomial), type(r)
    m = expanded_mask(r).ravel()
    n = r.item[0] if hasattr(r, 'item') else r._numer_[0]
    v = np.broadcast_to(np.asarray(r._values_, dtype=float), tuple(r._shape_) + (n,)).reshape(-1, n)
    return [list(r._shape_), ['m' if m[i] else [as_int(x) for x in v[i]] for i in range(len(m))]]

def obs_scalar(r):
    assert isinstance(r, Scalar), type(r)
    m = expanded_mask(r).ravel()
    v = np.broadcast_to(np.asarray(r._values_, dtype=float), r._shape_).ravel()
    return [list(r._shape_), ['m' if m[i] else as_int(v[i]) for i in range(len(m))]]

def under(parent, deriv):
    return ['m' if p == 'm' else ('masked-derivative' if d == 'm' else d) for p, d in zip(parent, deriv)]

def bits(x):
    x = float(x) + 0.0                      # -0.0 -> 0.0 (np.sort does not order the two zeros)
    return struct.unpack('<Q', struct.pack('<d', x))[0]

def unbits(n):
    return struct.unpack('<d', struct.pack('<Q', n))[0]


class EigRecorder:
    """records what Polynomial.roots hands to np.linalg.eigvals"""
    def __enter__(self):
        self.inputs = []
        self.orig = np.linalg.eigvals
        def rec(a):
            self.inputs.append(np.array(a, copy=True))
            return self.orig(a)
        np.linalg.eigvals = rec
        return self
    def __exit__(self, *a):
        np.linalg.eigvals = self.orig


BIN = {'add': lambda u, v: u + v, 'sub': lambda u, v: u - v, 'rsub': lambda u, v: u.__rsub__(v), 'mul': lambda u, v: u * v}
UN = {'neg': lambda u, n: -u, 'deriv': lambda u, n: u.deriv(), 'pow': lambda u, n: u ** n, 'id': lambda u, n: u}


def call(case):
    op = case['op']
    if op in ('add', 'sub', 'rsub', 'mul', 'iadd', 'isub'):
        a, b = mkpoly(case['a']), mkpoly(case['b'])
        if op == 'add': return a + b
        if op == 'sub': return a - b
        if op == 'rsub': return a.__rsub__(b)
        if op == 'mul': return a * b
        if op == 'iadd': a += b; return a
        if op == 'isub': a -= b; return a
    if op == 'smul':
        a, k = mkpoly(case['a']), float(case['k'])
        return a * k if case['form'] == 'right' else k * a
    if op == 'sadd':
        a, k = mkpoly(case['a']), float(case['k'])
        return {'p+k': lambda: a + k, 'k+p': lambda: k + a, 'p-k': lambda: a - k, 'k-p': lambda: k - a}[case['form']]()
    if op == 'neg': return -mkpoly(case['a'])
    if op == 'deriv': return mkpoly(case['a']).deriv()
    if op == 'pow': return mkpoly(case['a']) ** case['n']
    if op == 'eval':
        return mkpoly(case['a']).eval(O.mkx(case['x'], case.get('xform', 'scalar'))[0])
    if op == 'roots':
        return mkpoly(case['a']).roots()
    if op == 'evald':
        return mkpoly_d(case['a']).eval(mkscalar_d(case['x']))
    if op == 'bind':
        return BIN[case['sym']](mkpoly_d(case['a']), mkpoly_d(case['b']))
    if op == 'und':
        return UN[case['sym']](mkpoly_d(case['a']), case.get('n', 0))
    if op == 'smuld':
        a, k = mkpoly_d(case['a']), float(case['k'])
        return a * k if case['form'] == 'right' else k * a
    if op == 'chaind':
        s1, s2, s3 = case['syms']
        return UN[s3](BIN[s2](BIN[s1](mkpoly_d(case['a']), mkpoly_d(case['b'])), mkpoly_d(case['c'])), case.get('n', 0))
    if op == 'invline':
        return mkpoly(case['a']).invert_line()
    if op == 'sdiv':
        a, k, f = mkpoly_d(case['a']), float(case['k']), case['form']
        kp = Polynomial(np.array([k]))
        if f == 'p/k': return a / k
        if f == 'p/[k]': return a / kp
        if f == 'p*=k': a *= k; return a
        if f == 'p*=[k]': a *= kp; return a
        if f == 'p/=k': a /= k; return a
        if f == 'p/=[k]': a /= kp; return a
    if op == 'eq':
        a, b = mkpoly(case['a']), mkpoly(case['b'])
        return (a == b) if case['form'] == 'eq' else (a != b)
    if op == 'rootsd':
        return mkpoly_d(case['a']).roots()
    raise KeyError(op)


def impl(case):
    op = case['op']
    if op == 'hist':
        return 'oracle-only'
    try:
        with warnings.catch_warnings():
            warnings.simplefilter('error')
            if op == 'roots':
                with EigRecorder() as rec:
                    r = call(case)
                return obs_roots(case, r, rec.inputs)
            if op == 'eval':
                x = O.mkx(case['x'], case.get('xform', 'scalar'))[0]
                r = mkpoly(case['a']).eval(x)
            else:
                r = call(case)
    except Exception as e:
        return C.exc_name(e)
    if op == 'eval':
        # value, and the content of the caller's x after the call (must be what was passed in)
        xv = np.asarray(x._values_ if isinstance(x, Scalar) else x, dtype=float).ravel()
        return obs_scalar(r) + [[as_int(v) for v in xv]]
    # a derivative is observed where its parent is unmasked (elsewhere it is hidden like the parent's value)
    # an absent derivative means "does not depend on t" and is observed as zero
    if op == 'evald':
        o = obs_scalar(r)
        if 't' not in r.derivs:
            return o + [['m' if p == 'm' else 0 for p in o[1]]]
        return o + [under(o[1], obs_scalar(r.d_dt)[1])]
    if op in ('bind', 'und', 'smuld', 'chaind'):
        o = obs_poly(r)
        if 't' not in r.derivs:
            return o + [['m' if p == 'm' else [0] * len(p) for p in o[1]]]
        return o + [under(o[1], obs_poly(Polynomial(r.d_dt))[1])]
    if op in ('rootsd', 'sdiv', 'eq'):
        return 'oracle-only'
    if op == 'invline':
        assert isinstance(r, Polynomial)
        m = expanded_mask(r).ravel()
        v = np.broadcast_to(np.asarray(r._values_, dtype=float), tuple(r._shape_) + (2,)).reshape(-1, 2)
        return [list(r._shape_), ['m' if m[i] else [bits(v[i, 0]), bits(v[i, 1])] for i in range(len(m))]]
    return obs_poly(r)


def obs_roots(case, r, eig_inputs):
    """[shape, [[companion first row bits], [root bits | m]] per leading element]"""
    a = case['a']
    shape, n = list(a['shape']), a['len'] - 1
    assert isinstance(r, Scalar) and list(r._shape_) == [n] + shape, (r._shape_, n, shape)
    cnt = int(np.prod(shape, dtype=int))
    m = expanded_mask(r).reshape(n, cnt)
    v = np.broadcast_to(np.asarray(r._values_, dtype=float), r._shape_).reshape(n, cnt)
    if n >= 3:
        assert len(eig_inputs) == 1
        rows = eig_inputs[0][..., 0, :].reshape(cnt, n)
    else:
        assert not eig_inputs
        rows = np.zeros((cnt, 0))
    # nothing computed underneath a masked polynomial is observable (C03): neither root values nor the matrix row
    pm = mask_bits(a['mask'], a['shape'])
    return [shape, [[[] if pm[i] else [bits(x) for x in rows[i]], ['m' if m[k, i] else bits(v[k, i]) for k in range(n)]]
                    for i in range(cnt)]]


# ------------------------------------------------------------------ direct oracle (independent of the model)
def oracle(case):
    if case['op'] == 'hist':
        return H.judge(case)
    return O.judge(case, call, impl)


# ------------------------------------------------------------------ requests for the model
def p_sx(o):
    return [o['shape'], o['len'], [int(v) for v in o['vals']], mask_sx(o['mask'], o['shape'])]

def pd_sx(o):
    return p_sx(o) + [[int(v) for v in (o.get('d') or [0] * len(o['vals']))]]

def x_sx(o):
    return [o['shape'], [int(v) for v in o['vals']], mask_sx(o['mask'], o['shape'])]

def harness_eigs(o):
    """the eigenvalues LAPACK returns for the companion matrices polymath builds (computed by the oracle module with
    plain NumPy on an identically constructed stacked array), as bit patterns for the model"""
    rows, shifts, ev = O.companion_eigs(o)
    return [[[bits(np.real(z)), bits(np.imag(z))] for z in ev[i]] for i in range(len(ev))]

def request(case):
    op = case['op']
    if op in ('add', 'sub', 'rsub', 'mul', 'iadd', 'isub'):
        return ['c20', op, p_sx(case['a']), p_sx(case['b'])]
    if op in ('neg', 'deriv'):
        return ['c20', op, p_sx(case['a'])]
    if op == 'smul':
        return ['c20', 'smul', p_sx(case['a']), int(case['k'])]
    if op == 'sadd':
        # the number is as_polynomial(k): the shapeless order-0 polynomial [k]
        kp = [[], 1, [int(case['k'])], False]
        return ['c20', {'p+k': 'add', 'k+p': 'add', 'p-k': 'sub', 'k-p': 'rsub'}[case['form']], p_sx(case['a']), kp]
    if op == 'pow':
        return ['c20', 'pow', p_sx(case['a']), case['n']]
    if op == 'eval':
        if case.get('xform', 'scalar') != 'scalar':
            return ['c20', 'eval', p_sx(case['a']), x_sx(dict(case['x'], mask='F'))]
        return ['c20', 'eval', p_sx(case['a']), x_sx(case['x'])]
    if op == 'evald':
        a, x = case['a'], case['x']
        return ['c20', 'evald', p_sx(a) + [[int(v) for v in (a.get('d') or [0] * len(a['vals']))]],
                x_sx(x) + [[int(v) for v in (x.get('d') or [0] * len(x['vals']))]]]
    if op == 'bind':
        return ['c20', 'bind', case['sym'], pd_sx(case['a']), pd_sx(case['b'])]
    if op == 'und':
        return ['c20', 'und', case['sym'], case.get('n', 0), pd_sx(case['a'])]
    if op == 'smuld':
        return ['c20', 'smuld', pd_sx(case['a']), int(case['k'])]
    if op == 'chaind':
        return ['c20', 'chaind'] + list(case['syms']) + [case.get('n', 0), pd_sx(case['a']), pd_sx(case['b']), pd_sx(case['c'])]
    if op == 'invline':
        a = case['a']
        return ['c20', 'invline', a['shape'], a['len'], [bits(v) for v in a['vals']], mask_sx(a['mask'], a['shape'])]
    if op == 'roots':
        a = case['a']
        if int(np.prod(a['shape'], dtype=int)) == 0:
            return None                     # zero-size lanes: Scalar.sort's empty-result path belongs to C13
        eigs = harness_eigs(a) if a['len'] - 1 >= 3 else []
        return ['c20', 'roots', a['shape'], a['len'], [bits(v) for v in a['vals']], mask_sx(a['mask'], a['shape']), eigs]
    return None


# ------------------------------------------------------------------ generation
SHAPE_PAIRS = [([], []), ([], [3]), ([3], []), ([3], [3]), ([1], [3]), ([2, 1], [3]), ([2, 3], [3]), ([2, 3], [2, 1]),
               ([0], []), ([0], [1]), ([2, 0], [1]), ([2], [3]), ([2, 3], [3, 2]), ([1, 1], [2, 2]), ([2, 2, 2], [2, 1, 2]),
               ([2], []), ([], [2]), ([1], []), ([2, 2], [2])]
SHAPES = [[], [1], [2], [3], [2, 2], [1, 3], [2, 1, 2], [0], [2, 0]]

def rand_mask(rng, shape, pm=0.3):
    n = int(np.prod(shape, dtype=int))
    mode = rng.random()
    if mode < 0.35: bitsl = [False] * n
    elif mode < 0.45: bitsl = [True] * n
    else: bitsl = [rng.random() < pm for _ in range(n)]
    return rng.choice(mask_reps(bitsl, shape))

def rand_coeffs(rng, length, lo=-4, hi=4):
    mode = rng.random()
    c = [rng.randint(lo, hi) for _ in range(length)]
    if mode < 0.15:
        z = rng.randint(1, length)          # leading zeros (possibly all)
        c[:z] = [0] * z
    elif mode < 0.2:
        c = [0] * length
    elif mode < 0.3:
        c[-1] = 0
    return c

def rand_poly(rng, shape, order):
    n = int(np.prod(shape, dtype=int))
    vals = []
    for _ in range(n):
        vals += rand_coeffs(rng, order + 1)
    return {'shape': list(shape), 'len': order + 1, 'vals': vals, 'mask': rand_mask(rng, shape)}

def rand_x(rng, shape, lo=-3, hi=3):
    n = int(np.prod(shape, dtype=int))
    return {'shape': list(shape), 'vals': [rng.randint(lo, hi) for _ in range(n)], 'mask': rand_mask(rng, shape)}

def poly_from_factors(rng, order):
    """integer coefficient list of exactly order+1 entries from random factors"""
    lead = rng.choice([0, 0, 1, 1, 2]) if order >= 1 else 0
    lead = min(lead, order)
    deg = order - lead
    c = np.array([float(rng.choice([1, 1, 1, -1, 2, -3, 4]))])
    mode = rng.random()
    d = 0
    if mode < 0.12 and deg >= 1:           # powers of x
        k = rng.randint(1, deg)
        c = np.polymul(c, [1.] + [0.] * k); d += k
    while d < deg:
        kind = rng.random()
        if kind < 0.45 or deg - d == 1:
            r = rng.randint(-4, 4)
            if rng.random() < 0.25 and deg - d >= 2:      # repeated root
                c = np.polymul(c, [1., -2. * r, float(r * r)]); d += 2
            elif rng.random() < 0.2:
                c = np.polymul(c, [2., -float(r)]); d += 1       # half-integer root
            else:
                c = np.polymul(c, [1., -float(r)]); d += 1
        else:
            b, cc = rng.randint(-4, 4), rng.randint(-4, 4)       # complex pair, irrational pair or rational pair
            c = np.polymul(c, [1., float(b), float(cc)]); d += 2
    c = [0.] * lead + [float(x) for x in np.atleast_1d(c)]
    c = [0.] * (order + 1 - len(c)) + c
    assert len(c) == order + 1, (c, order)
    return [int(x) for x in c]

def rand_root_poly(rng, shape, order):
    n = int(np.prod(shape, dtype=int))
    vals = []
    for _ in range(n):
        r = rng.random()
        if r < 0.06:
            vals += [0] * (order + 1)
        elif r < 0.3:
            vals += rand_coeffs(rng, order + 1, -5, 5)
        else:
            vals += poly_from_factors(rng, order)
    return {'shape': list(shape), 'len': order + 1, 'vals': vals, 'mask': rand_mask(rng, shape, 0.2)}

def nontrivial(case):
    nt = False
    for k in ('a', 'b', 'x'):
        o = case.get(k)
        if o is not None and any(mask_bits(o['mask'], o['shape'])):
            nt = True
    a, b, x = case.get('a'), case.get('b'), case.get('x')
    if b is not None and (a['shape'] != b['shape'] or a['len'] != b['len']):
        nt = True
    if x is not None and a['shape'] != x['shape']:
        nt = True
    if case['op'] == 'hist':
        return True
    if case['op'] in ('roots', 'deriv', 'pow', 'eval', 'evald', 'bind', 'und', 'smuld', 'chaind', 'rootsd', 'invline', 'sdiv') and a['len'] >= 2:
        nt = True
    return nt

def mk(case):
    case['req'] = request(case)
    case['nontrivial'] = nontrivial(case)
    k = case['op']
    if k in ('roots', 'rootsd'):
        k += ':order%d' % (case['a']['len'] - 1)
    elif k == 'eval':
        k += ':' + case.get('xform', 'scalar')
    elif k == 'pow':
        k += ':%d' % case['n']
    elif k in ('smul', 'sadd', 'smuld', 'sdiv', 'eq'):
        k += ':' + case['form']
    elif k in ('bind', 'und'):
        k += ':' + case['sym']
    elif k == 'chaind':
        k += ':' + case['syms'][2]
    elif k == 'hist':
        k += ':' + '+'.join(sorted({H.qname(st['q']) for st in case['steps'] if st.get('mut')}))
    case['kind'] = k
    return case

def gen_cases(rng, tier):
    thorough = tier == 'thorough'
    maxo = 7 if thorough else 5
    cases = []
    reps = 40 if thorough else 6
    # 1. binary ring operations: every ordered pair of orders x shape pairs
    for _ in range(reps):
        for sa, sb in SHAPE_PAIRS:
            oa, ob = rng.randint(0, maxo), rng.randint(0, maxo)
            for op in ('add', 'sub', 'rsub', 'mul'):
                cases.append(mk({'op': op, 'a': rand_poly(rng, sa, oa), 'b': rand_poly(rng, sb, ob),
                                 'xs': [rng.randint(-3, 3) for _ in range(2)]}))
            op = rng.choice(['iadd', 'isub'])
            cases.append(mk({'op': op, 'a': rand_poly(rng, sa, oa), 'b': rand_poly(rng, sb, ob), 'xs': [rng.randint(-3, 3)]}))
    for oa in range(0, maxo + 1):
        for ob in range(0, maxo + 1):
            for op in ('add', 'sub', 'rsub', 'mul'):
                sa, sb = rng.choice(SHAPE_PAIRS[:8])
                cases.append(mk({'op': op, 'a': rand_poly(rng, sa, oa), 'b': rand_poly(rng, sb, ob),
                                 'xs': [rng.randint(-3, 3) for _ in range(2)]}))
    # 2. unary: neg, deriv, pow
    for _ in range(reps):
        for o in range(0, maxo + 1):
            for sh in SHAPES:
                cases.append(mk({'op': 'neg', 'a': rand_poly(rng, sh, o), 'xs': [rng.randint(-3, 3)]}))
                cases.append(mk({'op': 'deriv', 'a': rand_poly(rng, sh, o)}))
                cases.append(mk({'op': 'smul', 'a': rand_poly(rng, sh, o), 'k': rng.randint(-3, 3),
                                 'form': rng.choice(['left', 'right'])}))
                cases.append(mk({'op': 'sadd', 'a': rand_poly(rng, sh, o), 'k': rng.randint(-3, 3),
                                 'form': rng.choice(['p+k', 'k+p', 'p-k', 'k-p'])}))
                n = rng.choice([0, 1, 2, 2, 3, 3, 4]) if o <= 3 else rng.choice([0, 1, 2, 3])
                cases.append(mk({'op': 'pow', 'a': rand_poly(rng, sh, o), 'n': n, 'xs': [rng.randint(-2, 2)]}))
                if o <= 2:
                    # high exponents (orders <= 2, |x| <= 1 keep float64 exact: |p|_1 <= 12, 12**12 < 2**53)
                    cases.append(mk({'op': 'pow', 'a': rand_poly(rng, sh, o), 'n': rng.randint(5, 12), 'xs': [rng.randint(-1, 1)]}))
    # 3. eval: polynomial shape x point shape
    for _ in range(reps):
        for sa, sb in SHAPE_PAIRS:
            for o in range(0, maxo + 1):
                if rng.random() < 0.5 and not thorough and o not in (0, 2):
                    continue
                x = rand_x(rng, sb)
                form = 'scalar'
                r = rng.random()
                if r < 0.15 and not any(mask_bits(x['mask'], sb)):
                    form = 'ndarray' if sb else 'float'
                    x['mask'] = 'F'
                cases.append(mk({'op': 'eval', 'a': rand_poly(rng, sa, o), 'x': x, 'xform': form}))
    # 4. roots
    for o in range(0, maxo + 1):
        for sh in SHAPES:
            k = (reps * 3) if o >= 1 else 1
            if not sh:
                k *= 4                      # many single polynomials: the unit of the root logic
            for _ in range(k):
                cases.append(mk({'op': 'roots', 'a': rand_root_poly(rng, sh, o)}))
    # 5. derivatives of the coefficients / of the evaluation point (key d_dt)
    def with_d(o, rng, prob=1.0):
        if rng.random() < prob:
            o = dict(o, d=[rng.randint(-2, 2) for _ in o['vals']])
        return o
    for _ in range(reps):
        for sa, sb in SHAPE_PAIRS:
            if np_bcast(sa, sb) is None and rng.random() < 0.7:
                continue
            o = rng.randint(0, maxo)
            a, x = rand_poly(rng, sa, o), rand_x(rng, sb)
            mode = rng.choice(['both', 'both', 'p', 'x'])
            cases.append(mk({'op': 'evald', 'a': with_d(a, rng, 1.0 if mode != 'x' else 0.0),
                             'x': with_d(x, rng, 1.0 if mode != 'p' else 0.0)}))
            for sym in ('add', 'sub', 'rsub', 'mul'):
                oa, ob = rng.randint(0, maxo), rng.randint(0, maxo)
                a, b = rand_poly(rng, sa, oa), rand_poly(rng, sb, ob)
                mode = rng.choice(['both', 'both', 'a', 'b'])
                cases.append(mk({'op': 'bind', 'sym': sym, 'a': with_d(a, rng, 1.0 if mode != 'b' else 0.0),
                                 'b': with_d(b, rng, 1.0 if mode != 'a' else 0.0)}))
            # (a o1 b) o2 c, then a unary operation: derivatives must survive every intermediate object
            sc = rng.choice(SHAPES[:7])
            syms = [rng.choice(['add', 'sub', 'rsub', 'mul']), rng.choice(['add', 'sub', 'rsub', 'mul']),
                    rng.choice(['neg', 'deriv', 'pow', 'id'])]
            lim = 2 if syms[2] == 'pow' else 3
            a, b, c = (rand_poly(rng, sa, rng.randint(0, lim)), rand_poly(rng, sb, rng.randint(0, lim)),
                       rand_poly(rng, sc, rng.randint(0, lim)))
            cases.append(mk({'op': 'chaind', 'syms': syms, 'n': rng.choice([0, 1, 2, 2, 3]),
                             'a': with_d(a, rng, 0.8), 'b': with_d(b, rng, 0.8), 'c': with_d(c, rng, 0.5)}))
        for sh in SHAPES:
            o = rng.randint(0, maxo)
            cases.append(mk({'op': 'und', 'sym': 'deriv', 'a': with_d(rand_poly(rng, sh, o), rng)}))
            cases.append(mk({'op': 'und', 'sym': 'neg', 'a': with_d(rand_poly(rng, sh, o), rng)}))
            cases.append(mk({'op': 'und', 'sym': 'pow', 'n': rng.choice([0, 1, 2, 3, 4]) if o <= 3 else rng.choice([0, 1, 2]),
                             'a': with_d(rand_poly(rng, sh, o), rng)}))
            cases.append(mk({'op': 'und', 'sym': 'pow', 'n': rng.randint(5, 11),
                             'a': with_d(rand_poly(rng, sh, rng.randint(0, 2)), rng)}))
            cases.append(mk({'op': 'smuld', 'k': rng.randint(-3, 3), 'form': rng.choice(['left', 'right']),
                             'a': with_d(rand_poly(rng, sh, o), rng)}))
            # division / in-place scaling by a number or a zero-order polynomial; == and != across orders (oracle only)
            cases.append(mk({'op': 'sdiv', 'k': rng.choice([1, 2, -2, 4, 0, -1]),
                             'form': rng.choice(['p/k', 'p/[k]', 'p*=k', 'p*=[k]', 'p/=k', 'p/=[k]']),
                             'a': with_d(rand_poly(rng, sh, o), rng, 0.5)}))
            qa = rand_poly(rng, sh, o)
            qa['mask'] = 'F'
            lead = rng.randint(0, 2)
            n = int(np.prod(sh, dtype=int))
            vals = []
            for i in range(n):
                e = qa['vals'][i * (o + 1):(i + 1) * (o + 1)]
                if rng.random() < 0.3:
                    e = list(e); e[-1] += 1
                vals += [0] * lead + list(e)
            qb = {'shape': list(sh), 'len': o + 1 + lead, 'vals': vals, 'mask': 'F'}
            if rng.random() < 0.5:
                qa, qb = qb, qa
            cases.append(mk({'op': 'eq', 'form': rng.choice(['eq', 'ne']), 'a': qa, 'b': qb}))
            # invert_line: order 1 (valid), other orders (ValueError)
            cases.append(mk({'op': 'invline', 'a': rand_poly(rng, sh, 1)}))
            cases.append(mk({'op': 'invline', 'a': rand_poly(rng, sh, rng.choice([0, 2, 3]))}))
            for o in range(1, maxo + 1):
                if int(np.prod(sh, dtype=int)) > 0:
                    cases.append(mk({'op': 'rootsd', 'a': with_d(rand_root_poly(rng, sh, o), rng)}))
    # 6. histories on ONE polynomial object: query, modify the RESULT in place, query again
    HSHAPES = [[], [], [2], [3], [2, 2], [1, 3]]
    def rand_query(rng, sh, o):
        k = rng.choice(['deriv', 'deriv', 'deriv', 'deriv0', 'eval', 'eval', 'roots', 'neg', 'smul', 'pow', 'add', 'sub',
                        'rsub', 'mul', 'invline'])
        if k == 'deriv': return ['deriv', True]
        if k == 'deriv0': return ['deriv', False]
        if k == 'eval':
            xs = rng.choice([[], [2]] if not sh else [[], list(sh)])
            return ['eval', [rng.randint(-3, 3) for _ in range(int(np.prod(xs, dtype=int)))], xs]
        if k == 'roots': return ['roots'] if o >= 1 else ['neg']
        if k == 'invline': return ['invline'] if o == 1 else ['deriv', True]
        if k == 'smul': return ['smul', rng.choice([-2, 2, 3])]
        if k == 'pow': return ['pow', rng.choice([2, 3, 5, 6])] if o <= 2 else (['pow', rng.choice([2, 3])] if o <= 3 else ['neg'])
        if k == 'neg': return ['neg']
        return [k, with_d(rand_poly(rng, rng.choice([[], list(sh)]), rng.randint(0, 3)), rng, 0.4)]
    def rand_mut(rng):
        k = rng.choice(['imul', 'imul', 'idiv', 'iadd', 'isub', 'setitem', 'setitem', 'insert_deriv', 'delete_derivs'])
        return [k, rng.choice([2, -1, 4, 3]) if k != 'setitem' else rng.choice([0, 7])]
    for _ in range(reps * 40):
        sh = rng.choice(HSHAPES)
        o = rng.randint(0, min(maxo, 5))
        a = with_d(rand_poly(rng, sh, o) if rng.random() < 0.5 else rand_root_poly(rng, sh, o), rng, 0.5)
        if rng.random() < 0.7:
            a['mask'] = 'F'
        qs = [rand_query(rng, sh, o) for _ in range(rng.randint(1, 3))]
        steps = [{'q': q, 'mut': rand_mut(rng)} for q in qs]
        if rng.random() < 0.5:
            steps.append({'q': qs[0], 'mut': rand_mut(rng)})      # modify a second result of the same query
        steps += [{'q': q} for q in qs]                            # ask everything again
        cases.append(mk({'op': 'hist', 'a': a, 'steps': steps}))
    # systematic small quadratics and linears (every sign pattern / zero pattern)
    rngc = [-2, -1, 0, 1, 2] if not thorough else [-3, -2, -1, 0, 1, 2, 3]
    for a in rngc:
        for b in rngc:
            cases.append(mk({'op': 'roots', 'a': {'shape': [], 'len': 2, 'vals': [a, b], 'mask': 'F'}}))
            for c in rngc:
                cases.append(mk({'op': 'roots', 'a': {'shape': [], 'len': 3, 'vals': [a, b, c], 'mask': 'F'}}))
                if thorough or (a + b + c) % 2 == 0:
                    cases.append(mk({'op': 'roots', 'a': {'shape': [], 'len': 4, 'vals': [0, a, b, c], 'mask': 'F'}}))
    return cases


def neighbours(case):
    """shrunk variants: single leading elements of the operands, unmasked"""
    out = []
    a = case.get('a')
    if a is None:
        return out
    if case['op'] == 'hist':
        for st in case['steps']:
            if st.get('mut'):
                out.append(mk({'op': 'hist', 'a': a, 'steps': [st, {'q': st['q']}]}))
        return out
    n = int(np.prod(a['shape'], dtype=int))
    for i in range(min(n, 6)):
        c = dict(case)
        c['a'] = {'shape': [], 'len': a['len'], 'vals': a['vals'][i * a['len']:(i + 1) * a['len']], 'mask': 'F'}
        for k in ('b', 'x'):
            o = case.get(k)
            if o is not None:
                m = int(np.prod(o['shape'], dtype=int))
                if m == 0:
                    break
                j = i % m
                if k == 'b':
                    c['b'] = {'shape': [], 'len': o['len'], 'vals': o['vals'][j * o['len']:(j + 1) * o['len']], 'mask': 'F'}
                else:
                    c['x'] = {'shape': [], 'vals': [o['vals'][j]], 'mask': 'F'}
        else:
            c.pop('req', None)
            out.append(mk(c))
    return out
