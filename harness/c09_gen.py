"""C09/C10 — generators of indexed objects and index tuples (every entry kind in every position)."""
import itertools
import numpy as np
from absn import mask_reps, mask_bits
from c09_ref import prod, ITEMS

# kind alphabet of the structured generator: (name, axes consumed)
KINDS = [('int', 1), ('slice', 1), ('ell', 0), ('none', 0), ('bool', 1), ('iarr', 1), ('barr1', 1), ('barr2', 2),
         ('vec2', 2), ('vec3', 3)]
CONS = dict(KINDS)
ARRAY_KINDS = ('iarr', 'barr1', 'barr2', 'vec2', 'vec3')


def rand_mask_rep(rng, shape, p=0.3, views=True):
    n = prod(shape)
    mode = rng.random()
    if mode < 0.25:
        bits = [False] * n
    elif mode < 0.35:
        bits = [True] * n
    elif mode < 0.45 and len(shape) >= 2:
        a = np.zeros(shape, dtype=bool)
        row = np.array([rng.random() < 0.4 for _ in range(prod(shape[1:]))], dtype=bool).reshape(shape[1:])
        a[...] = row
        bits = [bool(x) for x in a.ravel()]
    else:
        bits = [rng.random() < p for _ in range(n)]
    return rng.choice(mask_reps(bits, shape, views=views))


def rand_shape(rng, max_rank=4, max_len=4):
    r = rng.choice([0, 1, 1, 2, 2, 2, 3, 3, 3, 4][: 2 + 2 * max_rank])
    r = min(r, max_rank)
    return [rng.choice([0, 1, 2, 2, 3, 3, 4][: max_len + 3]) if rng.random() < 0.9 else rng.randint(0, max_len) for _ in range(r)]


def rand_object(rng, shape=None, derivs=True, classes=None):
    cls = rng.choice(classes or ['Scalar', 'Scalar', 'Scalar', 'Vector', 'Pair', 'Matrix', 'Vector3', 'Quaternion'])
    item = rng.choice(ITEMS[cls])
    if shape is None:
        shape = rand_shape(rng)
    o = {'cls': cls, 'shape': list(shape), 'item': list(item), 'mask': rand_mask_rep(rng, shape), 'derivs': {}}
    if derivs and rng.random() < 0.3:
        for key in rng.sample(['t', 'a', 'xy'], rng.choice([1, 1, 2])):
            o['derivs'][key] = {'denom': rng.choice([[], [], [2]]), 'mask': rand_mask_rep(rng, shape)}
    return o


def arr_shape(rng, common):
    """shape of an integer index array: broadcast-compatible with `common` most of the time"""
    if common is None or rng.random() < 0.15:
        r = rng.choice([1, 1, 1, 2, 2, 3])
        return [rng.choice([0, 1, 2, 3, 4]) if rng.random() < 0.15 else rng.choice([1, 2, 3]) for _ in range(r)]
    mode = rng.random()
    if mode < 0.5:
        return list(common)
    if mode < 0.7:
        return [1 if rng.random() < 0.5 else n for n in common]
    if mode < 0.85:
        return list(common[rng.randint(0, len(common)):]) or [1]
    return [rng.choice([1, 2])] + list(common)


def rand_int(rng, n, oob):
    """an index into an axis of length n; out of range with probability `oob`"""
    if n == 0 or rng.random() < oob:
        return rng.choice([n, n + 1, -n - 1, -n - 2, n + 3])
    return rng.randint(-n, n - 1)


def mk_kind(rng, kind, axes, common, p_mask=0.3, p_oob=0.15):
    """one concrete entry of the given kind for the source axis lengths `axes` (the axes this entry will consume;
    may be shorter than the kind consumes when the index has too many entries)"""
    n = axes[0] if axes else 3
    if kind == 'int':
        form = rng.choice(['py', 'py', 'np', 'Scalar', 'Scalar'])
        m = form == 'Scalar' and rng.random() < p_mask
        return {'k': 'int', 'v': rand_int(rng, n, p_oob), 'form': form, 'm': m}
    if kind == 'slice':
        c = rng.random()
        if c < 0.4:
            return {'k': 'slice', 'a': None, 'b': None, 'c': None}
        def pt():
            return rng.choice([None, rng.randint(-n - 1, n + 1)])
        return {'k': 'slice', 'a': pt(), 'b': pt(), 'c': rng.choice([None, 1, 2, -1, -2, 3])}
    if kind == 'ell':
        return {'k': 'ell'}
    if kind == 'none':
        return {'k': 'none'}
    if kind == 'bool':
        form = rng.choice(['py', 'np', 'Boolean', 'Boolean'])
        m = form == 'Boolean' and rng.random() < 0.4
        return {'k': 'bool', 'v': rng.random() < 0.6, 'form': form, 'm': m}
    if kind == 'iarr':
        shape = arr_shape(rng, common)
        sz = prod(shape)
        form = rng.choice(['np', 'Scalar', 'Scalar', 'Scalar'] + (['list'] if len(shape) == 1 and sz else []))
        e = {'k': 'iarr', 'shape': shape, 'v': [rand_int(rng, n, p_oob) for _ in range(sz)], 'form': form}
        if form == 'Scalar':
            e['m'] = rand_mask_rep(rng, shape, p=p_mask, views=False)
        return e
    if kind in ('barr1', 'barr2'):
        r = 1 if kind == 'barr1' else 2
        shape = [axes[j] if j < len(axes) else rng.choice([1, 2, 3]) for j in range(r)]
        if rng.random() < 0.06:
            j = rng.randrange(r)
            shape[j] += rng.choice([1, -1]) if shape[j] else 1      # mismatch -> IndexError
        form = rng.choice(['np', 'Boolean', 'Boolean'])
        sz = prod(shape)
        pt = rng.choice([0.0, 0.3, 0.6, 1.0])
        e = {'k': 'barr', 'shape': shape, 'v': [rng.random() < pt for _ in range(sz)], 'form': form}
        if common is not None and rng.random() < 0.6 and sz:
            # make the number of selected entries match the common array shape (length of its last axis) when possible
            want = common[-1] if common else 1
            bits = [False] * sz
            for p in rng.sample(range(sz), min(want, sz)):
                bits[p] = True
            e['v'] = bits
        if form == 'Boolean':
            e['m'] = rand_mask_rep(rng, shape, p=p_mask, views=False)
            if common is not None and e['m'] not in ('T', 'F') and rng.random() < 0.6:
                # masked entries count as selected: keep the count by masking only selected entries
                e['m'] = [bool(b and rng.random() < 0.4) for b in e['v']]
        return e
    if kind in ('vec2', 'vec3'):
        nn = 2 if kind == 'vec2' else 3
        shape = [] if rng.random() < 0.2 else arr_shape(rng, common)
        sz = prod(shape)
        v = []
        for _ in range(sz):
            for j in range(nn):
                v.append(rand_int(rng, axes[j] if j < len(axes) else 2, p_oob / 2))
        form = 'Pair' if nn == 2 and rng.random() < 0.5 else 'Vector'
        return {'k': 'vec', 'shape': shape, 'n': nn, 'v': v, 'form': form, 'm': rand_mask_rep(rng, shape, p=p_mask, views=False)}
    raise KeyError(kind)


def concretise(rng, shape, kinds, **kw):
    """turn a tuple of kinds into concrete entries for an object of leading shape `shape`"""
    cons = sum(CONS[k] for k in kinds)
    has_ell = 'ell' in kinds
    ax = 0
    common = None
    if sum(1 for k in kinds if k in ARRAY_KINDS) >= 2 or rng.random() < 0.3:
        common = [rng.choice([1, 2, 3])] if rng.random() < 0.7 else [rng.choice([1, 2]), rng.choice([2, 3])]
    entries = []
    seen_ell = False
    for k in kinds:
        if k == 'ell' and not seen_ell:
            seen_ell = True
            ax += max(0, len(shape) - cons)
            entries.append({'k': 'ell'})
            continue
        entries.append(mk_kind(rng, k, list(shape[ax:ax + CONS[k]]), common, **kw))
        ax += CONS[k]
    return entries


def rand_kinds(rng, rank, max_entries=None, p_over=0.05):
    """random kind tuple consuming at most `rank` axes (rarely more) with at most rank+2 entries"""
    max_entries = rank + 2 if max_entries is None else max_entries
    n = rng.randint(0 if rank else 1, max_entries) if rng.random() < 0.8 else min(max_entries, rank)
    n = max(n, 1)
    kinds, cons, ell = [], 0, False
    weights = [('int', 3), ('slice', 4), ('ell', 2), ('none', 2), ('bool', 2), ('iarr', 6), ('barr1', 3), ('barr2', 2),
               ('vec2', 2), ('vec3', 1)]
    pool = [k for k, w in weights for _ in range(w)]
    over = rng.random() < p_over
    for _ in range(n):
        for _try in range(20):
            k = rng.choice(pool)
            if k == 'ell' and ell and rng.random() < 0.97:
                continue
            if cons + CONS[k] > rank and not over:
                continue
            break
        else:
            k = 'none'
        if k == 'ell':
            ell = True
        kinds.append(k)
        cons += CONS[k]
    return kinds


def all_kind_tuples(rank, alphabet=None, max_entries=None):
    """every kind tuple with at most rank+2 entries, at most one Ellipsis, consuming at most `rank` axes"""
    alphabet = alphabet or [k for k, _ in KINDS]
    max_entries = rank + 2 if max_entries is None else max_entries
    for n in range(1, max_entries + 1):
        for t in itertools.product(alphabet, repeat=n):
            if t.count('ell') > 1:
                continue
            if sum(CONS[k] for k in t) > rank:
                continue
            yield list(t)
