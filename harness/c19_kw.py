"""C19 — sweep of public methods with their documented keyword options (preserve=, nozeros=, method=, recursive=,
check=, builtins=, masked=, masked exponents of **): none may crash with AttributeError / NameError / RuntimeError /
UnboundLocalError / ZeroDivisionError or let a Warning class escape as an exception.  Oracle only (no Lean model)."""
import inspect, itertools, warnings, operator
import numpy as np
from absn import *
import polymath
from polymath import Polynomial
import c19_run as R

KWNAMES = ('preserve', 'nozeros', 'method', 'recursive', 'check', 'builtins', 'masked')
OPTVALS = {
    'preserve': [None, 't', ['t'], ('x',), {'t', 'x'}, [], ['zz']],
    'nozeros': [False, True],
    'method': ['insert', 'replace', 'add', 'bogus'],
    'recursive': [True, False],
    'check': [True, False],
    'builtins': [None, True, False],
    'masked': [None, -99],
}
SWEEP_CLASSES = ('Scalar', 'Boolean', 'Vector', 'Vector3', 'Pair', 'Matrix', 'Matrix3', 'Quaternion', 'Polynomial')
BAD = ('AttributeError', 'NameError', 'RuntimeError', 'UnboundLocalError', 'ZeroDivisionError', 'RecursionError')
SKIP = {'as_readonly'}      # mutates shared class constants when called on them; covered by C08


def all_classes():
    d = dict(CLASSES)
    d['Polynomial'] = Polynomial
    return d


def make(clsname, variant):
    """objects the methods are called on: variant = (shape, masked?, derivs?, zero?)"""
    shape, masked, derivs, zero = variant
    if clsname == 'Polynomial':
        vals = (np.arange(int(np.prod(shape + [4], dtype=int))) % 5 + 1.).reshape(shape + [4])
        obj = Polynomial(vals, (np.arange(int(np.prod(shape, dtype=int))).reshape(shape) % 2 == 1) if (masked and shape) else bool(masked and not shape and False))
        if derivs:
            obj.insert_deriv('t', Polynomial(vals * 0.5))
        return obj
    numer = {'Scalar': [], 'Boolean': [], 'Vector': [3], 'Vector3': [3], 'Pair': [2], 'Matrix': [2, 2], 'Matrix3': [3, 3],
             'Quaternion': [4]}[clsname]
    o = {'cls': clsname, 'kind': 'bool' if clsname == 'Boolean' else 'float', 'shape': shape, 'numer': numer, 'denom': [],
         'units': None, 'ro': False, 'mask': 'A' if masked else 'F', 'zero': zero,
         'derivs': {'t': {'denom': []}, 'x': {'denom': [2]}} if (derivs and clsname != 'Boolean') else {}}
    obj = R.build(o, 3)
    if clsname == 'Matrix3':
        v = np.broadcast_to(np.array([[0., 1, 0], [-1, 0, 0], [0, 0, 1]]), tuple(shape) + (3, 3)).copy()
        obj = Matrix3(v, obj._mask_, derivs=obj._derivs_)
    return obj


VARIANTS = [([], False, False, False), ([3], True, True, False), ([2, 3], True, False, True), ([], False, True, False),
            ([0], False, False, False)]


def required_value(name, obj, clsname):
    """a value for a required positional parameter, chosen by its name; KeyError = method is skipped"""
    shape = list(obj._shape_)
    if name in ('arg', 'vector', 'pole', 'factor', 'value', 'arg2'):
        if name == 'value':
            return obj.wod * 0.5 if clsname != 'Boolean' else Scalar(1.)
        return obj.wod if name != 'factor' else obj.wod
    if name == 'mask':
        return np.zeros(shape, dtype=bool) if shape else False
    if name == 'key':
        return 't'
    if name == 'new_key':
        return 'x'
    if name == 'shape':
        return tuple(shape)
    if name in ('axis', 'axis1', 'axis2', 'source', 'destination', 'start'):
        return 0
    if name in ('indx', 'index', 'indx0', 'indx1', 'row', 'column', 'index1', 'order'):
        return 0 if name != 'order' else 2
    if name == 'index2':
        return 1
    if name == 'x':
        return Scalar(np.arange(3.) + 1)
    if name in ('a', 'b', 'c'):
        return Scalar(2.)
    raise KeyError(name)


def methods():
    """(class name, method name, [keyword names present], [required positional names])"""
    out = []
    for cn in SWEEP_CLASSES:
        c = all_classes()[cn]
        for name in sorted(dir(c)):
            if name.startswith('_') or name in SKIP:
                continue
            st = inspect.getattr_static(c, name)
            if isinstance(st, (property, staticmethod, classmethod)):
                continue
            f = getattr(c, name)
            if not callable(f):
                continue
            try:
                ps = list(inspect.signature(f).parameters.values())[1:]
            except (TypeError, ValueError):
                continue
            kws = [p.name for p in ps if p.name in KWNAMES]
            if not kws:
                continue
            req = [p.name for p in ps if p.default is inspect.Parameter.empty
                   and p.kind in (p.POSITIONAL_ONLY, p.POSITIONAL_OR_KEYWORD)]
            out.append((cn, name, kws, req))
    return out


SPECIAL = [
    # masked exponents of ** (no keyword, but a documented optional behaviour) and friends
    ('Scalar', 'pow_masked'), ('Matrix', 'pow_masked'), ('Matrix3', 'pow_masked'), ('Quaternion', 'pow_masked'),
    ('Scalar', 'pow_masked_array'), ('Scalar', 'exp_overflow'), ('Matrix', 'inverse_singular_nozeros'),
    ('Matrix3', 'x_rotation_derivs'), ('Matrix3', 'y_rotation_derivs'), ('Matrix3', 'z_rotation_derivs'),
    ('Matrix3', 'axis_rotation_derivs'), ('Polynomial', 'roots_order3'), ('Scalar', 'swap_axes_shapeless'),
    ('Scalar', 'move_axis_shapeless'), ('Scalar', 'rename_deriv_existing'), ('Scalar', 'with_deriv_existing'),
]


def special(clsname, what, vi):
    obj = make(clsname, VARIANTS[vi])
    if what == 'pow_masked':
        return obj ** Scalar(2, True)
    if what == 'pow_masked_array':
        return obj ** Scalar([1., 2., 3.], [False, True, False]) if obj._shape_ in ((), (3,)) else obj ** Scalar(2., True)
    if what == 'exp_overflow':
        return (obj * 1000.).exp(check=False), (obj * 1000.).exp(check=True)
    if what == 'inverse_singular_nozeros':
        return Matrix(np.zeros(tuple(obj._shape_) + (2, 2))).inverse(nozeros=False), obj.inverse(nozeros=True)
    if what.endswith('_rotation_derivs'):
        ang = Scalar(np.arange(int(np.prod(obj._shape_, dtype=int)) + 0.).reshape(obj._shape_) if obj._shape_ else 0.5)
        ang.insert_deriv('t', Scalar(np.ones(obj._shape_)) if obj._shape_ else Scalar(1.))
        f = getattr(Matrix3, what[:-7])
        return f(ang, recursive=True), f(ang, recursive=False)
    if what == 'roots_order3':
        return obj.roots(recursive=True)
    if what == 'swap_axes_shapeless':
        return Scalar(1.).swap_axes(0, 0)
    if what == 'move_axis_shapeless':
        return Scalar(1.).move_axis(0, 0)
    if what == 'rename_deriv_existing':
        o = make('Scalar', VARIANTS[1])
        return [o.rename_deriv('t', 'x', method=m) for m in ('replace', 'add')] + [o.rename_deriv('t', 'x', method='insert')]
    if what == 'with_deriv_existing':
        o = make('Scalar', VARIANTS[1])
        return o.with_deriv('t', o.d_dt, method='insert')
    raise KeyError(what)


def gen(rng, tier):
    cases = []
    thorough = tier == 'thorough'
    for cn, name, kws, req in methods():
        combos = list(itertools.product(*[range(len(OPTVALS[k])) for k in kws]))
        for vi in range(len(VARIANTS)):
            mine = combos if thorough or len(combos) <= 4 else rng.sample(combos, 4)
            if not thorough and rng.random() < 0.4:
                continue
            for combo in mine:
                cases.append({'mut': 'kw', 'faults': [], 'cls': cn, 'meth': name, 'kws': kws, 'opt': list(combo), 'req': req,
                              'variant': vi, 'name': '%s.%s(%s)|v%d' % (cn, name, ','.join('%s=%d' % (k, i) for k, i in zip(kws, combo)), vi)})
    for cn, what in SPECIAL:
        for vi in range(len(VARIANTS)):
            cases.append({'mut': 'kw', 'faults': [], 'cls': cn, 'meth': what, 'special': True, 'variant': vi,
                          'name': '%s.%s|v%d' % (cn, what, vi)})
    for c in cases:
        c['req_names'] = c.pop('req', [])
    return cases


def call(case):
    if case.get('special'):
        return special(case['cls'], case['meth'], case['variant'])
    obj = make(case['cls'], VARIANTS[case['variant']])
    args = [required_value(n, obj, case['cls']) for n in case['req_names']]
    kw = {k: OPTVALS[k][i] for k, i in zip(case['kws'], case['opt'])}
    return getattr(obj, case['meth'])(*args, **kw)


def observe(case):
    with warnings.catch_warnings(record=True):
        warnings.simplefilter('always')
        try:
            call(case)
            return 'ok', None
        except KeyError as e:
            if case.get('special') is None and e.args and e.args[0] in case['req_names']:
                return 'skipped', None                  # no value known for a required parameter
            return 'Other:KeyError', str(e)[:120]
        except Exception as e:
            return R.exc_class(e) if not isinstance(e, Warning) else 'Warn:' + type(e).__name__, (type(e).__name__ + ': ' + str(e))[:160]


def impl(case):
    o, _ = observe(case)
    return o.replace(':', '_')


def oracle(case):
    o, msg = observe(case)
    name = o.split(':')[-1]
    if o.startswith('Warn:') or name in BAD:
        return ('kw:%s.%s:%s' % (case['cls'], case['meth'], name),
                '%s crashed with %s' % (case['name'], msg))
    return None
