"""C19 — sweep of every public method, static constructor and class method of the nine classes that has optional
parameters (found by introspection), called with every documented value of every option (the seven headline options
preserve= nozeros= method= recursive= check= builtins= masked= also in combination; masked exponents of ** and other
special cases by hand): none may crash with AttributeError / NameError / RuntimeError /
UnboundLocalError / ZeroDivisionError or let a Warning class escape as an exception.  Oracle only (no Lean model)."""
import inspect, itertools, warnings, operator
import numpy as np
from absn import *
import polymath
from polymath import Polynomial
import c19_run as R

KWNAMES = ('preserve', 'nozeros', 'method', 'recursive', 'check', 'builtins', 'masked')
# values tried for an optional parameter, by its name (every documented value of the option, plus one bogus value
# where the option is an enumeration); parameters not listed get values from the type of their default
OPTVALS = {
    'preserve': [None, 't', ['t'], ('x',), {'t', 'x'}, [], ['zz']],
    'nozeros': [False, True],
    'method': ['insert', 'replace', 'add', 'bogus'],
    'recursive': [True, False],
    'check': [True, False],
    'builtins': [None, True, False],
    'masked': [None, -99],
    'axis': [None, 0, -1, (0,), 1, 5],
    'axis1': [-1, 0], 'axis2': [0, -1], 'axes': [(0, 1), (1, 0)],
    'readonly': [False, True], 'remask': [False, True], 'clip': [False, True], 'inclusive': [True, False],
    'zeros': [True, False], 'value': [True, False], 'purge': [False, True], 'partials': [False, True],
    'classes': [(), 'same', 'scalar'], 'dtype': [None, 'float', 'int'], 'out': [None], 'top': [None, 3],
    'shift': [None, True, False], 'replace': [None, 7.], 'constant': [None, 1.], 'rank': [None, 0, 1],
    'start': [0, 1, -1], 'norm': [1., 2., 0.], 'include_antimask': [False, True], 'retain_cache': [False, True],
    'coerce': [True, False], 'op': ['', '+'], 'override': [False, True], 'angle': [None, 0.5], 'z': [0., 1.],
    'length': [1., 2.], 'digits': [None, 6], 'item': [None], 'collapse': [False, True], 'broadcast': [False, True],
}
SWEEP_CLASSES = ('Scalar', 'Boolean', 'Vector', 'Vector3', 'Pair', 'Matrix', 'Matrix3', 'Quaternion', 'Polynomial')
BAD = ('AttributeError', 'NameError', 'RuntimeError', 'UnboundLocalError', 'ZeroDivisionError', 'RecursionError',
       'KeyError')
# not swept: as_readonly/match_readonly freeze shared class constants (C08); the rest are low-level helpers that take
# raw arrays / shapes rather than documented options
SKIP = {'as_readonly', 'match_readonly', 'broadcast', 'broadcasted_shape', 'stack', 'is_real_number', 'is_one_true',
        'is_one_false', 'or_', 'and_', 'set_pickle_digits', 'set_default_pickle_digits', 'set_pickle_reference',
        'set_default_pickle_reference', 'fpzip_encode', 'fpzip_decode', 'combos', 'as_one_bool', 'mean_or_sum'}


def all_classes():
    d = dict(CLASSES)
    d['Polynomial'] = Polynomial
    return d


def make(clsname, variant):
    """objects the methods are called on: variant = (shape, masked?, derivs?, zero?)"""
    shape, masked, derivs, zero = variant
    if clsname == 'Polynomial':
        vals = (np.arange(int(np.prod(shape + [4], dtype=int))) % 5 + 1.).reshape(shape + [4])
        obj = Polynomial(vals, (np.arange(int(np.prod(shape, dtype=int))).reshape(shape) % 2 == 1) if (masked and shape) else bool(masked and not shape and False))
        if derivs:
            obj.insert_deriv('t', Polynomial(vals * 0.5))
        return obj
    numer = {'Scalar': [], 'Boolean': [], 'Vector': [3], 'Vector3': [3], 'Pair': [2], 'Matrix': [2, 2], 'Matrix3': [3, 3],
             'Quaternion': [4]}[clsname]
    o = {'cls': clsname, 'kind': 'bool' if clsname == 'Boolean' else 'float', 'shape': shape, 'numer': numer, 'denom': [],
         'units': None, 'ro': False, 'mask': 'A' if masked else 'F', 'zero': zero,
         'derivs': {'t': {'denom': []}, 'x': {'denom': [2]}} if (derivs and clsname != 'Boolean') else {}}
    obj = R.build(o, 3)
    if clsname == 'Matrix3':
        v = np.broadcast_to(np.array([[0., 1, 0], [-1, 0, 0], [0, 0, 1]]), tuple(shape) + (3, 3)).copy()
        obj = Matrix3(v, obj._mask_, derivs=obj._derivs_)
    return obj


VARIANTS = [([], False, False, False), ([3], True, True, False), ([2, 3], True, False, True), ([], False, True, False),
            ([0], False, False, False)]


class _NoValue(Exception):
    pass


def required_value(name, obj, clsname):
    """a value for a required positional parameter, chosen by its name; _NoValue = method is skipped"""
    shape = list(obj._shape_)
    if name in ('arg', 'arg1', 'arg2', 'vector', 'vector1', 'vector2', 'pole', 'factor'):
        return obj.wod
    if name == 'value':
        return obj.wod * 0.5 if clsname != 'Boolean' else Scalar(1.)
    if name == 'matrix':
        return Matrix3(np.eye(3))
    if name == 'mask':
        return np.zeros(shape, dtype=bool) if shape else False
    if name == 'key':
        return 't'
    if name == 'new_key':
        return 'x'
    if name == 'shape':
        return tuple(shape)
    if name in ('axis', 'axis1', 'axis2', 'source', 'destination', 'start'):
        return 0
    if name in ('indx', 'index', 'indx0', 'indx1', 'row', 'column', 'index1', 'order'):
        return 0 if name != 'order' else 2
    if name == 'index2':
        return 1
    if name == 'x':
        return Scalar(np.arange(3.) + 1)
    if name in ('a', 'b', 'c', 'angle', 'scalar', 'radius', 'longitude', 'ra', 'dec'):
        return Scalar(2.)
    if name == 'units':
        return None
    if name in ('y', 'z'):
        return Scalar(2.)
    if name == 'fill':
        return 1.
    if name in ('lower', 'low', 'limit', 'match'):
        return 1.
    if name in ('upper', 'high'):
        return 5.
    if name in ('ai', 'aj', 'ak'):
        return Scalar(0.25)
    if name == 'deriv':
        return obj.wod if clsname != 'Boolean' else Scalar(1.)
    if name == 'derivs':
        return {'u': obj.wod if clsname != 'Boolean' else Scalar(1.)}
    if name == 'antimask':
        return np.ones(shape, dtype=bool) if shape else True
    raise _NoValue(name)


_EULER = ['rzxz', 'sxyz', 'szyx', 'rxyx']                                    # documented axis codes
PER_METHOD = {('to_euler', 'axes'): _EULER, ('from_euler', 'axes'): _EULER, ('from_euler_via_matrix', 'axes'): _EULER}


def option_values(cn, pname, default, meth=None):
    if (meth, pname) in PER_METHOD:
        return list(PER_METHOD[(meth, pname)])
    if pname in OPTVALS:
        vals = list(OPTVALS[pname])
        if isinstance(default, int) and not isinstance(default, bool) and pname.startswith('axis'):
            vals = [default, 0, -1, 5]
        return vals
    if isinstance(default, bool):
        return [True, False]
    if default is None:
        return [None]
    if isinstance(default, (int, float)):
        return [default, default + 1]
    return [default]


def resolve(cn, pname, v):
    """symbolic option values"""
    if pname == 'classes':
        if v == 'same':
            return (all_classes()[cn],)
        if v == 'scalar':
            return (Scalar,)
    return v


def methods():
    """(class name, method name, is_static, [(optional parameter, n values)], [required positional names])
    for every public callable of the swept classes that has at least one optional parameter"""
    out = []
    for cn in SWEEP_CLASSES:
        c = all_classes()[cn]
        for name in sorted(dir(c)):
            if name.startswith('_') or name in SKIP:
                continue
            st = inspect.getattr_static(c, name)
            if isinstance(st, property):
                continue
            f = getattr(c, name)
            if not callable(f) or inspect.isclass(f):
                continue
            static = isinstance(st, (staticmethod, classmethod))
            try:
                ps = list(inspect.signature(f).parameters.values())
            except (TypeError, ValueError):
                continue
            if not static:
                ps = ps[1:] if ps and ps[0].name == 'self' else ps
            opts = [(p.name, len(option_values(cn, p.name, p.default, name))) for p in ps
                    if p.default is not inspect.Parameter.empty and p.kind in (p.POSITIONAL_OR_KEYWORD, p.KEYWORD_ONLY)
                    and not p.name.startswith('_')]
            if not opts:
                continue
            req = [p.name for p in ps if p.default is inspect.Parameter.empty
                   and p.kind in (p.POSITIONAL_ONLY, p.POSITIONAL_OR_KEYWORD)]
            out.append((cn, name, static, opts, req))
    return out


SPECIAL = [
    # masked exponents of ** (no keyword, but a documented optional behaviour) and friends
    ('Scalar', 'pow_masked'), ('Matrix', 'pow_masked'), ('Matrix3', 'pow_masked'), ('Quaternion', 'pow_masked'),
    ('Scalar', 'pow_masked_array'), ('Scalar', 'exp_overflow'), ('Matrix', 'inverse_singular_nozeros'),
    ('Matrix3', 'x_rotation_derivs'), ('Matrix3', 'y_rotation_derivs'), ('Matrix3', 'z_rotation_derivs'),
    ('Matrix3', 'axis_rotation_derivs'), ('Polynomial', 'roots_order3'), ('Scalar', 'swap_axes_shapeless'),
    ('Scalar', 'move_axis_shapeless'), ('Scalar', 'rename_deriv_existing'), ('Scalar', 'with_deriv_existing'),
]


def special(clsname, what, vi):
    obj = make(clsname, VARIANTS[vi])
    if what == 'pow_masked':
        return obj ** Scalar(2, True)
    if what == 'pow_masked_array':
        return obj ** Scalar([1., 2., 3.], [False, True, False]) if obj._shape_ in ((), (3,)) else obj ** Scalar(2., True)
    if what == 'exp_overflow':
        return (obj * 1000.).exp(check=False), (obj * 1000.).exp(check=True)
    if what == 'inverse_singular_nozeros':
        return Matrix(np.zeros(tuple(obj._shape_) + (2, 2))).inverse(nozeros=False), obj.inverse(nozeros=True)
    if what.endswith('_rotation_derivs'):
        ang = Scalar(np.arange(int(np.prod(obj._shape_, dtype=int)) + 0.).reshape(obj._shape_) if obj._shape_ else 0.5)
        ang.insert_deriv('t', Scalar(np.ones(obj._shape_)) if obj._shape_ else Scalar(1.))
        f = getattr(Matrix3, what[:-7])
        return f(ang, recursive=True), f(ang, recursive=False)
    if what == 'roots_order3':
        return obj.roots(recursive=True)
    if what == 'swap_axes_shapeless':
        return Scalar(1.).swap_axes(0, 0)
    if what == 'move_axis_shapeless':
        return Scalar(1.).move_axis(0, 0)
    if what == 'rename_deriv_existing':
        o = make('Scalar', VARIANTS[1])
        return [o.rename_deriv('t', 'x', method=m) for m in ('replace', 'add')] + [o.rename_deriv('t', 'x', method='insert')]
    if what == 'with_deriv_existing':
        o = make('Scalar', VARIANTS[1])
        return o.with_deriv('t', o.d_dt, method='insert')
    raise KeyError(what)


def gen(rng, tier):
    """per method and object variant: the call with all defaults, every value of every optional parameter one at a
    time, and the full product of the seven headline options (preserve nozeros method recursive check builtins
    masked); quick samples the products"""
    cases = []
    thorough = tier == 'thorough'
    for cn, name, static, opts, req in methods():
        head = [(k, n) for k, n in opts if k in KWNAMES]
        singles = [()] + [((k, i),) for k, n in opts for i in range(n)]
        prods = [tuple(zip([k for k, _ in head], combo))
                 for combo in itertools.product(*[range(n) for _, n in head])] if len(head) > 1 else []
        for vi in range(len(VARIANTS)):
            if not thorough and rng.random() < 0.5:
                continue
            mine = list(singles)
            extra = [p for p in prods if p not in mine]
            mine += extra if thorough or len(extra) <= 3 else rng.sample(extra, 3)
            if not thorough and len(mine) > 8:
                mine = [mine[0]] + rng.sample(mine[1:], 7)
            for setting in mine:
                cases.append({'mut': 'kw', 'faults': [], 'cls': cn, 'meth': name, 'static': static,
                              'setting': [list(x) for x in setting], 'req_names': req, 'variant': vi,
                              'name': '%s.%s(%s)|v%d' % (cn, name, ','.join('%s=%d' % (k, i) for k, i in setting), vi)})
    for cn, what in SPECIAL:
        for vi in range(len(VARIANTS)):
            cases.append({'mut': 'kw', 'faults': [], 'cls': cn, 'meth': what, 'special': True, 'variant': vi,
                          'name': '%s.%s|v%d' % (cn, what, vi)})
    return cases


def call(case):
    if case.get('special'):
        return special(case['cls'], case['meth'], case['variant'])
    cn = case['cls']
    obj = make(cn, VARIANTS[case['variant']])
    args = [required_value(n, obj, cn) for n in case['req_names']]
    f = getattr(all_classes()[cn], case['meth']) if case['static'] else getattr(obj, case['meth'])
    sig = inspect.signature(f).parameters
    kw = {}
    for k, i in case['setting']:
        kw[k] = resolve(cn, k, option_values(cn, k, sig[k].default, case['meth'])[i])
    return f(*args, **kw)


def observe(case):
    with warnings.catch_warnings(record=True):
        warnings.simplefilter('always')
        try:
            call(case)
            return 'ok', None
        except _NoValue:
            return 'skipped', None                      # no value known for a required parameter
        except Exception as e:
            return R.exc_class(e) if not isinstance(e, Warning) else 'Warn:' + type(e).__name__, (type(e).__name__ + ': ' + str(e))[:160]


def impl(case):
    o, _ = observe(case)
    return o.replace(':', '_')


def oracle(case):
    o, msg = observe(case)
    name = o.split(':')[-1]
    if o.startswith('Warn:') or name in BAD:
        return ('kw:%s.%s:%s' % (case['cls'], case['meth'], name),
                '%s crashed with %s' % (case['name'], msg))
    return None
