"""C12 reference: dimensional algebra over exact rationals with an explicit power of pi.

Independent of the Lean model and of polymath's Units arithmetic: a unit is
(dims, Fraction, piexp) and its factor to standard units (km, s, rad) is Fraction * pi**piexp.
The table below states the physical definitions of the named units; it is deliberately NOT
read from polymath.
"""
import math
from fractions import Fraction as Fr

_D, _T, _A = (1, 0, 0), (0, 1, 0), (0, 0, 1)

# base definitions: name -> (dims, factor, piexp)
_BASE = {
    'UNITLESS': ((0, 0, 0), Fr(1), 0),
    'KM': (_D, Fr(1), 0), 'KILOMETER': (_D, Fr(1), 0), 'KILOMETERS': (_D, Fr(1), 0),
    'M': (_D, Fr(1, 1000), 0), 'METER': (_D, Fr(1, 1000), 0), 'METERS': (_D, Fr(1, 1000), 0),
    'CM': (_D, Fr(1, 10**5), 0), 'CENTIMETER': (_D, Fr(1, 10**5), 0), 'CENTIMETERS': (_D, Fr(1, 10**5), 0),
    'MM': (_D, Fr(1, 10**6), 0), 'MILLIMETER': (_D, Fr(1, 10**6), 0), 'MILLIMETERS': (_D, Fr(1, 10**6), 0),
    'MICRON': (_D, Fr(1, 10**9), 0), 'MICRONS': (_D, Fr(1, 10**9), 0),
    'S': (_T, Fr(1), 0), 'SEC': (_T, Fr(1), 0), 'SECOND': (_T, Fr(1), 0), 'SECONDS': (_T, Fr(1), 0),
    'MIN': (_T, Fr(60), 0), 'MINUTE': (_T, Fr(60), 0), 'MINUTES': (_T, Fr(60), 0),
    'H': (_T, Fr(3600), 0), 'HOUR': (_T, Fr(3600), 0), 'HOURS': (_T, Fr(3600), 0),
    'D': (_T, Fr(86400), 0), 'DAY': (_T, Fr(86400), 0), 'DAYS': (_T, Fr(86400), 0),
    'MS': (_T, Fr(1, 1000), 0), 'MSEC': (_T, Fr(1, 1000), 0),
    'RAD': (_A, Fr(1), 0), 'RADIAN': (_A, Fr(1), 0), 'RADIANS': (_A, Fr(1), 0),
    'MRAD': (_A, Fr(1, 1000), 0), 'MILLIRAD': (_A, Fr(1, 1000), 0),
    'DEG': (_A, Fr(1, 180), 1), 'DEGREE': (_A, Fr(1, 180), 1), 'DEGREES': (_A, Fr(1, 180), 1),
    'ARCHOUR': (_A, Fr(1, 12), 1), 'ARCHOURS': (_A, Fr(1, 12), 1),
    'ARCMIN': (_A, Fr(1, 180 * 60), 1), 'ARCMINUTE': (_A, Fr(1, 180 * 60), 1), 'ARCMINUTES': (_A, Fr(1, 180 * 60), 1),
    'ARCSEC': (_A, Fr(1, 180 * 3600), 1), 'ARCSECOND': (_A, Fr(1, 180 * 3600), 1),
    'ARCSECONDS': (_A, Fr(1, 180 * 3600), 1),
    'REV': (_A, Fr(2), 1), 'REVS': (_A, Fr(2), 1), 'ROTATION': (_A, Fr(2), 1), 'ROTATIONS': (_A, Fr(2), 1),
    'CYCLE': (_A, Fr(2), 1), 'CYCLES': (_A, Fr(2), 1),
    'STER': ((0, 0, 2), Fr(1), 0),
}
NAMES = sorted(_BASE)


class Inexact(Exception):
    """the reference value is an irrational multiple: (dims, real factor)"""


def r_mul(a, b):
    return (tuple(x + y for x, y in zip(a[0], b[0])), a[1] * b[1], a[2] + b[2])

def r_div(a, b):
    return (tuple(x - y for x, y in zip(a[0], b[0])), a[1] / b[1], a[2] - b[2])

def r_pow(a, k):
    return (tuple(x * k for x in a[0]), a[1] ** k, a[2] * k)

def isqrt_exact(n):
    r = math.isqrt(n)
    return r if r * r == n else None

def r_sqrt(a):
    """('illegal',) | ('exact', ref) | ('real', dims, float factor)"""
    if any(x % 2 for x in a[0]):
        return ('illegal',)
    dims = tuple(x // 2 for x in a[0])
    rn, rd = isqrt_exact(a[1].numerator), isqrt_exact(a[1].denominator)
    if rn is not None and rd is not None and a[2] % 2 == 0:
        return ('exact', (dims, Fr(rn, rd), a[2] // 2))
    return ('real', dims, math.sqrt(r_float(a)))

def r_float(a):
    return float(a[1]) * math.pi ** a[2]

UNITLESS = _BASE['UNITLESS']


def ref_of(spec):
    """reference value of an operand spec (see c12.build); None stays None"""
    if spec is None:
        return None
    if isinstance(spec, str):
        return _BASE[spec]
    op = spec[0]
    if op == '*':
        return r_mul(ref_of(spec[1]), ref_of(spec[2]))
    if op == '/':
        return r_div(ref_of(spec[1]), ref_of(spec[2]))
    if op == '**':
        return r_pow(ref_of(spec[1]), spec[2])
    if op == 'num*':            # ['num*', spec, numer, denom]: units times the number numer/denom
        a = ref_of(spec[1])
        return (a[0], a[1] * Fr(spec[2], spec[3]), a[2])
    if op == 'sqrt':
        r = r_sqrt(ref_of(spec[1]))
        if r[0] != 'exact':
            raise Inexact(spec)
        return r[1]
    raise KeyError(op)


def ulps(x, y):
    """distance of two floats in units of the last place of the larger one"""
    if x == y:
        return 0.0
    if not (math.isfinite(x) and math.isfinite(y)):
        return math.inf
    m = max(abs(x), abs(y))
    return abs(x - y) / math.ulp(m)
